"""Shared plumbing for /verif checks: scratch copies of /repo, evidence files,
known findings, exit-code contract.

Exit codes of ./check:  0 = every obligation discharged (known findings only)
                        1 = reproduced violation (prints VIOLATION line)
                        2 = inconclusive (unsupported construct, solver timeout, ...)
"""
import fcntl
import hashlib
import json
import os
import shutil
import subprocess
import sys
import time

VERIF = os.path.dirname(os.path.dirname(os.path.abspath(__file__)))
REPO = os.environ.get("VERIF_REPO", "/repo")
CACHE = os.path.join(VERIF, ".cache")
SCRATCH_ROOT = os.environ.get("VERIF_SCRATCH", "/tmp/verif-scratch")
EVIDENCE_DIR = os.environ.get("VERIF_EVIDENCE_DIR") or os.path.join(VERIF, "evidence")
REPLAY_DIR = os.environ.get("VERIF_REPLAY_DIR") or os.path.join(VERIF, "replays")
KNOWN_FINDINGS = os.path.join(VERIF, "known_findings.json")

OFFLINE_ENV = {"CARGO_NET_OFFLINE": "true", "GOPROXY": "off", "PIP_NO_INDEX": "1"}


def env_offline(extra=None):
    e = dict(os.environ)
    e.update(OFFLINE_ENV)
    if extra:
        e.update(extra)
    return e


def log(*a):
    print(*a, flush=True)


def seed():
    try:
        return int(os.environ.get("VERIF_SEED", "0"))
    except ValueError:
        return 0


class Lock:
    """flock-based mutex so that concurrent checks do not trample a shared scratch/target dir."""

    def __init__(self, name):
        os.makedirs(CACHE, exist_ok=True)
        self.path = os.path.join(CACHE, name + ".lock")
        self.fd = None

    def __enter__(self):
        self.fd = open(self.path, "w")
        fcntl.flock(self.fd, fcntl.LOCK_EX)
        return self

    def __exit__(self, *a):
        fcntl.flock(self.fd, fcntl.LOCK_UN)
        self.fd.close()


def repo_tree_hash(subdirs=("src", "Cargo.toml", "Cargo.lock", "build.rs")):
    """Content hash of /repo's working tree parts that influence the library build."""
    h = hashlib.sha256()
    for sd in subdirs:
        p = os.path.join(REPO, sd)
        if os.path.isfile(p):
            h.update(sd.encode())
            h.update(open(p, "rb").read())
        elif os.path.isdir(p):
            for root, dirs, files in os.walk(p):
                dirs.sort()
                for f in sorted(files):
                    fp = os.path.join(root, f)
                    h.update(os.path.relpath(fp, REPO).encode())
                    try:
                        h.update(open(fp, "rb").read())
                    except OSError:
                        pass
    return h.hexdigest()[:16]


def scratch_copy(name):
    """rsync /repo's working tree (no target/, no .git) to a fixed scratch dir; mtimes preserved so
    cargo's fingerprints stay valid across runs.  Returns the path.  Caller holds Lock(name)."""
    dst = os.path.join(SCRATCH_ROOT, name, "repo")
    os.makedirs(dst, exist_ok=True)
    subprocess.run(
        ["rsync", "-a", "--delete", "--exclude", "/target", "--exclude", "/.git", REPO + "/", dst + "/"],
        check=True,
    )
    return dst


def remove_scratch(name):
    shutil.rmtree(os.path.join(SCRATCH_ROOT, name), ignore_errors=True)


def inject_hook(scratch, relfile, hook_text):
    """Append hook lines to a source file of the scratch copy, keeping its mtime (the harness file it
    points to is tracked by cargo's dep-info on its own)."""
    p = os.path.join(scratch, relfile)
    st = os.stat(p)
    with open(p, "a") as f:
        f.write("\n" + hook_text + "\n")
    os.utime(p, ns=(st.st_atime_ns, st.st_mtime_ns))


def load_known_findings():
    if not os.path.exists(KNOWN_FINDINGS):
        return {"findings": [], "fixed": []}
    return json.load(open(KNOWN_FINDINGS))


def write_evidence(pid, tier, level, coverage, assumptions, wall_s, violations=0):
    os.makedirs(EVIDENCE_DIR, exist_ok=True)
    ev = {
        "property_id": pid,
        "tier": tier,
        "seed": seed(),
        "level": level,
        "coverage": coverage,
        "assumptions": assumptions,
        "wall_s": round(wall_s, 2),
        "violations": violations,
    }
    p = os.path.join(EVIDENCE_DIR, pid + ".json")
    tmp = p + ".tmp"
    with open(tmp, "w") as f:
        json.dump(ev, f, indent=1)
    os.replace(tmp, p)
    return p


def write_replay(pid, name, payload):
    os.makedirs(REPLAY_DIR, exist_ok=True)
    import re as _re

    name = _re.sub(r"[^A-Za-z0-9_.-]", "_", name)
    p = os.path.join(REPLAY_DIR, f"{pid}-{name}.json")
    with open(p, "w") as f:
        json.dump(payload, f, indent=1)
    return p


class Outcome:
    """Collects obligations of one check run and turns them into exit code + evidence."""

    def __init__(self, pid, tier):
        self.pid = pid
        self.tier = tier
        self.t0 = time.time()
        self.obligations = []  # dicts: name, status (discharged|violated|inconclusive|known), detail, solver_s, engine
        self.functions = []
        self.bounds = []
        self.trusted = []
        self.assumptions = []
        self.samples = []
        self.outside = []
        self.vacuity = []
        self.notes = []
        self.solver_s = 0.0
        self.queries = 0

    def add(self, name, status, detail="", solver_s=0.0, engine="", extra=None):
        d = {"name": name, "status": status, "detail": detail, "solver_s": round(solver_s, 2), "engine": engine}
        if extra:
            d.update(extra)
        self.obligations.append(d)
        self.solver_s += solver_s
        self.queries += 1
        log(f"  [{status:12s}] {name} ({engine}, {solver_s:.1f}s) {detail[:200]}")

    def finish(self, level="proof", checker_cmd=""):
        known = load_known_findings()
        kf = [k for k in known.get("findings", []) if k.get("property") == self.pid]
        viol = []
        inconc = []
        for o in self.obligations:
            if o["status"] == "violated":
                match = [k for k in kf if k.get("obligation") == o["name"] or o["name"] in k.get("obligations", [])]
                if match:
                    o["status"] = "known"
                    o["known_finding"] = match[0].get("id")
                    log(f"KNOWN-FINDING: property={self.pid} {match[0].get('what', o['name'])}")
                else:
                    viol.append(o)
            elif o["status"] == "inconclusive":
                inconc.append(o)
        n = len(self.obligations)
        disch = len([o for o in self.obligations if o["status"] == "discharged"])
        coverage = {
            "obligations": n,
            "discharged": disch,
            "known_findings": len([o for o in self.obligations if o["status"] == "known"]),
            "inconclusive": len(inconc),
            "checker_cmd": checker_cmd,
            "trusted_base": self.trusted,
            "functions_encoded": self.functions,
            "bounds": self.bounds,
            "outside_bounds": self.outside,
            "queries": self.queries,
            "solver_time_s": round(self.solver_s, 2),
            "vacuity_witnesses": self.vacuity,
            "obligation_list": self.obligations,
            "samples": self.samples or [o["name"] for o in self.obligations[:5]],
            "notes": self.notes,
            "repo_tree_hash": repo_tree_hash(),
        }
        wall = time.time() - self.t0
        write_evidence(self.pid, self.tier, level, coverage, self.assumptions, wall, violations=len(viol))
        if viol:
            for o in viol:
                rp = o.get("replay") or write_replay(self.pid, o["name"].replace("/", "_"), o)
                log(f"VIOLATION property={self.pid} replay={rp}")
            return 1
        if inconc:
            for o in inconc:
                log(f"INCONCLUSIVE property={self.pid} obligation={o['name']} reason={o['detail'][:300]}")
            return 2
        log(f"OK property={self.pid} tier={self.tier} obligations={n} discharged={disch} wall={wall:.1f}s")
        return 0
