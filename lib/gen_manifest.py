#!/usr/local/bin/python3-vt
"""Regenerates MANIFEST.json from the tables below (kept in one place so it stays valid)."""
import json, os
HERE = os.path.dirname(os.path.dirname(os.path.abspath(__file__)))

CHECKS = {
    "C12": dict(
        engine="kani+mirsym",
        technique="bounded model checking with Kani/CBMC (SAT) of the step functions from an arbitrary counter state, plus SMT (z3/cvc5) over a symbolic execution of the real MIR of the async entry points validate_sequence, batch_update, cleanup_old_sequences, sync_counters and new_with_sync_interval/load_counters (state machines polled in place) over an arbitrary counter map",
        category="proof",
        text="Bounded proof: (Kani) for every counter state satisfying the representation invariant (history length in the stated set), every submission and clock value, the verdict is sound and complete (Valid iff next in order and in window), apply preserves the invariant and the accepted number and everything below it is never Valid again; (engine M) the whole async validate_sequence / batch_update apply exactly the Valid submissions to exactly the addressed peer's counter from an ARBITRARY map (so a number duplicated inside a batch is accepted once, other peers unaffected), cleanup never forgets a peer's high-water mark, and a store reloaded after a sync (sync_counters, then the constructor's load_counters; file system and postcard as environment: a write stores the image or fails, (de)serialisation is the identity) holds exactly the persisted counter of every peer, so a persisted number is never re-accepted. Induction over histories by the invariant. Counterexamples are replayed natively (pinned clock) before being reported.",
        note="Trusts Kani/CBMC, the solvers, the summaries (HashMap as SMT arrays, uncontended locks, clock) and single-task execution; true concurrency between tasks beyond the structural obligation 'validate-and-apply happens under ONE acquisition of the counters lock' (a satisfiable query is confirmed by a native eight-task stress run before it is reported), the serde/postcard encoding itself (summarised as the identity on the counter map), the timing of the background sync task and L>=2^64-2 are outside.",
        design_ref="4/C12, 8.5",
    ),
}

CHECKS["C13"] = dict(
    engine="mirsym+kani",
    technique="SMT (z3/cvc5; arrays, bit-vectors) over a symbolic execution of the real MIR of IPDiversityEnforcer::{can_accept,add,remove}_unified, analyze_ip/ipv4 from an arbitrary enforcer state (LruCaches as SMT arrays) and of the async DhtCoreEngine::{add_node, evict_node, handle_node_failure} (state machines polled in place) from an arbitrary engine state (enforcer, per-peer slot records, routing table, validator verdict) and of BootstrapManager::add_peer (arbitrary enforcer and rate-limiter verdict); Kani/CBMC for extract_subnet_prefix",
    category="proof",
    text="Bounded proof by SMT. Enforcer: one add / remove / can-accept step from an ARBITRARY enforcer state (all caps symbolic, maps as arrays), arbitrary candidate; admit iff every level is below the cap in force, exact counter updates, failed admission consumes nothing, add-then-remove restores every counter; induction over histories via the re-proved representation invariant. Engine: one add_node / evict_node / handle_node_failure from an ARBITRARY engine state changes every counter by exactly the change of the peer's slot record, holders are listed, other peers' records untouched (so every counter equals the number of listed peers holding that key: removal by failure or eviction gives the slots back and an admission refused at a later gate consumes none); plus add-then-evict/fail scenarios. Bootstrap cache: BootstrapManager::add_peer admits only past the join rate limiter and below every cap, counts the peer once, and a refusal consumes no diversity slot. Counterexamples are replayed natively (JSON drivers inside the crate) and only reproduced ones are reported. A genuine defect found this way was fixed in /repo (known_findings.json).",
    note="Trusts the library-call summaries listed in the evidence (LruCache/HashMap as arrays, address parsing as an uninterpreted function of the text, uncontended locks), the three solvers, single-task execution; fraction limited to the three presets, network size <= 2^32, caps >= 1; engine level: routing-table layout [3,7] with <= 2 peers per bucket, no geo provider for freshly analysed addresses. join_network (bootstrap peers bypass the gates by design) and the ant-quic cache itself are outside.",
    design_ref="4/C13, 8.7",
)
CHECKS["C14"] = dict(
    engine="mirsym+kani",
    technique="SMT (z3/cvc5, floating point + bit-vectors + arrays) over a symbolic execution of the real MIR of Bucket::try_consume, Engine::try_consume_key, JoinRateLimiter::check_join_allowed and validation::RateLimiter::check_ip with symbolic clock; Kani/CBMC for the prefix helpers",
    category="proof",
    text="Bounded proof by SMT: one attempt from an ARBITRARY bucket / engine / limiter state under an arbitrary non-decreasing clock: token and window budgets (exact f64 refill rule), per-key isolation, Ok charges exactly the global, /64, /48 (or /24) buckets of the masked address; the per-IP limiter on accepted connections (check_ip) charges the global bucket and the address's own bucket only. Multi-step bounds follow by induction over the proved one-step relation. try_consume is verified on its real body and used through its proved contract at the map level. Counterexamples are replayed natively with a clock shim.",
    note="Trusts the summaries (Instant/Duration arithmetic, LruCache as array, f64::min), the solvers, single-threaded execution; windows 60 s / 3600 s only, cfg values 1..1e6; concurrency and LRU eviction outside.",
    design_ref="4/C14",
)

CHECKS["C15"] = dict(
    engine="mirsym",
    technique="SMT (z3/cvc5, f64 + bit-vectors) over a symbolic execution of the real MIR of CloseGroupValidator::validate_membership with validate_bft, validate_trust_weighted, count_confirming_regions, detect_collusion_indicators and their closures; one obligation set per witness count",
    category="proof",
    text="Bounded proof by SMT of the whole verdict function for every witness set of each size 0..5 (quick) / 0..7 (thorough) over symbolic confirmations, trust values, regions, latencies and a symbolic configuration: BFT acceptance implies the Byzantine quorum conditions, f liars among 3f+1 trusted witnesses cannot force acceptance, normal-mode acceptance iff the confirming trust share reaches the threshold, monotonicity under confirmation->denial, completeness for unanimous spread witnesses. Counterexamples are replayed natively before being reported.",
    note="Trusts the iterator/Vec/sort/HashSet summaries listed in the evidence, IEEE-754 semantics of the solvers (an uninterpreted-function abstraction of f64 arithmetic is tried first: sound for unsat), single-threaded execution. Normal-mode trust values restricted to the property's grid {0.1,0.29,0.3,0.9}; witness counts above the bound and the cached validate() path are outside.",
    design_ref="4/C15",
)

CHECKS["C16"] = dict(
    engine="mirsym+kani",
    technique="SMT (z3/cvc5; arrays, bit-vectors, f64) over a symbolic execution of the real MIR of EvictionManager::{record_failure,record_success,update_trust_score,record_eviction,remove_node,get_eviction_reason,should_evict,should_evict_for_trust} from an arbitrary manager state and of TrustAwarePeerSelector::{select_peers,select_storage_peers} with an uninterpreted trust provider; Kani/CBMC for the liveness counter",
    category="proof",
    text="Bounded proof by SMT: eviction candidacy and reason precedence exactly as the policy states after one event from an ARBITRARY manager state (induction over event histories), other nodes unaffected; selector results are distinct candidates, at most count, never below the trust floor when untrusted are excluded (any f64 trust incl. NaN), and never rank a farther peer ahead of a closer one of equal trust (all ids sharing their 16 high-order bytes; representative grids otherwise). A genuine ranking defect found this way was fixed in /repo (see known_findings.json).",
    note="Trusts the HashMap/iterator/sort summaries, the solvers and single-threaded execution; get_eviction_candidates (hash-map iteration) and the async DhtCoreEngine call sites are outside; ranking for distinct high-order bytes is decided on grids only.",
    design_ref="4/C16",
)
CHECKS["C05"] = dict(
    engine="mirsym",
    technique="SMT (z3/cvc5) over a symbolic execution of the real MIR of network::parse_protocol_message (postcard decoder replaced by an arbitrary decode result, symbolic clock) and of the async state machines DhtCoreEngine::handle_request and DhtNetworkManager::handle_dht_message (decoder call recorded with its path condition)",
    category="proof",
    text="PARTIAL claim (the documented limits and the second sentence of the property): for every decode outcome the frame is surfaced iff it decodes and its timestamp lies in [now-300, now+30]; the surfaced source is always the connection identity, never the payload's claim; topic and payload are the decoded fields. A DHT frame longer than 64 KiB is refused before the decoder is called; handle_request caps the find-node count at 20 (K for find-value), refuses values over 512 bytes and leaves the store untouched when it refuses, from an arbitrary data store. Counterexamples are replayed natively (real postcard bytes, pinned clock, real manager on loopback).",
    note="The decoder-robustness half (every byte string up to 128 KiB returns normally, allocation bounds inside postcard, string slicing in TransportHandle::parse_request_envelope) is NOT claimed: postcard decoding and UTF-8 handling are summarised, not executed. Trusts the summaries (postcard result arbitrary, strings abstract, tracing effect-free).",
    design_ref="4/C05, 8.9",
)

CHECKS["C02"] = dict(
    engine="mirsym+kani",
    technique="SMT (z3/cvc5, bit-vectors, arrays, uninterpreted functions) over a symbolic execution of the real MIR of KademliaRoutingTable::{find_closest_nodes, add_node, remove_node} (with KBucket, DhtKey::distance, the sort comparator) on well-formed tables with symbolic contents, of the async DhtCoreEngine::{select_query_peers, find_nodes, handle_node_failure, evict_node, handle_request} and of the async DhtNetworkManager::{find_closest_nodes_local, handle_lookup_request} (reply merge of table and connected peers); Kani/CBMC for the bucket-index kernel",
    category="proof",
    text="Both sentences of the property, bounded. KERNEL: for well-formed tables (local id 0 by XOR symmetry; populated buckets at listed positions with symbolic fill and fully symbolic remaining id bits), symbolic key and count, the answer has min(count,size) entries, is strictly ascending in XOR distance (hence duplicate-free), consists of table entries and leaves no closer entry out; add/remove keep the table well-formed (each peer once, never self); a failed / evicted peer appears in no answer. REPLY: the list a node hands out (find_closest_nodes_local, and handle_lookup_request for a remote find-node) over a table of up to two peers merged with up to two arbitrary connected-peer entries is the exact closest set of KNOWN PEERS, each peer (DHT key) once under one identifier, never the local node, never the requester's own id, and the requested count never exceeds the protocol cap; the find-node reply of DhtCoreEngine::handle_request is the exact closest set even with trust-weighted selection enabled. Four genuine defects found this way were replayed natively and repaired in /repo (known_findings.json).",
    note="Bounds: listed layouts / bucket fills / counts <= 8 (kernel), four known peers with bytes 1..30 of ids and key concrete (reply merge). Trusts the Vec/iterator/sort/HashSet/HashMap summaries, the solvers, the XOR-translation symmetry assumption (local id = 0), abstract string identities with hex(id) injective. The value path of find-value / get replies (C03) and the async join call sites are outside.",
    design_ref="4/C02, 8.9, 8.10",
)

CHECKS["C09"] = dict(
    engine="mirsym",
    technique="SMT (z3/cvc5; bit-vectors, arrays, uninterpreted functions) over a symbolic execution of the real MIR of PeerDHTRecord::{validate_inputs, create_signable_message, verify_signature, content_hash/verification key}, UserId::from_public_key and SignatureCache::verify_cached, with ML-DSA verification and BLAKE3 as uninterpreted collision-free functions over abstract byte strings",
    category="proof",
    text="STRUCTURAL claim: for two ARBITRARY records presented to an empty cache, the cached verdict equals direct verification for both; verification succeeds only if the user id is the one derived from the embedded key; two records with the same signable message agree on every signed field; the constructor accepts exactly the documented bounds. Holds for every interpretation of the signature predicate and hash (collision-free). Two genuine defects found this way on the original tree were replayed natively with real keys and repaired (known_findings.json).",
    note="The signature algebra itself (a signature verifies only for its message and key: C08) and hash collision resistance are ASSUMED (uninterpreted functions). Sequences longer than two records, cache eviction order at capacity and byte-level mutations of serialised endpoints are outside. Trusts the byte-string/HashMap/postcard summaries.",
    design_ref="4/C09",
)

CHECKS["C04"] = dict(
    engine="mirsym",
    technique="SMT (z3/cvc5; arrays over abstract string identities, bit-vectors) over a symbolic execution of the real MIR of the async state machines DhtNetworkManager::{handle_dht_response, send_dht_request, sweep_expired_operations}, TransportHandle::send_request, the spawned receive loop of TransportHandle::start_message_receiving_system (its async block polled in place on one inbound frame) and DhtCoreEngine::{query_node_for_key, handle_response}, with the transport send, the wait for the reply, the frame / envelope decoders and the clock as arbitrary environment outcomes",
    category="proof",
    text="PARTIAL claim (the sequential steps of the property). One reply against an ARBITRARY pending table, for DHT RPCs (handle_dht_response) and for /rr/ requests (the receive loop of the transport): it completes only the request carrying its identifier, only when it arrives from the contacted / expected peer (transport sender, never the id claimed in the payload), at most once, and touches no other pending request; unknown ids, other senders, duplicates and result-less replies change nothing (in particular a reply from the wrong peer leaves the request pending with its channel intact). One DHT request / one /rr/ request from an arbitrary pending table, for every outcome of the transport send and of the wait (reply, closed channel, timeout): nothing of the request remains in the pending table afterwards, other pending requests that are still within their own timeout are untouched, the /rr/ table refuses at its cap of 256 and the core engine's query table at its cap of 10 000 before anything is registered or sent; a response to a core-engine query completes exactly the query with its id, once. Counterexamples are replayed natively on real managers / transport handles / connected nodes on loopback.",
    note="NOT claimed: interleavings of several tasks (each pending table is guarded by one lock; the symbolic execution is single-task), timeouts as real time, sender authorisation of core-engine responses (DhtCoreEngine::handle_response takes no sender and has no caller in the crate). Natively only the send-error and cap paths of the senders can be forced (a counterexample needing a successful send is reported as inconclusive, exit 2); keepalive / undecodable frames cannot be injected natively. Trusts the summaries (HashMap as arrays, strings as identities, oneshot send = delivery, uuid fresh, mpsc channel yields one frame).",
    design_ref="8.8, 8.10",
)

CHECKS["C03"] = dict(
    engine="mirsym",
    technique="SMT (z3/cvc5; arrays, bit-vectors, f64) over a symbolic execution of the real MIR of the async state machines DhtCoreEngine::{store, retrieve} (with select_storage_peers, the routing-table kernel and LoadBalancer::select_least_loaded) and DhtNetworkManager::{handle_dht_request(Put), store_local_in_core, handle_lookup_request(Get/FindValue), retrieve_local_from_core} from an arbitrary local data store",
    category="proof",
    text="PARTIAL claim (the single-node store / retrieve kernel and the size limit on every store path). One call from an ARBITRARY local data store and a routing table holding up to two arbitrary peers: a value that DhtCoreEngine::store accepts (the function behind put / store_local / put_with_targets and behind the remote PUT handler) is afterwards held byte for byte under its key by this node, a value over 512 bytes is refused and never enters the store, a refusal changes nothing, no other key is touched; a replica answers a PUT request with PutSuccess only if it now holds the value; a local retrieve / the value side of a GET or FIND_VALUE reply returns exactly the bytes held under THAT key, finds every held value, and does not modify the store. One genuine defect found this way (accepted values were dropped as soon as one peer was known) was replayed natively and repaired in /repo (known_findings.json).",
    note="NOT claimed: the network half of the property -- which peers a put targets, replication outcomes per peer, the iterative get and its query budget, interleavings of puts and gets on several nodes -- multi-node histories over the transport. Store keys have their first differing bit at a listed position (the storage-peer selection walks buckets from there). Trusts the HashMap/Vec/iterator/sort summaries, opaque byte strings (identity + length), uncontended locks, the solvers.",
    design_ref="8.10",
)

NA = {
    "C01": "monolithic async fn over tokio/QUIC transport with string-keyed hash sets and timeouts; no solver-reachable encoding of the real code",
    "C02": "pending: routing-table kernel check not built yet",
    "C03": "multi-node async put/get histories over the transport; only a single comparison is synchronous",
    "C04": "quantifies over task interleavings, oneshot channels and timeouts; neither Kani nor an SMT encoding of sequential MIR models tokio concurrency",
    "C05": "pending: frame-parser window/source check not built yet; decoder robustness up to 128 KiB is out of solver reach",
    "C06": "crash points inside real file-system syscalls (FFI) and HMAC-SHA-256; would need a hand-written FS/crash model, i.e. another technique",
    "C07": "same code as C06; integrity rests on HMAC-SHA-256/SHA-256 which are not SAT-tractable",
    "C08": "ML-DSA-65/SHAKE in the release profile; lattice arithmetic and Keccak are outside SAT/SMT reach and uninterpreted crypto would assume the property",
    "C09": "pending: structural cache-key check not built yet",
    "C10": "async, hash-map-ordered, 50-round floating-point power iteration with ln/powf; no decidable encoding",
    "C11": "same computation as C10 over graphs of up to 1000 identities",
    "C13": "pending: enforcer step check not built yet",
    "C14": "pending: token-bucket / join-limiter check not built yet",
    "C15": "pending: verdict-function check not built yet",
    "C16": "pending: eviction-policy / selector check not built yet",
    "C17": "async_trait coroutine over HashSet/HashMap with haversine trigonometry and powf; statistical clause not expressible as a solver query",
    "C18": "Argon2id + ChaCha20-Poly1305 + file rename; with crypto uninterpreted the property would be assumed, not decided",
    "C19": "Display/FromStr string formatting and a 4096-word hashed dictionary in a third-party crate; symbolic execution through fmt/UTF-8/hash lookup is out of reach",
    "C20": "liveness/timeliness over tokio schedules and cancellation; bounded checking of sequential code cannot express it",
}


def main():
    checks = []
    for pid in sorted(CHECKS):
        c = CHECKS[pid]
        checks.append({
            "property_id": pid,
            "quick_cmd": f"./check {pid} --tier quick",
            "thorough_cmd": f"./check {pid} --tier thorough",
            "evidence_file": f"/verif/evidence/{pid}.json",
            "replay_cmd_template": f"./check {pid} --replay {{path}}",
            "engine": c["engine"],
            "level_claimed": {"category": c["category"], "text": c["text"], "design_ref": "DESIGN.md section " + c["design_ref"]},
            "level_note": c["note"],
            "technique": c["technique"],
        })
    m = {
        "version": 1,
        "setup_cmd": "./setup.sh",
        "hooks": {
            "guard": "cfg(kani) / --cfg verif_replay (harness modules are attached to a scratch copy of /repo at run time; /repo carries no hook)",
            "enable": "checks rsync /repo's working tree to a scratch dir, append `#[cfg(any(kani, verif_replay))] #[path=\"/verif/kani/<m>.rs\"] mod verif_kani_<m>;` to the target modules there and build with cargo kani (cfg(kani)) or RUSTFLAGS=--cfg verif_replay for native replay; the MIR engine reads MIR of the unmodified functions",
            "baseline_off_cmd": "cd /repo && cargo test --workspace --no-fail-fast --offline",
            "source_commits": [],
            "add_only": True,
        },
        "engines": [
            {"name": "kani", "path": "/verif/lib/kanirun.py", "serves_properties": sorted(p for p, c in CHECKS.items() if "kani" in c["engine"]),
             "kind_free_text": "Kani 0.68 / CBMC 6.11 bounded model checking of in-crate harnesses (/verif/kani/*.rs) over the real compiled functions"},
            {"name": "mirsym", "path": "/verif/lib/mirsym", "serves_properties": sorted(p for p, c in CHECKS.items() if "mirsym" in c["engine"]),
             "kind_free_text": "bounded symbolic executor over rustc MIR of the real functions, emitting SMT queries decided by z3/cvc5"},
        ],
        "checks": checks,
        "not_applicable": [{"property_id": p, "reason": r} for p, r in sorted(NA.items()) if p not in CHECKS],
        "notes": "All checks are solver-based (Kani/CBMC SAT or SMT over MIR). Exit 2 = inconclusive (unsupported construct, solver timeout, non-reproducing counterexample): neither pass nor alarm.",
    }
    json.dump(m, open(os.path.join(HERE, "MANIFEST.json"), "w"), indent=1)


if __name__ == "__main__":
    main()
