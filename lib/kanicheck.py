"""Turn Kani harness results into obligations, with concrete playback + native replay of failures."""
import json
import os
import re
import subprocess
import time

import kanirun
from common import CACHE, VERIF, Lock, env_offline, inject_hook, log, scratch_copy, write_replay

REPLAY_TARGET = os.path.join(CACHE, "replay-target")
CLOCKSHIM = os.path.join(CACHE, "libverifclock.so")


def ensure_clockshim():
    src = os.path.join(VERIF, "lib", "native", "clockshim.c")
    if not os.path.exists(CLOCKSHIM) or os.path.getmtime(CLOCKSHIM) < os.path.getmtime(src):
        os.makedirs(CACHE, exist_ok=True)
        subprocess.run(["clang", "-shared", "-fPIC", "-O1", "-o", CLOCKSHIM, src, "-ldl"], check=False)
    return CLOCKSHIM if os.path.exists(CLOCKSHIM) else None


def concrete_values(modname, harness, timeout_s=900):
    """Re-run one failing harness with concrete playback and parse the byte vectors."""
    res, logp, wall = kanirun.run_harnesses(
        modname, [harness], timeout_s, extra_args=["-Z", "concrete-playback", "--concrete-playback=print"], logname="kani-playback-" + harness
    )
    text = open(logp, errors="replace").read()
    # one unit test is printed per failed check AND per satisfied cover; keep the failed checks only
    cands = []
    for blk in text.split("Concrete playback unit test for")[1:]:
        km = re.search(r"Check for `([^`]*)`: \"(.*)\"", blk)
        kind = km.group(1) if km else "?"
        m = re.search(r"let concrete_vals: Vec<Vec<u8>> = vec!\[(.*?)\n\s*\];", blk, re.S)
        if not m or kind == "cover":
            continue
        vals = []
        for vm in re.finditer(r"vec!\[([0-9,\s]*)\]", m.group(1)):
            vals.append([int(x) for x in vm.group(1).replace(" ", "").split(",") if x != ""])
        cands.append({"check": km.group(2) if km else "?", "vals": vals})
    if not cands:
        return None, text[-2000:]
    return cands, ""


def _build_then_run(cmd, scratch, env, timeout_s):
    """build the test binary without the shim (so cargo/rustc are unaffected), then run it with LD_PRELOAD=clock shim"""
    i = cmd.index("--")
    build = cmd[:i] + ["--no-run"]
    b = subprocess.run(build, cwd=scratch, env=env, capture_output=True, text=True, timeout=timeout_s)
    if b.returncode != 0:
        return b
    env2 = dict(env)
    shim = ensure_clockshim()
    if shim:
        env2["LD_PRELOAD"] = shim
    return subprocess.run(cmd, cwd=scratch, env=env2, capture_output=True, text=True, timeout=timeout_s)


def native_driver(modname, driver, case, timeout_s=3600):
    """Run a native observation driver (`verif_replay_entry` of module verif_kani_<modname>) with a JSON case;
    returns (obs dict or None, transcript).  The driver prints one line `VERIF-OBS {json}`."""
    with Lock("replay"):
        scratch = scratch_copy("replay")
        for name, rel in kanirun.ATTACH.items():
            hf = os.path.join(VERIF, "kani", name + ".rs")
            if os.path.exists(hf) and os.path.exists(os.path.join(scratch, rel)):
                inject_hook(scratch, rel, f'#[cfg(any(kani, verif_replay))]\n#[path = "{hf}"]\npub(crate) mod verif_kani_{name};')
        env = env_offline({
            "RUSTFLAGS": "--cfg verif_replay -A warnings",
            "VERIF_REPLAY_HARNESS": driver,
            "VERIF_REPLAY_CASE": json.dumps(case),
        })
        cmd = ["cargo", "test", "--offline", "--lib", "--target-dir", REPLAY_TARGET, f"verif_kani_{modname}::verif_replay_entry", "--",
               "--nocapture", "--test-threads", "1"]
        try:
            p = _build_then_run(cmd, scratch, env, timeout_s)
        except subprocess.TimeoutExpired:
            return None, "native driver build/run timed out"
    transcript = (p.stdout[-4000:] + "\n" + p.stderr[-3000:])
    m = re.search(r"VERIF-OBS (\{.*\})\s*$", p.stdout, re.M)
    if not m:
        if "unknown driver" in p.stdout + p.stderr or "case json" in p.stdout + p.stderr:
            return None, transcript  # the replay harness itself failed, not the code under test
        if "panicked" in p.stdout + p.stderr and "running 1 test" in p.stdout:
            return {"panicked": True, "panic_text": (p.stdout + p.stderr)[-1500:]}, transcript
        return None, transcript
    try:
        return json.loads(m.group(1)), transcript
    except ValueError:
        return None, transcript


def native_replay(modname, harness, vals, tries=3, timeout_s=3600):
    """Run the harness body natively (cfg(verif_replay) unit test inside a scratch copy of the crate)
    with the solver's values.  Returns (reproduced: bool|None, transcript)."""
    venv = ";".join(",".join(str(b) for b in v) for v in vals)
    with Lock("replay"):
        scratch = scratch_copy("replay")
        for name, rel in kanirun.ATTACH.items():
            hf = os.path.join(VERIF, "kani", name + ".rs")
            if os.path.exists(hf) and os.path.exists(os.path.join(scratch, rel)):
                inject_hook(scratch, rel, f'#[cfg(any(kani, verif_replay))]\n#[path = "{hf}"]\npub(crate) mod verif_kani_{name};')
        env = env_offline({
            "RUSTFLAGS": "--cfg verif_replay -A warnings",
            "VERIF_REPLAY_HARNESS": harness,
            "VERIF_REPLAY_VALS": venv,
        })
        cmd = ["cargo", "test", "--offline", "--lib", "--target-dir", REPLAY_TARGET, f"verif_kani_{modname}::verif_replay_entry", "--",
               "--nocapture", "--test-threads", "1"]
        transcript = ""
        for i in range(tries):
            try:
                p = _build_then_run(cmd, scratch, env, timeout_s)
            except subprocess.TimeoutExpired:
                return None, "native replay build/run timed out"
            transcript = (p.stdout[-3000:] + "\n" + p.stderr[-3000:])
            if "VERIF-REPLAY-CHECK-FAILED" in p.stdout + p.stderr:
                return True, transcript
            if "running 1 test" not in p.stdout:
                return None, "replay test did not run: " + transcript[-1500:]
            if "VERIF-REPLAY-ASSUME-FAILED" in p.stdout + p.stderr:
                # clock moved between model and native run; retry
                continue
            if "test result: ok" in p.stdout:
                # passed natively: retry in case of a second-boundary race, then give up
                continue
            if "panicked" in p.stdout + p.stderr:
                # a panic inside the code under test is itself a native failure of the harness
                return True, transcript
        return False, transcript


def discharge(out, modname, harnesses, timeout_s, logname, prop_names=None, replay=True):
    """harnesses: {harness_name: description}.  Adds one obligation per harness to `out`."""
    res, logp, wall = kanirun.run_harnesses(modname, list(harnesses), timeout_s, logname=logname)
    reproduced_one = False
    for h, desc in harnesses.items():
        r = res[h]
        st = r["status"]
        detail = desc
        extra = {"harness": h, "kani_time_s": r.get("time_s", 0.0), "checks_total": r.get("checks_total"),
                 "covers": f"{r.get('covers_sat', 0)}/{r.get('covers_total', 0)}"}
        if st == "discharged":
            if r.get("covers_total", 0) and r.get("covers_sat", 0) < r["covers_total"]:
                st = "inconclusive"
                detail = f"vacuity guard: only {r['covers_sat']} of {r['covers_total']} cover goals reachable"
            else:
                out.vacuity.append(f"{h}: {r.get('covers_sat', 0)}/{r.get('covers_total', 0)} cover goals satisfied")
        elif st == "violated":
            detail = r["detail"]
            if replay and reproduced_one:
                st = "inconclusive"
                detail = "kani reports a failed check (not replayed: another harness of this run already reproduced natively): " + r["detail"]
            elif replay:
                cands, raw = concrete_values(modname, h)
                if cands is None:
                    st = "inconclusive"
                    detail = "kani reported failure but no concrete playback values: " + r["detail"]
                else:
                    ok, transcript, used = None, "", None
                    for c in cands[:4]:
                        ok, transcript = native_replay(modname, h, c["vals"])
                        used = c
                        if ok is True:
                            break
                    payload = {"property": out.pid, "engine": "kani", "module": modname, "harness": h, "failed_checks": r.get("failed_checks"),
                               "kani_check": used["check"], "concrete_vals": used["vals"], "native_transcript": transcript[-2000:]}
                    rp = write_replay(out.pid, h, payload)
                    extra["replay"] = rp
                    if ok is True:
                        st = "violated"
                        reproduced_one = True
                        m = re.search(r"VERIF-REPLAY-CHECK-FAILED (\S+)", transcript)
                        detail = f"reproduced natively ({m.group(1) if m else 'panic'}): " + r["detail"]
                    elif ok is False:
                        st = "inconclusive"
                        detail = "kani counterexample did not reproduce natively: " + r["detail"]
                    else:
                        st = "inconclusive"
                        detail = "native replay could not run: " + transcript[-300:]
        else:
            detail = r.get("detail", "") or desc
        out.add(h, st, detail, solver_s=r.get("time_s", 0.0), engine="kani/cbmc", extra=extra)
    return res, logp


def replay_file(path):
    """./check Cxx --replay <file> for kani-found counterexamples."""
    d = json.load(open(path))
    ok, transcript = native_replay(d["module"], d["harness"], d["concrete_vals"])
    print(transcript[-3000:])
    if ok:
        print(f"VIOLATION property={d['property']} replay={path}")
        return 1
    print("did not reproduce")
    return 0 if ok is False else 2
