#!/usr/bin/env python3
"""copy confirmed seeded changes from /tmp/seed-<id>/<i>/ into /verif/seeded/<id>-<i>/ with meta.json"""
import json, os, re, shutil, sys
ev = {}
import glob
for fn in sorted(glob.glob('/tmp/seed-eval*.out')):
    for l in open(fn):
        m = re.match(r"EVAL (\S+) rc=(\d+) wall=(\d+)s (\d+) violations; (.*)", l)
        if m:
            ev[m.group(1)] = {"check_exit": int(m.group(2)), "wall_s": int(m.group(3)), "violations": int(m.group(4)), "first_line": m.group(5).strip()[:300]}
conf = {}
if os.path.exists('/tmp/seed-confirm.out'):
    for l in open('/tmp/seed-confirm.out'):
        m = re.match(r"SEED (\S+)/(\d+) demo_clean_rc=(\d+) demo_patched_rc=(\d+) lib_tests_patched_rc=(\d+)", l)
        if m:
            conf[f"{m.group(1)}-{m.group(2)}"] = {"demo_without_change_exit": int(m.group(3)), "demo_with_change_exit": int(m.group(4)), "module_tests_with_change_exit": int(m.group(5))}
extra = json.load(open('/verif/seeded/extra_meta.json')) if os.path.exists('/verif/seeded/extra_meta.json') else {}
for key, c in sorted(conf.items()):
    pid, i = key.split('-')
    src = f"/tmp/seed-{pid}/{i}"
    if not (c["demo_without_change_exit"] == 0 and c["demo_with_change_exit"] != 0 and c["module_tests_with_change_exit"] == 0):
        print("NOT CONFIRMED", key, c); continue
    dst = f"/verif/seeded/{key}"
    os.makedirs(dst, exist_ok=True)
    for f in ("patch.diff", "demo.rs", "notes.md"):
        if os.path.exists(os.path.join(src, f)):
            shutil.copy(os.path.join(src, f), os.path.join(dst, f))
    notes = open(os.path.join(src, "notes.md")).read() if os.path.exists(os.path.join(src, "notes.md")) else ""
    meta = {"property": pid, "breaks": extra.get(key, {}).get("breaks", ""), "needs_to_manifest": extra.get(key, {}).get("needs", ""),
            "origin": "fresh sub-agent given only the property text and a scratch worktree",
            "confirmed_by_me": {"worktree": f"/tmp/wt-{pid} (scratch, removed afterwards)", "ran": "lib/seed_confirm.sh: demo as tests/verif_seed_demo.rs without and with the patch; cargo test --lib <module> with the patch", **c},
            "check_result": ev.get(key, {"note": "not evaluated yet"}),
            "detected": (ev.get(key, {}).get("check_exit") == 1)}
    json.dump(meta, open(os.path.join(dst, "meta.json"), "w"), indent=1)
    print("collected", key, "detected" if meta["detected"] else "NOT detected", ev.get(key, {}).get("check_exit"))
