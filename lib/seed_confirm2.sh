#!/bin/bash
# usage: seed_confirm2.sh <worktree> <seed-dir> <label> <lib-test-filter>
# confirms in the scratch worktree: demo passes without the change; patch applies + compiles; module tests pass with it; demo fails with it
wt=$1; sd=$2; label=$3; filt=$4
export CARGO_NET_OFFLINE=true
cd $wt || exit 9
git checkout -q -- . ; rm -f tests/verif_seed_demo.rs
out=$sd/confirm.log; : > $out
demo=$(ls $sd/demo*.rs 2>/dev/null | head -1)
[ -z "$demo" ] && { echo "SEED $label NO-DEMO-RS" | tee -a $out; exit 3; }
cp $demo tests/verif_seed_demo.rs
cargo test --offline -j 8 --test verif_seed_demo >> $out 2>&1; rc_clean=$?
git apply $sd/patch.diff >> $out 2>&1 || { echo "SEED $label PATCH-DOES-NOT-APPLY" | tee -a $out; git checkout -q -- .; rm -f tests/verif_seed_demo.rs; exit 4; }
cargo test --offline -j 8 --test verif_seed_demo >> $out 2>&1; rc_patched=$?
cargo test --offline -j 8 --lib $filt >> $out 2>&1; rc_lib=$?
git checkout -q -- . ; rm -f tests/verif_seed_demo.rs
echo "SEED $label demo_clean_rc=$rc_clean demo_patched_rc=$rc_patched lib_tests_patched_rc=$rc_lib" | tee -a $out
