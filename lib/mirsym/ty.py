"""Minimal parser for the type strings that appear in MIR dumps."""
import re

from mir import MirError, match_paren, split_top

INT_TYPES = {
    "u8": (8, False), "u16": (16, False), "u32": (32, False), "u64": (64, False), "u128": (128, False), "usize": (64, False),
    "i8": (8, True), "i16": (16, True), "i32": (32, True), "i64": (64, True), "i128": (128, True), "isize": (64, True),
    "char": (32, False),
}


class Ty:
    __slots__ = ("kind", "name", "args", "elem", "n", "mut", "raw")

    def __init__(self, kind, name=None, args=(), elem=None, n=None, mut=False, raw=""):
        self.kind = kind  # int | float | bool | ref | ptr | tuple | array | slice | adt | closure | str | never | fn | dyn | param | other
        self.name = name
        self.args = args
        self.elem = elem
        self.n = n
        self.mut = mut
        self.raw = raw

    def __repr__(self):
        return f"Ty({self.raw})"

    @property
    def base(self):
        """last path segment of an adt name"""
        return self.name.split("::")[-1] if self.name else None


_cache = {}


def parse_type(s):
    s = s.strip()
    t = _cache.get(s)
    if t is None:
        t = _parse(s)
        _cache[s] = t
    return t


def _strip_lifetimes(s):
    return re.sub(r"'[a-z_][a-z0-9_]*\s*", "", s)


def _parse(s):
    raw = s
    if s in INT_TYPES:
        return Ty("int", name=s, raw=raw)
    if s in ("f64", "f32"):
        return Ty("float", name=s, raw=raw)
    if s == "bool":
        return Ty("bool", raw=raw)
    if s == "str":
        return Ty("str", raw=raw)
    if s == "!":
        return Ty("never", raw=raw)
    if s.startswith("&"):
        m = re.match(r"&('[a-zA-Z_][a-zA-Z0-9_]*\s+)?(mut\s+)?", s)
        return Ty("ref", elem=parse_type(s[m.end():]), mut=bool(m.group(2)), raw=raw)
    if s.startswith("*const ") or s.startswith("*mut "):
        mut = s.startswith("*mut ")
        return Ty("ptr", elem=parse_type(s[5 + (0 if mut else 2):]), mut=mut, raw=raw)
    if s.startswith("("):
        end = match_paren(s, 0)
        if end == len(s) - 1:
            inner = s[1:-1].strip()
            parts = split_top(inner) if inner else []
            return Ty("tuple", args=tuple(parse_type(p) for p in parts), raw=raw)
    if s.startswith("["):
        end = match_paren(s, 0)
        if end == len(s) - 1:
            inner = s[1:-1]
            parts = split_top(inner, ";")
            if len(parts) == 2:
                n = parts[1].strip()
                try:
                    nn = int(n)
                except ValueError:
                    nn = n  # named const
                return Ty("array", elem=parse_type(parts[0]), n=nn, raw=raw)
            return Ty("slice", elem=parse_type(inner), raw=raw)
    if s.startswith("{closure@") or s.startswith("{coroutine") or s.startswith("{async"):
        return Ty("closure", name=s, raw=raw)
    if s.startswith("dyn ") or s.startswith("impl "):
        return Ty("dyn", name=s, raw=raw)
    if s.startswith(("fn(", "unsafe fn(", "extern ", "for<")):
        return Ty("fn", name=s, raw=raw)
    # path with optional generic args
    i = s.find("<")
    if s.startswith("<"):
        return Ty("other", name=s, raw=raw)
    if i < 0:
        return Ty("adt", name=s, raw=raw)
    # find matching > of the first <
    depth = 0
    j = i
    while j < len(s):
        c = s[j]
        if c == "<":
            depth += 1
        elif c == ">" and s[j - 1] not in "-=":
            depth -= 1
            if depth == 0:
                break
        j += 1
    name = s[:i]
    args = split_top(s[i + 1 : j])
    rest = s[j + 1:]
    targs = []
    for a in args:
        a = a.strip()
        if a.startswith("'"):
            continue
        try:
            targs.append(parse_type(a))
        except MirError:
            targs.append(Ty("other", name=a, raw=a))
    if rest.startswith("::"):
        # associated type path like Foo<T>::Bar
        return Ty("other", name=s, raw=raw)
    return Ty("adt", name=name.rstrip(":"), args=tuple(targs), raw=raw)
