"""Regenerate the crate's MIR from /repo's current working tree (cached by source-tree hash)."""
import glob
import os
import subprocess
import sys
import time

sys.path.insert(0, os.path.dirname(os.path.dirname(os.path.abspath(__file__))))
from common import CACHE, Lock, env_offline, log, repo_tree_hash, scratch_copy  # noqa: E402

MIR_DIR = os.path.join(CACHE, "mir")
MIR_TARGET = os.path.join(CACHE, "mir-target")


def ensure_mir():
    """-> (path, tree_hash, seconds spent, cached?)"""
    os.makedirs(MIR_DIR, exist_ok=True)
    h = repo_tree_hash()
    path = os.path.join(MIR_DIR, h + ".mir")
    if os.path.exists(path) and os.path.getsize(path) > 1_000_000:
        return path, h, 0.0, True
    t0 = time.time()
    with Lock("mir"):
        if os.path.exists(path) and os.path.getsize(path) > 1_000_000:
            return path, h, time.time() - t0, True
        scratch = scratch_copy("mir")
        # cargo only re-runs rustc when it thinks the crate changed; touching lib.rs forces the dump
        os.utime(os.path.join(scratch, "src", "lib.rs"), None)
        tmp = path + ".tmp"
        with open(tmp, "w") as out, open(os.path.join(MIR_DIR, "build.log"), "w") as err:
            p = subprocess.run(
                ["cargo", "+nightly", "rustc", "--offline", "--lib", "--target-dir", MIR_TARGET, "--", "-Zunpretty=mir", "-C",
                 "debug-assertions=off", "-C", "overflow-checks=on"],
                cwd=scratch, env=env_offline(), stdout=out, stderr=err)
        if p.returncode != 0 or os.path.getsize(tmp) < 1_000_000:
            tail = open(os.path.join(MIR_DIR, "build.log"), errors="replace").read()[-1500:]
            raise RuntimeError("MIR dump failed (does /repo compile?):\n" + tail)
        os.replace(tmp, path)
        # keep the three most recent dumps
        dumps = sorted(glob.glob(os.path.join(MIR_DIR, "*.mir")), key=os.path.getmtime)
        for old in dumps[:-3]:
            os.remove(old)
    return path, h, time.time() - t0, False


if __name__ == "__main__":
    print(ensure_mir())
