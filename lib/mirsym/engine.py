"""Bounded, state-merging symbolic executor over rustc MIR (see DESIGN.md 1.1).

One `Engine` per check run.  `call(fn_name, args, state)` executes the real MIR body of a crate function
symbolically and returns the merged exit state and return value.  Library calls are resolved against the
summaries catalogue (summaries.py); anything unknown raises SymError => the check is inconclusive.
"""
import heapq
import itertools
import os
import re
import sys

import z3

import mir
import rustsrc
from mir import MirError
from ty import INT_TYPES, Ty, parse_type
from values import (UNIT, EnumInfo, SymError, VArr, VClosure, VCoroutine, VEnum, VFn, VIter, VMap, VOpaque, VPoison, VRef, VSeq, VStr, VStruct, as_int,
                    bv, is_z3, merge, simp, vmap)

sys.setrecursionlimit(20000)

RNE = z3.RNE()
F64 = z3.Float64()
F32 = z3.Float32()


class State:
    __slots__ = ("mem", "pc", "clock")

    def __init__(self, mem=None, pc=None, clock=None):
        self.mem = mem if mem is not None else {}
        self.pc = pc if pc is not None else z3.BoolVal(True)
        self.clock = clock  # last clock reading on this path (engine-specific value) or None

    def fork(self, cond=None):
        pc = self.pc if cond is None else simp(z3.And(self.pc, cond))
        return State(dict(self.mem), pc, self.clock)


def merge_states(states):
    if len(states) == 1:
        return states[0]
    acc = states[0]
    for s in states[1:]:
        g = acc.pc
        mem = {}
        for root, va in acc.mem.items():
            if root in s.mem:
                vb = s.mem[root]
                mem[root] = va if va is vb else merge(g, va, vb)
            else:
                mem[root] = va
        for root, vb in s.mem.items():
            if root not in acc.mem:
                mem[root] = vb
        clock = acc.clock
        if acc.clock is not s.clock:
            clock = merge(g, acc.clock, s.clock) if (acc.clock is not None and s.clock is not None) else (acc.clock or s.clock)
        acc = State(mem, simp(z3.Or(acc.pc, s.pc)), clock)
    return acc


class CfgInfo:
    def __init__(self, body):
        self.pos = {}
        self.chain = {}
        succ = {}
        for name in body.order:
            blk = body.blocks[name]
            if blk.cleanup:
                continue
            pb = mir.parsed_block(body, name)
            succ[name] = [t for t in _term_targets(pb.term) if t and not body.blocks[t].cleanup]
        self.succ = succ
        order = _wto(succ, body.order[0])
        self._flatten(order, ())

    def _flatten(self, part, chain):
        for item in part:
            if isinstance(item, tuple):
                head, sub = item
                self.pos[head] = len(self.pos)
                self.chain[head] = chain + (head,)
                self._flatten(sub, chain + (head,))
            else:
                self.pos[item] = len(self.pos)
                self.chain[item] = chain


def _term_targets(t):
    k = t.kind
    if k == "goto":
        return [t.a["target"]]
    if k == "switch":
        return [x for _, x in t.a["targets"]] + ([t.a["otherwise"]] if t.a["otherwise"] else [])
    if k in ("drop", "assert", "call"):
        return [t.a.get("target")]
    return []


def _wto(succ, entry):
    dfn = {}
    num = [0]
    stack = []
    INF = 1 << 60

    def visit(v, partition):
        stack.append(v)
        num[0] += 1
        dfn[v] = num[0]
        head = dfn[v]
        loop = False
        for s in succ.get(v, []):
            if dfn.get(s, 0) == 0:
                mn = visit(s, partition)
            else:
                mn = dfn[s]
            if mn <= head:
                head = mn
                loop = True
        if head == dfn[v]:
            dfn[v] = INF
            e = stack.pop()
            if loop:
                while e != v:
                    dfn[e] = 0
                    e = stack.pop()
                partition.insert(0, component(v))
            else:
                partition.insert(0, v)
        return head

    def component(v):
        part = []
        for s in succ.get(v, []):
            if dfn.get(s, 0) == 0:
                visit(s, part)
        return (v, part)

    partition = []
    visit(entry, partition)
    return partition


class Engine:
    def __init__(self, crate, repo, unwind=8):
        self.crate = crate
        self.repo = repo
        self.adts = rustsrc.load(repo)
        self.unwind = unwind
        self.unwind_overrides = {}  # fn-name substring -> bound
        self.obligations = []  # dict(name, formula, kind)
        self.assumptions = []
        self._fresh = itertools.count()
        self._frame = itertools.count()
        self._heap = itertools.count()
        self._cfg = {}
        self._impl_cache = {}
        self._closure_index = None
        self._const_cache = {}
        self.executed = {}  # fn name -> text hash
        self.summaries_used = {}
        self.summaries = []  # (regex, handler)
        self.depth = 0
        self.max_depth = 40
        self.trace = False
        self.sym_inputs = {}  # name -> z3 const (for model extraction)
        import summaries

        summaries.install(self)

    # ------------------------------------------------------------------ fresh symbols
    def fresh(self, prefix, sort):
        n = next(self._fresh)
        c = z3.Const(f"{prefix}!{n}", sort)
        return c

    def fresh_bv(self, prefix, width):
        return self.fresh(prefix, z3.BitVecSort(width))

    def new_root(self, tag="H"):
        return (tag, next(self._heap))

    def assume(self, f):
        self.assumptions.append(f)

    def oblige(self, st, name, bad_cond, kind="panic"):
        """record: 'pc && bad_cond' must be unsatisfiable"""
        f = simp(z3.And(st.pc, bad_cond))
        if z3.is_false(f):
            return
        self.obligations.append({"name": name, "formula": f, "kind": kind})

    # ------------------------------------------------------------------ enum / struct metadata
    def enum_info(self, tyname):
        base = tyname.split("::")[-1]
        base = re.sub(r"<.*$", "", base)
        if base == "Level" and tyname.startswith("log::"):
            return EnumInfo("log::Level", ["Error", "Warn", "Info", "Debug", "Trace"], [1, 2, 3, 4, 5])
        if base in rustsrc.BUILTIN_ENUMS:
            if base == "Level" and "log" in tyname:
                return EnumInfo("log::Level", ["Error", "Warn", "Info", "Debug", "Trace"], [1, 2, 3, 4, 5])
            if base == "Ordering" and "atomic" in tyname:
                return EnumInfo("AtomicOrdering", ["Relaxed", "Release", "Acquire", "AcqRel", "SeqCst"])
            if base == "Ordering":
                return EnumInfo("Ordering", rustsrc.BUILTIN_ENUMS[base], [-1, 0, 1])
            return EnumInfo(base, rustsrc.BUILTIN_ENUMS[base])
        cands = [a for a in self.adts.get(base, []) if a.kind == "enum"]
        if not cands:
            raise SymError(f"unknown enum type {tyname}")
        a = self._pick_adt(cands, tyname)
        discrs = []
        nxt = 0
        for (vn, vf, d) in a.variants:
            if d is not None:
                nxt = d
            discrs.append(nxt)
            nxt += 1
        return EnumInfo(a.name, [v[0] for v in a.variants], discrs)

    def _pick_adt(self, cands, tyname):
        if len(cands) == 1:
            return cands[0]
        prefix = tyname.split("::")[:-1]
        best = [a for a in cands if prefix and a.module.split("::")[-len(prefix):] == prefix]
        if len(best) == 1:
            return best[0]
        if best:
            return best[0]
        raise SymError(f"ambiguous type {tyname}: {cands}")

    def struct_adt(self, tyname):
        base = re.sub(r"<.*$", "", tyname.split("::")[-1])
        cands = [a for a in self.adts.get(base, []) if a.kind == "struct"]
        if not cands:
            raise SymError(f"unknown struct type {tyname}")
        return self._pick_adt(cands, re.sub(r"<.*$", "", tyname))

    def is_enum_type(self, ty):
        if ty.kind != "adt":
            return False
        base = ty.base
        if base in rustsrc.BUILTIN_ENUMS:
            return True
        if base == "Level" and ty.name.startswith("log::"):
            return True
        c = self.adts.get(base, [])
        return bool(c) and all(a.kind == "enum" for a in c)

    # ------------------------------------------------------------------ function lookup
    def impl_info(self, name):
        """for 'mod::<impl at src/x.rs:L:C: L:C>::method' return (trait, type) parsed from the source line"""
        m = re.search(r"<impl at ([^:>]+):(\d+):(\d+): (\d+):(\d+)>", name)
        if not m:
            return None
        key = (m.group(1), int(m.group(2)), int(m.group(3)))
        if key in self._impl_cache:
            return self._impl_cache[key]
        res = (None, None)
        path = os.path.join(self.repo, m.group(1))
        try:
            lines = open(path, errors="replace").read().split("\n")
            txt = lines[key[1] - 1][key[2] - 1:]
            # derive attributes: `#[derive(Debug, Clone)]` -> the impl is for the item following the attribute
            if not txt.startswith("impl"):
                # derived impl: span points at the trait name inside #[derive(...)]
                tm = re.match(r"([A-Za-z_][A-Za-z0-9_]*)", txt)
                trait = tm.group(1) if tm else None
                tyname = None
                for l in lines[key[1] - 1 : key[1] + 40]:
                    mm = re.search(r"\b(?:struct|enum|union)\s+([A-Za-z_][A-Za-z0-9_]*)", l)
                    if mm:
                        tyname = mm.group(1)
                        break
                res = (trait, tyname)
            else:
                hdr = " ".join(lines[key[1] - 1 : key[1] + 6])
                hdr = hdr[key[2] - 1:]
                hdr = hdr.split("{")[0]
                hdr = re.sub(r"^impl\s*", "", hdr)
                if hdr.startswith("<"):
                    d = 0
                    for i, c in enumerate(hdr):
                        if c == "<":
                            d += 1
                        elif c == ">" and hdr[i - 1] not in "-=":
                            d -= 1
                            if d == 0:
                                hdr = hdr[i + 1:]
                                break
                hdr = hdr.split(" where ")[0].strip()
                if " for " in hdr:
                    tr, tyn = hdr.split(" for ", 1)
                else:
                    tr, tyn = None, hdr
                strip = lambda x: re.sub(r"<.*$", "", x.strip()).split("::")[-1].strip("&' ") if x else None
                res = (strip(tr), strip(tyn))
        except OSError:
            pass
        self._impl_cache[key] = res
        return res

    def resolve_fn(self, callee):
        """callee text at a call site -> item name in the crate index, or None"""
        c = callee.strip()
        trait = None
        tyname = None
        m = re.match(r"^<(.+) as ([^>]+?)>::([A-Za-z_][A-Za-z0-9_]*)(::<.*>)?$", c)
        tyqual = []
        if m:
            tyfull = re.sub(r"<.*$", "", m.group(1).strip().lstrip("&").replace("mut ", ""))
            tyqual = tyfull.split("::")[:-1]
            tyname = re.sub(r"<.*$", "", m.group(1).strip().lstrip("&").replace("mut ", "")).split("::")[-1]
            trait = re.sub(r"<.*$", "", m.group(2)).split("::")[-1]
            method = m.group(3)
            modprefix = []
        else:
            segs = _split_path(c)
            if not segs:
                return None
            method = segs[-1]
            if len(segs) >= 2:
                tyname = segs[-2]
            modprefix = segs[:-2]
        cands = self.crate.by_method.get(method, [])
        if not cands:
            return None
        exact = [n for n in cands if n == c or n == re.sub(r"::<[^:]*>", "", c)]
        if len(exact) == 1 and "<impl at" not in exact[0]:
            return exact[0]
        out = []
        for n in cands:
            if "{closure" in n.split("::")[-1]:
                continue
            ii = self.impl_info(n)
            if ii is None:
                # free function: name must match by suffix
                nsegs = _split_path(n)
                csegs = _split_path(c)
                if nsegs[-len(csegs):] == csegs or csegs[-len(nsegs):] == nsegs:
                    out.append(n)
                continue
            tr, tn = ii
            if tyname is not None and tn != tyname:
                continue
            if trait is not None and tr != trait:
                continue
            if trait is None and tr is not None and m is None:
                # inherent-looking call `Type::method` can also be a trait method (e.g. Type::default())
                pass
            out.append(n)
        if len(out) > 1 and tyname is not None:
            typed = [n for n in out if self.impl_info(n) is not None]
            if typed:
                out = typed
        if len(out) > 1 and (tyqual or modprefix):
            q = (tyqual or modprefix)[-1]
            byfile = [n for n in out if re.search(r"<impl at [^>]*\b" + re.escape(q) + r"(/mod)?\.rs:", n)]
            if byfile:
                out = byfile
        if len(out) == 1:
            return out[0]
        if len(out) > 1:
            # prefer inherent impls, then module prefix match
            inh = [n for n in out if (self.impl_info(n) or (None, None))[0] is None]
            if len(inh) == 1:
                return inh[0]
            pref = [n for n in out if modprefix and n.split("::")[0] == modprefix[-1]]
            if len(pref) == 1:
                return pref[0]
            raise SymError(f"ambiguous callee {callee}: {out[:4]}")
        return None

    def closure_fn(self, closure_name):
        if self._closure_index is None:
            idx = {}
            for name, lst in self.crate.items.items():
                if "{closure#" not in name:
                    continue
                for (kind, i, j) in lst:
                    if kind != "fn":
                        continue
                    hdr = self.crate.lines[i]
                    mm = re.search(r"\(_1: (?:&(?:mut )?)?(\{closure@[^}]*\})", hdr)
                    if mm:
                        idx.setdefault(mm.group(1), name)
            self._closure_index = idx
        n = self._closure_index.get(closure_name)
        if n is None:
            raise SymError("no MIR body for closure " + closure_name)
        return n

    # ------------------------------------------------------------------ memory
    def read_path(self, v, path):
        if not path:
            return v
        p = path[0]
        rest = path[1:]
        if isinstance(v, VPoison):
            raise SymError("read through poisoned value: " + v.why)
        if v is None:
            raise SymError("read of uninitialised memory")
        if isinstance(p, int):
            if isinstance(v, (VStruct,)):
                if p >= len(v.f):
                    raise SymError(f"field {p} out of range in {v!r}")
                return self.read_path(v.f[p], rest)
            if isinstance(v, VClosure):
                return self.read_path(v.caps[p], rest)
            if isinstance(v, VCoroutine):
                return self.read_path(v.caps[p], rest)
            if isinstance(v, VEnum) and len(v.pay) == 1:
                # single-variant view (e.g. after downcast elided)
                return self.read_path(list(v.pay.values())[0][p], rest)
            raise SymError(f"field projection .{p} on {type(v).__name__}: {v!r}")
        tag = p[0]
        if tag == "v" and isinstance(v, VCoroutine):
            saved = v.variants.get(p[1])
            if saved is None:
                raise SymError(f"read of coroutine state {p[1]} before it was written")
            if not rest:
                return VStruct(saved)
            if not isinstance(rest[0], int) or rest[0] >= len(saved) or saved[rest[0]] is None:
                raise SymError(f"read of unwritten coroutine slot {p[1]}.{rest[0]}")
            return self.read_path(saved[rest[0]], rest[1:])
        if tag == "v":
            if not isinstance(v, VEnum):
                raise SymError(f"downcast on non-enum {v!r}")
            pay = v.pay.get(p[1])
            if pay is None:
                raise SymError(f"downcast to variant {p[1]} without payload in {v!r}")
            return self.read_path(VStruct(pay), rest)
        if tag == "i":
            if isinstance(v, (VSeq, VArr)):
                if p[1] >= len(v.elems):
                    raise SymError(f"index {p[1]} beyond modelled capacity {len(v.elems)}")
                return self.read_path(v.elems[p[1]], rest)
            raise SymError(f"index on {type(v).__name__}")
        if tag == "si":
            if isinstance(v, (VSeq, VArr)):
                if not v.elems:
                    raise SymError("symbolic index into empty sequence")
                idx = p[1]
                res = self.read_path(v.elems[-1], rest)
                for j in range(len(v.elems) - 2, -1, -1):
                    res = merge(idx == bv(j, idx.size()), self.read_path(v.elems[j], rest), res)
                return res
            raise SymError(f"index on {type(v).__name__}")
        if tag == "k":
            if not isinstance(v, VMap):
                raise SymError("map key projection on non-map")
            k = p[1]
            return self.read_path(vmap(v.val, lambda a: z3.Select(a, k)), rest)
        if tag == "rng":
            a, b = p[1], p[2]
            if isinstance(v, (VSeq, VArr)):
                if b is None:
                    b = len(v.elems)
                if rest and isinstance(rest[0], tuple) and rest[0][0] == "i":
                    return self.read_path(v.elems[a + rest[0][1]], rest[1:])
                ln = bv(b - a, 64) if isinstance(v, VArr) else simp(z3.If(z3.ULT(v.len, bv(b, 64)), v.len, bv(b, 64)) - bv(a, 64))
                return self.read_path(VSeq(v.elems[a:b], ln), rest)
            raise SymError("range projection on " + type(v).__name__)
        if tag == "sub":
            # subslice view [a..len-b]
            if isinstance(v, (VSeq, VArr)):
                a, b = p[1], p[2]
                elems = v.elems[a : len(v.elems) - b if b else None]
                ln = (v.len - bv(a + b, 64)) if isinstance(v, VSeq) else bv(len(elems), 64)
                return self.read_path(VSeq(elems, ln), rest)
        raise SymError(f"unsupported path element {p!r}")

    def write_path(self, v, path, new):
        if not path:
            return new
        p = path[0]
        rest = path[1:]
        if isinstance(v, VPoison):
            raise SymError("write through poisoned value: " + v.why)
        if isinstance(p, int):
            if isinstance(v, VStruct):
                f = list(v.f)
                f[p] = self.write_path(f[p], rest, new)
                return VStruct(f, v.ty)
            if isinstance(v, VClosure):
                f = list(v.caps)
                f[p] = self.write_path(f[p], rest, new)
                return VClosure(v.name, f)
            if isinstance(v, VCoroutine):
                f = list(v.caps)
                f[p] = self.write_path(f[p], rest, new)
                return VCoroutine(v.name, v.creator, f, v.idx, v.variants)
            if v is None:
                raise SymError("field write into uninitialised aggregate (deaggregated init not supported)")
            raise SymError(f"field write .{p} on {type(v).__name__}")
        tag = p[0]
        if tag == "v" and isinstance(v, VCoroutine):
            if not rest or not isinstance(rest[0], int):
                raise SymError("whole-state write into a coroutine")
            saved = list(v.variants.get(p[1], ()))
            while len(saved) <= rest[0]:
                saved.append(None)
            saved[rest[0]] = self.write_path(saved[rest[0]], rest[1:], new) if rest[1:] else new
            vs = dict(v.variants)
            vs[p[1]] = tuple(saved)
            return VCoroutine(v.name, v.creator, v.caps, v.idx, vs)
        if tag == "v":
            if not isinstance(v, VEnum):
                raise SymError("downcast write on non-enum")
            pay = dict(v.pay)
            cur = pay.get(p[1])
            if cur is None:
                raise SymError("write into absent enum payload")
            pay[p[1]] = self.write_path(VStruct(cur), rest, new).f
            return VEnum(v.info, v.idx, pay)
        if tag == "i":
            if isinstance(v, VSeq):
                e = list(v.elems)
                e[p[1]] = self.write_path(e[p[1]], rest, new)
                return VSeq(e, v.len)
            if isinstance(v, VArr):
                e = list(v.elems)
                e[p[1]] = self.write_path(e[p[1]], rest, new)
                return VArr(e)
        if tag == "si":
            if isinstance(v, (VSeq, VArr)):
                idx = p[1]
                e = []
                for j, old in enumerate(v.elems):
                    e.append(merge(idx == bv(j, idx.size()), self.write_path(old, rest, new), old))
                return VSeq(e, v.len) if isinstance(v, VSeq) else VArr(e)
        if tag == "rng":
            a, b = p[1], p[2]
            if isinstance(v, (VSeq, VArr)):
                if b is None:
                    b = len(v.elems)
                e = list(v.elems)
                if rest and isinstance(rest[0], tuple) and rest[0][0] == "i":
                    j = a + rest[0][1]
                    e[j] = self.write_path(e[j], rest[1:], new)
                elif not rest:
                    if not isinstance(new, (VSeq, VArr)) or len(new.elems) != b - a:
                        raise SymError("range write with mismatching length")
                    e[a:b] = list(new.elems)
                else:
                    raise SymError("unsupported write below a range projection")
                return VSeq(e, v.len) if isinstance(v, VSeq) else VArr(e)
        if tag == "k":
            if isinstance(v, VMap):
                k = p[1]
                cur = vmap(v.val, lambda a: z3.Select(a, k))
                upd = self.write_path(cur, rest, new)
                newval = _zip_store(v.val, upd, k)
                return VMap(v.ksort, v.present, newval, v.count, v.cap, v.enum)
        raise SymError(f"unsupported write path element {p!r} on {type(v).__name__}")

    def load(self, st, ref):
        if isinstance(ref, VPoison):
            raise SymError("deref of poisoned reference: " + ref.why)
        if not isinstance(ref, VRef):
            raise SymError(f"deref of non-reference {ref!r}")
        if ref.root not in st.mem:
            cm = getattr(self, "_const_mem", {})
            if ref.root in cm:
                return self.read_path(cm[ref.root], ref.path)
            raise SymError(f"dangling reference {ref!r}")
        return self.read_path(st.mem[ref.root], ref.path)

    def store(self, st, ref, val):
        if not isinstance(ref, VRef):
            raise SymError(f"store through non-reference {ref!r}")
        st.mem[ref.root] = self.write_path(st.mem.get(ref.root), ref.path, val)

    def alloc(self, st, val, tag="H"):
        r = self.new_root(tag)
        st.mem[r] = val
        return VRef(r, (), True)

    # ------------------------------------------------------------------ places / operands
    def place_type(self, body, place):
        t = parse_type(body.locals[place.local])
        for pr in place.proj:
            k = pr[0]
            if k == "deref":
                if t.kind in ("ref", "ptr"):
                    t = t.elem
                elif t.kind == "adt" and t.base == "Box" and t.args:
                    t = t.args[0]
                else:
                    t = Ty("other", raw="?")
            elif k == "field":
                t = parse_type(pr[2])
            elif k in ("index", "constindex"):
                t = t.elem if t.kind in ("array", "slice") and t.elem else Ty("other", raw="?")
            elif k == "downcast":
                pass
            elif k == "subslice":
                pass
        return t

    def resolve(self, st, frame, body, place):
        """-> VRef pointing at the place"""
        root = ("L", frame, place.local)
        path = ()
        tcur = None
        for n, pr in enumerate(place.proj):
            k = pr[0]
            if k == "deref":
                cur = self.read_path(st.mem.get(root), path) if root in st.mem else None
                if cur is None:
                    raise SymError(f"deref of uninitialised _{place.local} in {body.name}")
                if isinstance(cur, VPoison):
                    raise SymError("deref of poisoned value: " + cur.why)
                if not isinstance(cur, VRef):
                    raise SymError(f"deref of non-reference value {cur!r} in {body.name}")
                root, path = cur.root, cur.path
            elif k == "field":
                path = path + (pr[1],)
            elif k == "downcast":
                # need the enum's variant index: look at the value if present, else the declared type
                cur = self.read_path(st.mem.get(root), path) if root in st.mem else None
                name = pr[1]
                if isinstance(cur, VCoroutine) or name.startswith("variant#"):
                    vi = int(name[len("variant#"):])
                elif isinstance(cur, VEnum):
                    vi = cur.info.index(name)
                else:
                    pt = self.place_type(body, mir.Place(place.local, place.proj[:n]))
                    vi = self.enum_info(pt.name).index(name)
                path = path + (("v", vi),)
            elif k == "index":
                iv = st.mem.get(("L", frame, pr[1]))
                ci = as_int(iv)
                if ci is not None:
                    path = path + (("i", ci),)
                else:
                    path = path + (("si", iv),)
            elif k == "constindex":
                if pr[3]:
                    raise SymError("from-end constant index")
                path = path + (("i", pr[1]),)
            elif k == "subslice":
                if pr[3]:
                    path = path + (("sub", pr[1], pr[2]),)
                else:
                    raise SymError("subslice [a..b] projection")
        return VRef(root, path, True)

    def read_place(self, st, frame, body, place):
        if not place.proj:
            root = ("L", frame, place.local)
            if root not in st.mem:
                raise SymError(f"read of uninitialised local _{place.local} in {body.name}")
            v = st.mem[root]
            if isinstance(v, VPoison):
                raise SymError(f"read of poisoned local _{place.local} in {body.name}: {v.why}")
            return v
        ref = self.resolve(st, frame, body, place)
        v = self.load(st, ref)
        if isinstance(v, VPoison):
            raise SymError(f"read of poisoned place {place} in {body.name}: {v.why}")
        if v is None:
            raise SymError(f"read of uninitialised place {place} in {body.name}")
        return v

    def write_place(self, st, frame, body, place, val):
        if not place.proj:
            st.mem[("L", frame, place.local)] = val
            return
        # deaggregated initialisation of a fresh local:  (_5.0: T) = ..  when _5 is not yet initialised
        root = ("L", frame, place.local)
        if root not in st.mem and place.proj[0][0] == "field":
            st.mem[root] = self.blank(parse_type(body.locals[place.local]))
        ref = self.resolve(st, frame, body, place)
        self.store(st, ref, val)

    def blank(self, t):
        """uninitialised aggregate skeleton for field-by-field initialisation"""
        if t.kind == "tuple":
            return VStruct([None] * len(t.args))
        if t.kind == "adt":
            try:
                a = self.struct_adt(t.name)
                return VStruct([None] * len(a.fields), a.name)
            except SymError:
                pass
        raise SymError(f"cannot build blank value of type {t.raw}")

    def operand(self, st, frame, body, op):
        if op.kind in ("copy", "move"):
            return self.read_place(st, frame, body, op.place)
        if op.kind == "fnitem":
            return VFn(op.const)
        return self.const(op.const, body)

    def operand_type(self, body, op):
        if op.kind in ("copy", "move"):
            return self.place_type(body, op.place)
        if op.kind == "fnitem":
            return Ty("fn", name=op.const, raw=op.const)
        return self.const_type(op.const)

    # ------------------------------------------------------------------ constants
    def const_type(self, c):
        m = re.match(r"^-?\d+_([iu](?:8|16|32|64|128|size))$", c)
        if m:
            return parse_type(m.group(1))
        if re.match(r"^-?[0-9.]+(?:[eE][-+]?\d+)?f64$", c) or c in ("f64::NAN", "f64::INFINITY", "f64::EPSILON", "f64::MAX", "f64::MIN"):
            return parse_type("f64")
        if re.match(r"^-?[0-9.]+(?:[eE][-+]?\d+)?f32$", c):
            return parse_type("f32")
        if c in ("true", "false"):
            return parse_type("bool")
        if c.startswith('"'):
            return parse_type("&str")
        if c.startswith("'"):
            return parse_type("char")
        m = re.match(r"^ZeroSized: (.*)$", c)
        if m:
            return parse_type(m.group(1))
        if c == "()":
            return parse_type("()")
        return Ty("other", raw=c)

    def const(self, c, body=None):
        m = re.match(r"^(-?\d+)_([iu](?:8|16|32|64|128|size))$", c)
        if m:
            w, _ = INT_TYPES[m.group(2)]
            return bv(int(m.group(1)), w)
        m = re.match(r"^(-?[0-9.]+(?:[eE][-+]?\d+)?)f64$", c)
        if m:
            return z3.FPVal(float(m.group(1)), F64)
        m = re.match(r"^(-?[0-9.]+(?:[eE][-+]?\d+)?)f32$", c)
        if m:
            return z3.FPVal(float(m.group(1)), F32)
        if c == "true":
            return z3.BoolVal(True)
        if c == "false":
            return z3.BoolVal(False)
        if c == "()":
            return UNIT
        if c.startswith('"'):
            lit = c[1 : c.rindex('"')]
            return self.str_lit(lit)
        if c.startswith('b"'):
            return VOpaque("byte string literal")
        if c.startswith("'"):
            ch = c[1:-1]
            if len(ch) == 1:
                return bv(ord(ch), 32)
            raise SymError("char constant " + c)
        m = re.match(r"^ZeroSized: (.*)$", c)
        if m:
            t = parse_type(m.group(1))
            if t.kind == "closure":
                return VClosure(t.name, ())
            if t.kind == "fn" or t.kind == "other":
                return VFn(m.group(1))
            return UNIT if t.kind != "adt" else VStruct((), t.name)
        if c in self._const_cache:
            return self._const_cache[c]
        try:
            v = self._named_const(c, body)
        except SymError as e:
            if re.match(r"^<?(tracing|tracing_core|log)::", c) or "__CALLSITE" in c or "tracing::" in str(e) or "tracing_core::" in str(e):
                v = VOpaque("tracing constant " + c[:60])  # logging metadata never influences a verdict (a branch on it is an error)
            else:
                raise
        self._const_cache[c] = v
        return v

    def str_lit(self, lit):
        # literals get stable distinct ids (hash of the text, tagged in the top byte)
        import hashlib

        raw = lit.encode("utf-8", "replace")
        if len(raw) <= 4 and all(0x21 <= c <= 0x7E for c in raw):
            # same canonical identity as Src.short_string so that short literals compare correctly with byte-level strings
            padded = list(raw) + [0] * (4 - len(raw))
            ident = (len(raw) << 32) | (padded[0] << 24) | (padded[1] << 16) | (padded[2] << 8) | padded[3]
            from values import VSeq as _VSeq
            return VStr(bv(ident, 64), lit, _VSeq([bv(c, 8) for c in padded], bv(len(raw), 64)))
        h = int.from_bytes(hashlib.sha256(lit.encode()).digest()[:7], "big") | (0xFE << 56)
        return VStr(bv(h, 64), lit)

    def _named_const(self, c, body):
        from summaries import STD_CONSTS

        key = re.sub(r"::<[^>]*>", "", c)
        if key in STD_CONSTS:
            return STD_CONSTS[key](self)
        # constant unit variant of an enum:  path::Enum::<T>::Variant
        segs0 = _split_path(c)
        if len(segs0) >= 2:
            ename, vname = segs0[-2], segs0[-1]
            try:
                if ename in rustsrc.BUILTIN_ENUMS or any(a.kind == "enum" for a in self.adts.get(ename, [])):
                    info = self.enum_info("::".join(segs0[:-1]))
                    if vname in info.variants:
                        vi = info.index(vname)
                        return VEnum(info, bv(vi, 8), {vi: ()})
            except SymError:
                pass
        # crate-level const / promoted
        name = key
        cands = []
        if name in self.crate.items:
            cands = [name]
        else:
            segs = _split_path(name)
            last = segs[-1] if segs else name
            for n in self.crate.by_method.get(last, []) + [k for k in self.crate.items if k.endswith("::" + last) or k == last]:
                ns = _split_path(n)
                # suffix match ignoring impl blocks
                ns2 = [s for s in ns if not s.startswith("<impl")]
                cs2 = [s for s in segs if not s.startswith("<impl")]
                if ns2[-len(cs2):] == cs2 or cs2[-len(ns2):] == ns2:
                    if n not in cands:
                        cands.append(n)
        if "promoted[" in c and body is not None:
            m = re.search(r"promoted\[(\d+)\]$", c)
            want = f"{body.name}::promoted[{m.group(1)}]"
            if want in self.crate.items:
                cands = [want]
            else:
                # closures: body.name already has ::{closure#n}
                cands = [n for n in self.crate.items if n.endswith(f"promoted[{m.group(1)}]") and n.startswith(body.name.split("::{closure")[0])]
                cands = [n for n in cands if n == want] or cands
        if not cands:
            raise SymError("unknown constant " + c)
        if len(cands) > 1:
            ex = [n for n in cands if n == name]
            if len(ex) == 1:
                cands = ex
            else:
                raise SymError(f"ambiguous constant {c}: {cands[:4]}")
        b = self.crate.body(cands[0])
        if b.const_value is not None:
            txt = b.const_value.strip()
            if txt.startswith("const "):
                return self.const(txt[6:].strip(), body)
            raise SymError("constant initialiser " + txt)
        st = State()
        res = self.run_body(b, [], st)
        if res is None:
            raise SymError("constant body diverges: " + c)
        st2, v = res
        # promoted constants are references to the value
        if isinstance(v, VRef):
            val = self.load(st2, v)
            self._const_mem = getattr(self, "_const_mem", {})
            r = self.new_root("C")
            self._const_mem[r] = val
            return VRef(r, (), False)
        return v

    # ------------------------------------------------------------------ rvalues
    def int_info(self, t):
        if t.kind == "int":
            return INT_TYPES[t.name]
        if t.kind == "bool":
            return (1, False)
        return None

    def rvalue(self, st, frame, body, rv, dest_ty):
        k = rv.kind
        a = rv.a
        if k == "use":
            return self.operand(st, frame, body, a["op"])
        if k == "ref":
            if a["raw"]:
                pass
            pl = a["place"]
            if len(pl.proj) == 1 and pl.proj[0][0] == "deref":
                # reborrow `&*x` of a literal that is modelled by value (string / byte-string constants)
                cur = st.mem.get(("L", frame, pl.local))
                if isinstance(cur, VStr) or (isinstance(cur, VOpaque) and "literal" in str(cur.tag)):
                    return cur
            return self.resolve(st, frame, body, pl)
        if k == "binop":
            l = self.operand(st, frame, body, a["l"])
            r = self.operand(st, frame, body, a["r"])
            lt = self.operand_type(body, a["l"])
            return self.binop(st, a["op"], l, r, lt, dest_ty)
        if k == "unop":
            x = self.operand(st, frame, body, a["x"])
            op = a["op"]
            if op == "Not":
                if z3.is_bool(x):
                    return simp(z3.Not(x))
                return ~x
            if op == "Neg":
                if z3.is_fp(x):
                    return z3.fpNeg(x)
                return -x
            if op == "PtrMetadata":
                # slice length
                tgt = self.load(st, x)
                if isinstance(tgt, VSeq):
                    return tgt.len
                if isinstance(tgt, VArr):
                    return bv(len(tgt.elems), 64)
                if isinstance(tgt, VStr):
                    return self.str_len(tgt)
                from values import VBlob, VBytes
                if isinstance(tgt, VBlob):
                    return tgt.len
                if isinstance(tgt, VBytes):
                    import summaries_bytes
                    return summaries_bytes.bytes_len(list(tgt.chunks))
                raise SymError("PtrMetadata of " + repr(tgt))
        if k == "len":
            v = self.read_place(st, frame, body, a["place"])
            if isinstance(v, VSeq):
                return v.len
            if isinstance(v, VArr):
                return bv(len(v.elems), 64)
            raise SymError("Len of " + repr(v))
        if k == "discriminant":
            v = self.read_place(st, frame, body, a["place"])
            if isinstance(v, VCoroutine):
                w = self.int_info(dest_ty)[0] if self.int_info(dest_ty) else 32
                return simp(z3.ZeroExt(w - 32, v.idx)) if w > 32 else simp(z3.Extract(w - 1, 0, v.idx))
            if not isinstance(v, VEnum):
                raise SymError(f"discriminant of non-enum {v!r}")
            w = self.int_info(dest_ty)[0] if self.int_info(dest_ty) else 64
            return self.discr_value(v, w)
        if k == "cast":
            x = self.operand(st, frame, body, a["op"])
            return self.cast(st, x, self.operand_type(body, a["op"]), parse_type(a["ty"]), a["ck"])
        if k == "tuple":
            return VStruct([self.operand(st, frame, body, o) for o in a["ops"]])
        if k == "array":
            return VArr([self.operand(st, frame, body, o) for o in a["ops"]])
        if k == "repeat":
            x = self.operand(st, frame, body, a["op"])
            try:
                n = int(a["count"])
            except ValueError:
                n = as_int(self.const(a["count"].replace("const ", ""), body))
            return VArr([x] * n)
        if k == "closure":
            caps = [self.operand(st, frame, body, o) for _, o in a["fields"]]
            if not a["name"].startswith(("{coroutine@", "{async")):
                caps = self._complete_closure_captures(st, frame, body, rv, caps)
            if a["name"].startswith(("{coroutine@", "{async")):
                return VCoroutine(a["name"], body.name, caps, bv(0, 32), {})
            return VClosure(a["name"], caps)
        if k == "adt":
            return self.adt_aggregate(st, frame, body, rv, dest_ty)
        raise SymError(f"unsupported rvalue kind {k}")

    def _complete_closure_captures(self, st, frame, body, rv, caps):
        """`-Zunpretty=mir` prints a closure aggregate as `{closure@..} { name: op, .. }` keyed by the captured VARIABLE's name, so two disjoint
        captures of one variable (`x.a` and `x.b`) are printed as ONE field.  The closure body still addresses every capture by index.
        Recover the unprinted operands: they are the references computed just before the aggregate into locals that nothing else uses, and
        their types must match the body's upvar types one to one.  Anything ambiguous fails closed."""
        try:
            fname = self.closure_fn(rv.a["name"])
        except SymError:
            return caps
        kind, i, j = self.crate.items[fname][0]
        want = {}
        for line in self.crate.lines[i : j + 1]:
            for mm in re.finditer(r"\(\(?\*?_1\)?\.(\d+): ([^()]*(?:\([^()]*\)[^()]*)*)\)", line):
                want[int(mm.group(1))] = mm.group(2).strip()
        n = (max(want) + 1) if want else 0
        if n <= len(caps):
            return caps
        # locate the aggregate statement and the candidate temporaries defined before it in the same block
        text = "\n".join(self.crate.lines[self.crate.items[body.name][0][1] : self.crate.items[body.name][0][2] + 1])
        for bbname in body.blocks:
            pb = mir.parsed_block(body, bbname)
            for si, stmt in enumerate(pb.stmts):
                if stmt.rv is rv:
                    printed = {}
                    for ci_, (_, o) in enumerate(rv.a["fields"]):
                        pl = getattr(o, "place", None)
                        if pl is None or pl.proj:
                            raise SymError(f"closure {rv.a['name']}: hidden captures next to a non-local operand")
                        printed[pl.local] = caps[ci_]
                    seq = []  # (local, value or None) in definition order
                    for prev in pb.stmts[:si]:
                        if prev.kind != "assign" or prev.place is None or prev.place.proj:
                            continue
                        loc = prev.place.local
                        if loc in printed:
                            seq.append((loc, printed[loc]))
                            continue
                        reads = len(re.findall(r"(move|copy) _%d(?![\w])|\(\*_%d\)|&(mut )?_%d(?![\w])" % (loc, loc, loc), text))
                        if reads == 0:
                            seq.append((loc, None))
                    if len([1 for l, _ in seq if l in printed]) != len(printed) or len(seq) != n:
                        raise SymError(f"closure {rv.a['name']} captures {n} values but the MIR text shows {len(caps)}; {len(seq)} candidate operands found")
                    out = []
                    for idx, (loc, val) in enumerate(seq):
                        if idx in want and not _same_ty(body.locals.get(loc), want[idx]):
                            raise SymError(f"closure {rv.a['name']}: recovered capture #{idx} has type {body.locals.get(loc)} but the body expects {want[idx]}")
                        out.append(val if val is not None else self.read_place(st, frame, body, mir.parse_place("_%d" % loc)))
                    self.summaries_used["closure captures hidden by the MIR printer recovered from the preceding temporaries"] = 1
                    return out
        raise SymError(f"closure {rv.a['name']} captures {n} values but the MIR text shows {len(caps)}")

    def discr_value(self, v, w):
        ci = as_int(v.idx)
        if ci is not None:
            return bv(v.info.discrs[ci], w)
        res = bv(v.info.discrs[-1], w)
        for i in range(len(v.info.discrs) - 2, -1, -1):
            res = z3.If(v.idx == bv(i, 8), bv(v.info.discrs[i], w), res)
        return res

    def adt_aggregate(self, st, frame, body, rv, dest_ty):
        a = rv.a
        path = a["path"]
        segs = _split_path(path)
        # enum variant?  Type::Variant
        if dest_ty.kind == "adt" and self.is_enum_type(dest_ty):
            info = self.enum_info(dest_ty.name)
            vname = segs[-1]
            vi = info.index(vname)
            if a["fields"] is not None:
                pay = tuple(self.operand(st, frame, body, o) for o in a["fields"])
            elif a["named"] is not None:
                # order fields as declared
                named = {n: self.operand(st, frame, body, o) for n, o in a["named"]}
                decl = self._variant_fields(dest_ty, vname)
                pay = tuple(named[f] for f in decl) if decl and set(decl) == set(named) else tuple(named.values())
            else:
                pay = ()
            return VEnum(info, bv(vi, 8), {vi: pay})
        # struct
        if a["named"] is not None:
            named = {n: self.operand(st, frame, body, o) for n, o in a["named"]}
            try:
                adt = self.struct_adt(dest_ty.name if dest_ty.kind == "adt" else segs[-1])
                order = [f for f, _ in adt.fields]
                if set(order) == set(named):
                    return VStruct([named[f] for f in order], adt.name)
            except SymError:
                pass
            return VStruct(list(named.values()), segs[-1])
        if a["fields"] is not None:
            return VStruct([self.operand(st, frame, body, o) for o in a["fields"]], segs[-1])
        return VStruct((), segs[-1])

    def _variant_fields(self, ty, vname):
        base = ty.base
        for ad in self.adts.get(base, []):
            if ad.kind == "enum":
                for (vn, vf, d) in ad.variants:
                    if vn == vname:
                        return [f for f, _ in vf]
        return None

    def binop(self, st, op, l, r, lt, dest_ty):
        if isinstance(l, VPoison) or isinstance(r, VPoison):
            raise SymError("binop on poisoned value")
        if z3.is_fp(l):
            if op == "Add":
                return z3.fpAdd(RNE, l, r)
            if op == "Sub":
                return z3.fpSub(RNE, l, r)
            if op == "Mul":
                return z3.fpMul(RNE, l, r)
            if op == "Div":
                return z3.fpDiv(RNE, l, r)
            if op == "Rem":
                raise SymError("float remainder")
            if op == "Lt":
                return z3.fpLT(l, r)
            if op == "Le":
                return z3.fpLEQ(l, r)
            if op == "Gt":
                return z3.fpGT(l, r)
            if op == "Ge":
                return z3.fpGEQ(l, r)
            if op == "Eq":
                return z3.fpEQ(l, r)
            if op == "Ne":
                return z3.Not(z3.fpEQ(l, r))
            raise SymError("float binop " + op)
        if z3.is_bool(l):
            if op == "Eq":
                return simp(l == r)
            if op == "Ne":
                return simp(l != r)
            if op == "BitAnd":
                return simp(z3.And(l, r))
            if op == "BitOr":
                return simp(z3.Or(l, r))
            if op == "BitXor":
                return simp(z3.Xor(l, r))
            if op in ("Lt", "Le", "Gt", "Ge"):
                li = z3.If(l, bv(1, 1), bv(0, 1))
                ri = z3.If(r, bv(1, 1), bv(0, 1))
                return {"Lt": z3.ULT, "Le": z3.ULE, "Gt": z3.UGT, "Ge": z3.UGE}[op](li, ri)
            raise SymError("bool binop " + op)
        if not z3.is_bv(l):
            raise SymError(f"binop {op} on {l!r}")
        ii = self.int_info(lt)
        signed = ii[1] if ii else False
        w = l.size()
        if z3.is_bv(r) and r.size() != w:
            if op in ("Shl", "Shr", "ShlUnchecked", "ShrUnchecked"):
                r = z3.ZeroExt(w - r.size(), r) if r.size() < w else z3.Extract(w - 1, 0, r)
            else:
                raise SymError(f"binop {op} width mismatch {w} vs {r.size()}")
        if op in ("Add", "AddUnchecked"):
            return l + r
        if op in ("Sub", "SubUnchecked"):
            return l - r
        if op in ("Mul", "MulUnchecked"):
            return l * r
        if op == "Div":
            return (l / r) if signed else z3.UDiv(l, r)
        if op == "Rem":
            return z3.SRem(l, r) if signed else z3.URem(l, r)
        if op == "BitXor":
            return l ^ r
        if op == "BitAnd":
            return l & r
        if op == "BitOr":
            return l | r
        if op in ("Shl", "ShlUnchecked"):
            return l << r
        if op in ("Shr", "ShrUnchecked"):
            return (l >> r) if signed else z3.LShR(l, r)
        if op == "Eq":
            return simp(l == r)
        if op == "Ne":
            return simp(l != r)
        if op == "Lt":
            return simp((l < r) if signed else z3.ULT(l, r))
        if op == "Le":
            return simp((l <= r) if signed else z3.ULE(l, r))
        if op == "Gt":
            return simp((l > r) if signed else z3.UGT(l, r))
        if op == "Ge":
            return simp((l >= r) if signed else z3.UGE(l, r))
        if op == "Cmp":
            lt_ = (l < r) if signed else z3.ULT(l, r)
            info = self.enum_info("Ordering")
            return VEnum(info, z3.If(lt_, bv(0, 8), z3.If(l == r, bv(1, 8), bv(2, 8))), {0: (), 1: (), 2: ()})
        if op == "AddWithOverflow":
            res = l + r
            if signed:
                ov = z3.Not(z3.And(z3.BVAddNoOverflow(l, r, True), z3.BVAddNoUnderflow(l, r)))
            else:
                ov = z3.Not(z3.BVAddNoOverflow(l, r, False))
            return VStruct([res, simp(ov)])
        if op == "SubWithOverflow":
            res = l - r
            if signed:
                ov = z3.Not(z3.And(z3.BVSubNoOverflow(l, r), z3.BVSubNoUnderflow(l, r, True)))
            else:
                ov = z3.ULT(l, r)
            return VStruct([res, simp(ov)])
        if op == "MulWithOverflow":
            res = l * r
            ov = z3.Not(mul_no_overflow(l, r, signed))
            return VStruct([res, simp(ov)])
        raise SymError("unsupported integer binop " + op)

    def cast(self, st, x, src_t, dst_t, ck):
        if ck in ("IntToInt",):
            si = self.int_info(src_t)
            di = self.int_info(dst_t)
            if z3.is_bool(x):
                x = z3.If(x, bv(1, 8), bv(0, 8))
                si = (8, False)
            if isinstance(x, VEnum):
                # fieldless enum as integer
                x = self.discr_value(x, di[0])
                return x
            if si is None or di is None:
                raise SymError(f"IntToInt cast {src_t.raw} -> {dst_t.raw}")
            sw, ss = si[0], si[1]
            if x.size() != sw:
                sw = x.size()
            dw = di[0]
            if dw == sw:
                return x
            if dw < sw:
                return simp(z3.Extract(dw - 1, 0, x))
            return simp(z3.SignExt(dw - sw, x) if ss else z3.ZeroExt(dw - sw, x))
        if ck == "IntToFloat":
            si = self.int_info(src_t)
            sort = F64 if dst_t.name == "f64" else F32
            if z3.is_bool(x):
                x = z3.If(x, bv(1, 8), bv(0, 8))
                si = (8, False)
            return z3.fpSignedToFP(RNE, x, sort) if si and si[1] else z3.fpUnsignedToFP(RNE, x, sort)
        if ck == "FloatToInt":
            di = self.int_info(dst_t)
            w, sg = di
            # Rust `as`: saturating, NaN -> 0
            if sg:
                lo, hi = -(1 << (w - 1)), (1 << (w - 1)) - 1
                conv = z3.fpToSBV(z3.RTZ(), x, z3.BitVecSort(w))
            else:
                lo, hi = 0, (1 << w) - 1
                conv = z3.fpToUBV(z3.RTZ(), x, z3.BitVecSort(w))
            sort = x.sort()
            lo_f = z3.FPVal(float(lo), sort)
            hi_f = z3.FPVal(float(hi), sort)  # rounds to 2^w for 64-bit: comparison with >= is then right
            return z3.If(z3.fpIsNaN(x), bv(0, w), z3.If(z3.fpLEQ(x, lo_f), bv(lo, w), z3.If(z3.fpGEQ(x, hi_f), bv(hi, w), conv)))
        if ck == "FloatToFloat":
            sort = F64 if dst_t.name == "f64" else F32
            return z3.fpFPToFP(RNE, x, sort)
        if ck.startswith("PointerCoercion(Unsize"):
            # &[T;N] -> &[T]  (VArr behind the reference is readable as a sequence), &T -> &dyn Trait (identity)
            return x
        if ck.startswith("PointerCoercion(") or ck in ("PtrToPtr", "Transmute", "Subtype"):
            if ck.startswith("PointerCoercion(ReifyFnPointer") or ck.startswith("PointerCoercion(ClosureFnPointer"):
                return x
            if ck in ("PtrToPtr", "Subtype") or ck.startswith("PointerCoercion(MutToConstPointer"):
                return x
            if ck == "Transmute" and isinstance(x, VRef) and src_t.raw.startswith("std::ptr::NonNull<") and dst_t.kind == "ptr" \
                    and src_t.raw[len("std::ptr::NonNull<"):-1].replace(" ", "") == dst_t.elem.raw.replace(" ", ""):
                return x  # NonNull<T> -> *const T: the same pointer
            raise SymError("unsupported cast kind " + ck)
        raise SymError("unsupported cast kind " + ck)

    def str_len(self, s):
        if getattr(s, "bytes", None) is not None:
            return s.bytes.len
        if s.lit is not None:
            return bv(len(s.lit.encode("utf-8", "replace")), 64)
        f = z3.Function("strlen", z3.BitVecSort(64), z3.BitVecSort(64))
        return f(s.id)

    # ------------------------------------------------------------------ execution
    def cfg(self, body):
        c = self._cfg.get(id(body))
        if c is None:
            c = CfgInfo(body)
            self._cfg[id(body)] = c
        return c

    def unwind_for(self, name):
        for k, v in self.unwind_overrides.items():
            if k in name:
                return v
        return self.unwind

    def call(self, name, args, st):
        """execute crate function `name` (item name in the MIR index)"""
        body = self.crate.body(name)
        return self.run_body(body, args, st)

    def run_body(self, body, args, st):
        if self.depth > self.max_depth:
            raise SymError("call depth limit")
        self.depth += 1
        try:
            return self._run_body(body, args, st)
        finally:
            self.depth -= 1

    def _run_body(self, body, args, st):
        if body.kind == "fn":
            self.executed[body.name] = body.text_hash
        if len(args) != len(body.args):
            raise SymError(f"{body.name}: expected {len(body.args)} args, got {len(args)}")
        frame = next(self._frame)
        st = st.fork()
        for (loc, _), v in zip(body.args, args):
            st.mem[("L", frame, loc)] = v
        if not body.order:
            raise SymError("empty body " + body.name)
        info = self.cfg(body)
        bound = self.unwind_for(body.name)
        work = []
        seq = itertools.count()

        def key_of(bb, iters):
            k = []
            for h in info.chain.get(bb, ()):
                k.append(info.pos[h])
                k.append(iters.get(h, 0))
            k.append(info.pos.get(bb, 1 << 30))
            return tuple(k)

        def push(bb, iters, s):
            heapq.heappush(work, (key_of(bb, iters), next(seq), bb, iters, s))

        push(body.order[0], {}, st)
        rets = []
        while work:
            key = work[0][0]
            group = []
            while work and work[0][0] == key:
                group.append(heapq.heappop(work))
            bb = group[0][2]
            iters = group[0][3]
            s = merge_states([g[4] for g in group])
            if z3.is_false(s.pc):
                continue
            succs = self.exec_block(s, frame, body, bb, rets)
            for (tgt, cond) in succs:
                ns = s if (cond is None and len(succs) == 1) else s.fork(cond)
                if z3.is_false(ns.pc):
                    continue
                # loop bookkeeping
                src_chain = info.chain.get(bb, ())
                dst_chain = info.chain.get(tgt, ())
                it2 = {h: c for h, c in iters.items() if h in dst_chain}
                if tgt in src_chain and tgt in dst_chain and info.pos[tgt] <= info.pos[bb]:
                    # back edge to loop head `tgt`
                    it2[tgt] = iters.get(tgt, 0) + 1
                    for h in dst_chain:
                        if info.pos[h] > info.pos[tgt]:
                            it2.pop(h, None)
                    if it2[tgt] > bound:
                        self.oblige(ns, f"unwind:{_short(body.name)}:{tgt}>{bound}", z3.BoolVal(True), kind="unwind")
                        continue
                else:
                    for h in dst_chain:
                        if h not in src_chain:
                            it2[h] = 0
                push(tgt, it2, ns)
        # drop this frame's locals
        if not rets:
            return None
        out = merge_states(rets)
        ret = out.mem.get(("L", frame, 0), UNIT)
        if body.kind == "fn":
            for r in [r for r in out.mem if r[0] == "L" and r[1] == frame]:
                del out.mem[r]
        return out, ret

    def exec_block(self, s, frame, body, bb, rets):
        pb = mir.parsed_block(body, bb)
        for stmt in pb.stmts:
            k = stmt.kind
            if k == "nop":
                if stmt.text.startswith("StorageDead("):
                    m = re.match(r"StorageDead\(_(\d+)\)", stmt.text)
                    s.mem.pop(("L", frame, int(m.group(1))), None)
                continue
            if k == "assign":
                dty = self.place_type(body, stmt.place)
                try:
                    v = self.rvalue(s, frame, body, stmt.rv, dty)
                except SymError as e:
                    raise SymError(f"{e}  [in {_short(body.name)} {bb}: {stmt.text[:140]}]") from None
                self.write_place(s, frame, body, stmt.place, v)
                continue
            if k == "setdiscr":
                cur = None
                try:
                    cur = self.read_place(s, frame, body, stmt.place)
                except SymError:
                    pass
                if isinstance(cur, VCoroutine):
                    self.write_place(s, frame, body, stmt.place, VCoroutine(cur.name, cur.creator, cur.caps, bv(stmt.rv, 32), cur.variants))
                    continue
                info = self.enum_info(self.place_type(body, stmt.place).name)
                vi = info.discrs.index(stmt.rv)
                pay = dict(cur.pay) if isinstance(cur, VEnum) else {}
                pay.setdefault(vi, ())
                self.write_place(s, frame, body, stmt.place, VEnum(info, bv(vi, 8), pay))
                continue
            if k == "assume":
                continue
            raise SymError("unsupported statement " + stmt.text)
        t = pb.term
        k = t.kind
        if k == "goto":
            return [(t.a["target"], None)]
        if k == "return":
            rets.append(s)
            return []
        if k in ("unreachable", "resume"):
            return []
        if k == "drop":
            return [(t.a["target"], None)] if t.a["target"] else []
        if k == "assert":
            c = self.operand(s, frame, body, t.a["cond"])
            bad = c if t.a["neg"] else z3.Not(c)
            bad = simp(bad)
            msg = t.a["msg"].strip('"')[:60]
            self.oblige(s, f"assert:{_short(body.name)}:{bb}:{msg}", bad, kind="assert")
            if z3.is_true(bad):
                return []
            return [(t.a["target"], simp(z3.Not(bad)))] if t.a["target"] else []
        if k == "switch":
            v = self.operand(s, frame, body, t.a["op"])
            if isinstance(v, VPoison):
                raise SymError(f"branch on poisoned value in {_short(body.name)} {bb}: {v.why}")
            if isinstance(v, VOpaque):
                raise SymError(f"branch on opaque value {v.tag} in {_short(body.name)} {bb}")
            out = []
            if z3.is_bool(v):
                # targets keyed 0 (false) / otherwise (true)
                conds = []
                for val, tgt in t.a["targets"]:
                    c = simp(z3.Not(v)) if val == 0 else simp(v)
                    conds.append(c)
                    if not z3.is_false(c):
                        out.append((tgt, c))
                if t.a["otherwise"]:
                    c = simp(z3.Not(z3.Or(*conds))) if conds else z3.BoolVal(True)
                    if not z3.is_false(c):
                        out.append((t.a["otherwise"], c))
                return self.prune(s, out)
            if not z3.is_bv(v):
                raise SymError(f"switch on {v!r} in {_short(body.name)} {bb}")
            w = v.size()
            conds = []
            for val, tgt in t.a["targets"]:
                c = simp(v == bv(val, w))
                conds.append(c)
                if not z3.is_false(c):
                    out.append((tgt, c))
            if t.a["otherwise"]:
                c = simp(z3.Not(z3.Or(*conds))) if conds else z3.BoolVal(True)
                if not z3.is_false(c):
                    out.append((t.a["otherwise"], c))
            out = self.prune(s, out)
            if len(out) == 1:
                return [(out[0][0], None if z3.is_true(out[0][1]) else out[0][1])]
            return out
        if k == "call":
            return self.exec_call(s, frame, body, bb, t)
        raise SymError("unsupported terminator " + t.text)

    def prune(self, s, out):
        """optional solver-assisted pruning of infeasible branches under the harness hypotheses (enabled per check: `path_hyps`)"""
        hyps = getattr(self, "path_hyps", None)
        if not hyps or len(out) < 2:
            return out
        keep = []
        for (tgt, c) in out:
            sv = z3.Solver()
            sv.set("timeout", 2000)
            sv.add(*hyps)
            sv.add(*self.assumptions)
            sv.add(s.pc, c)
            if sv.check() == z3.unsat:
                continue
            keep.append((tgt, c))
        return keep or out

    def exec_call(self, s, frame, body, bb, t):
        callee = t.a["callee"]
        try:
            args = [self.operand(s, frame, body, o) for o in t.a["args"]]
        except SymError as e:
            raise SymError(f"{e}  [args of call in {_short(body.name)} {bb}: {t.text[:160]}]") from None
        dest_ty = self.place_type(body, t.a["dest"]) if t.a["dest"] is not None else None
        if t.a["callee_op"] is not None:
            fv = self.operand(s, frame, body, t.a["callee_op"])
            if isinstance(fv, VFn):
                callee = fv.name
            else:
                raise SymError(f"indirect call through {fv!r}")
        try:
            res = self.dispatch(s, callee, args, dest_ty, body, t)
        except SymError as e:
            if "[in " in str(e) or "[call " in str(e):
                raise
            raise SymError(f"{e}  [call in {_short(body.name)} {bb}: {t.text[:200]}]") from None
        if res is None:
            return []  # diverges
        s2, rv = res
        # the callee worked on a forked state: adopt it
        s.mem = s2.mem
        s.pc = s2.pc
        s.clock = s2.clock
        if t.a["target"] is None:
            return []
        if t.a["dest"] is not None:
            self.write_place(s, frame, body, t.a["dest"], rv)
        return [(t.a["target"], None)]

    def dispatch(self, s, callee, args, dest_ty, body, t):
        """-> (state, value) or None if the call never returns"""
        for rx, h, nm in self.summaries:
            m = rx.match(callee)
            if m:
                self.summaries_used[nm] = self.summaries_used.get(nm, 0) + 1
                r = h(self, s, args, dest_ty, callee, m)
                if r is NotImplemented:
                    continue
                if r is None:
                    return None
                if isinstance(r, tuple) and len(r) == 2 and isinstance(r[0], State):
                    return r
                return (s, r)
        name = self.resolve_fn(callee)
        if name is not None:
            if self.trace:
                print("  " * self.depth + "call " + name)
            return self.call(name, args, s)
        raise SymError("no summary and no MIR body for callee " + callee)

    def call_closure(self, s, clo, args):
        """invoke a closure value (VClosure, or VRef to one, or VFn) natively with positional args; -> (state, value)"""
        cv = clo
        if isinstance(cv, VRef):
            cv = self.load(s, cv)
            if isinstance(cv, VRef):
                cv = self.load(s, cv)
        if isinstance(cv, VFn):
            return self.dispatch(s, cv.name, list(args), None, None, None)
        if not isinstance(cv, VClosure):
            raise SymError(f"call of non-closure {cv!r}")
        fname = self.closure_fn(cv.name)
        b = self.crate.body(fname)
        pty = parse_type(b.args[0][1])
        if pty.kind == "ref":
            if isinstance(clo, VRef) and isinstance(self.load(s, clo), VClosure):
                selfarg = clo
            else:
                selfarg = self.alloc(s, cv, "T")
        else:
            selfarg = cv
        r = self.run_body(b, [selfarg] + list(args), s)
        if r is None:
            raise SymError("closure diverges: " + fname)
        return r


def _same_ty(a, b):
    norm = lambda t: re.sub(r"\b(dht::|crate::)", "", (t or "").replace(" ", ""))  # noqa: E731
    return a is not None and b is not None and norm(a) == norm(b)


def mul_no_overflow(l, r, signed):
    """portable (no z3-only bvumul_noovfl): widen, multiply, compare"""
    w = l.size()
    if signed:
        full = z3.SignExt(w, l) * z3.SignExt(w, r)
        return full == z3.SignExt(w, z3.Extract(w - 1, 0, full))
    full = z3.ZeroExt(w, l) * z3.ZeroExt(w, r)
    return z3.Extract(2 * w - 1, w, full) == 0


def _zip_store(arrs, vals, k):
    """store value tree `vals` at key k into the tree of arrays `arrs`"""
    if is_z3(arrs):
        return z3.Store(arrs, k, vals)
    if isinstance(arrs, VStruct):
        return VStruct([_zip_store(a, v, k) for a, v in zip(arrs.f, vals.f)], arrs.ty)
    if isinstance(arrs, VEnum):
        pay = {}
        for vi, p in arrs.pay.items():
            vp = vals.pay.get(vi)
            pay[vi] = tuple(_zip_store(a, v, k) for a, v in zip(p, vp)) if vp is not None else p
        return VEnum(arrs.info, z3.Store(arrs.idx, k, vals.idx), pay)
    if isinstance(arrs, VArr):
        return VArr([_zip_store(a, v, k) for a, v in zip(arrs.elems, vals.elems)])
    if isinstance(arrs, VSeq):
        return VSeq([_zip_store(a, v, k) for a, v in zip(arrs.elems, vals.elems)], z3.Store(arrs.len, k, vals.len))
    if isinstance(arrs, VStr):
        return VStr(z3.Store(arrs.id, k, vals.id))
    from values import VBlob
    if isinstance(arrs, VBlob) and isinstance(vals, VBlob):
        return VBlob(z3.Store(arrs.id, k, vals.id), z3.Store(arrs.len, k, vals.len))
    raise SymError(f"map value shape {arrs!r} <- {vals!r}")


def _split_path(p):
    """split a::b::<impl at x>::c::<T> into segments, dropping generic-argument segments"""
    segs = []
    depth = 0
    cur = []
    i = 0
    while i < len(p):
        c = p[i]
        if c in "<({[":
            depth += 1
        elif c in ")}]":
            depth -= 1
        elif c == ">" and p[i - 1] not in "-=":
            depth -= 1
        if depth == 0 and p.startswith("::", i):
            segs.append("".join(cur))
            cur = []
            i += 2
            continue
        cur.append(c)
        i += 1
    segs.append("".join(cur))
    out = []
    for s in segs:
        s = s.strip()
        if s.startswith("<") and not s.startswith("<impl"):
            continue  # generic args
        s2 = re.sub(r"<.*>$", "", s) if not s.startswith("<impl") else s
        if s2:
            out.append(s2)
    return out


def _short(name):
    return re.sub(r"<impl at [^>]*>", "<impl>", name)
