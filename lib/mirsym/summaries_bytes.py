"""Summaries for abstract byte strings: Vec<u8> message buffers, blake3, postcard serialisation (C09)."""
import re

import z3

import summaries as S
from summaries import _REG, deref, ok, option, some, none
from values import (UNIT, SymError, VArr, VBlob, VBytes, VEnum, VOpaque, VRef, VSeq, VStr, VStruct, as_int, bv, flatten, is_z3, key_bv, simp)


def first(pattern, name):
    """register at the FRONT of the catalogue (takes precedence over the generic Vec summaries)"""
    def deco(f):
        _REG.insert(0, (re.compile(pattern), f, name))
        return f

    return deco


def chunks_of(eng, st, v):
    """byte-string view of a value: VBytes / [u8;N] / Vec<u8> with concrete length / blob / abstract string"""
    v = deref(eng, st, v)
    if isinstance(v, VBytes):
        return list(v.chunks)
    if isinstance(v, VBlob):
        return [("o", v.id, v.len)]
    if isinstance(v, VArr):
        return [("b", key_bv(v))] if v.elems else []
    if isinstance(v, VSeq):
        n = as_int(v.len)
        if n is None:
            raise SymError("byte slice of symbolic length")
        return [("b", key_bv(VArr(v.elems[:n])))] if n else []
    if isinstance(v, VStr):
        return [("o", v.id, eng.str_len(v))]
    raise SymError(f"not a byte string: {v!r}")


def bytes_len(chunks):
    t = bv(0, 64)
    for c in chunks:
        if c[0] == "alt":
            t = t + z3.If(c[1], bytes_len(c[2]), bytes_len(c[3]))
            continue
        t = t + (bv(c[1].size() // 8, 64) if c[0] == "b" else (c[1] if c[0] == "s" else c[2]))
    return simp(t)


def append_chunks(chunks, new):
    """chunks ++ new; an alternative at the end takes the new chunks into both of its sides"""
    chunks = list(chunks)
    new = list(new)
    if not new:
        return chunks
    if chunks and chunks[-1][0] == "alt":
        c = chunks[-1]
        return chunks[:-1] + [("alt", c[1], tuple(append_chunks(c[2], new)), tuple(append_chunks(c[3], new)))]
    return chunks + new


def expand_alts(chunks, cond=None):
    """-> [(path condition, flat chunk list)] of every alternative"""
    cond = z3.BoolVal(True) if cond is None else cond
    chunks = list(chunks)
    if chunks and chunks[-1][0] == "alt":
        c = chunks[-1]
        pre = chunks[:-1]
        return expand_alts(pre + list(c[2]), simp(z3.And(cond, c[1]))) + expand_alts(pre + list(c[3]), simp(z3.And(cond, z3.Not(c[1]))))
    if any(c[0] == "alt" for c in chunks):
        raise SymError("alternative in the middle of a byte string")
    return [(cond, chunks)]


def canon_chunks(chunks):
    """Byte-level short strings ('s', length, bytes) are VARIABLE-LENGTH KNOWN bytes: a maximal run of adjacent ones is replaced by the canonical form of its
    CONCATENATION (total length, bytes shifted into place, zero padding) -- so two runs are equal iff the concatenated byte strings are equal, exactly as a hash
    sees them.  A length prefix or any other chunk between two such strings ends the run (they are then delimited and compared one by one)."""
    out = []
    i = 0
    chunks = list(chunks)
    while i < len(chunks):
        if chunks[i][0] != "s":
            out.append(chunks[i])
            i += 1
            continue
        run = []
        while i < len(chunks) and chunks[i][0] == "s":
            run.append(chunks[i])
            i += 1
        cap = sum(len(c[2]) for c in run)
        total = bv(0, 64)
        cat = [bv(0, 8)] * cap
        for c in run:
            ln, bs = c[1], c[2]
            new = []
            for k in range(cap):
                # byte k of the concatenation so far stays; positions total..total+ln-1 take this string's bytes
                v = cat[k]
                for j, b in enumerate(bs):
                    v = z3.If(z3.And(z3.ULT(bv(j, 64), ln), total + j == k), b, v)
                new.append(simp(v))
            cat = new
            total = simp(total + ln)
        masked = [simp(z3.If(z3.ULT(bv(k, 64), total), cat[k], bv(0, 8))) for k in range(cap)]
        out.append(("b", simp(z3.Concat(total, *masked)) if masked else total))
    return out


def bytes_key(chunks):
    """injective encoding of a chunk list of a FIXED shape as one bit-vector (for uninterpreted hash / verify functions)"""
    if any(c[0] == "alt" for c in chunks):
        raise SymError("byte string of path-dependent shape where a fixed shape is needed")
    parts = []
    for c in canon_chunks(chunks):
        parts.append(c[1])
        if c[0] == "o":
            parts.append(c[2])
    if not parts:
        return bv(0, 8)
    return simp(z3.Concat(*parts)) if len(parts) > 1 else parts[0]


@first(r"^Vec::<u8>::(new|with_capacity)$", "Vec::<u8>::new: empty abstract byte string")
def _bytes_new(eng, st, args, dty, callee, m):
    return VBytes(())


@first(r"^Vec::<u8>::push$", "Vec::<u8>::push on an abstract byte string")
def _bytes_push(eng, st, args, dty, callee, m):
    v = eng.load(st, args[0])
    if not isinstance(v, VBytes):
        return NotImplemented
    eng.store(st, args[0], VBytes(append_chunks(v.chunks, [("b", args[1])])))
    return UNIT


@first(r"^Vec::<u8>::extend_from_slice$", "Vec::<u8>::extend_from_slice: concatenation of byte strings")
def _bytes_extend(eng, st, args, dty, callee, m):
    v = eng.load(st, args[0])
    if not isinstance(v, VBytes):
        return NotImplemented
    eng.store(st, args[0], VBytes(append_chunks(v.chunks, chunks_of(eng, st, args[1]))))
    return UNIT


@first(r"^Vec::<u8>::(len|is_empty)$|^core::slice::<impl \[u8\]>::(len|is_empty)$", "length of an abstract byte string")
def _bytes_len(eng, st, args, dty, callee, m):
    v = deref(eng, st, args[0])
    if not isinstance(v, (VBytes, VBlob)):
        return NotImplemented
    ln = bytes_len(chunks_of(eng, st, v))
    return simp(ln == 0) if callee.endswith("is_empty") else ln


@first(r"^(std::string::String|core::str::<impl str>|str::<impl str>)::as_bytes$", "str::as_bytes: opaque blob identified by the abstract string")
def _str_as_bytes(eng, st, args, dty, callee, m):
    s = deref(eng, st, args[0])
    if not isinstance(s, VStr):
        raise SymError("as_bytes of " + repr(s))
    if s.bytes is not None:
        # a byte-level short string: variable-length KNOWN bytes
        return eng.alloc(st, VBytes([("s", s.bytes.len, tuple(s.bytes.elems))]), "T")
    return eng.alloc(st, VBlob(s.id, eng.str_len(s)), "T")


def _mask_unused(x):
    """canonical form of a value for serialisation: slots of a sequence beyond its length do not exist, so they must not distinguish two values"""
    from values import VEnum as _VE, vmap

    if isinstance(x, VSeq):
        out = []
        for i, e in enumerate(x.elems):
            inside = z3.ULT(bv(i, 64), x.len)
            e2 = _mask_unused(e)
            out.append(vmap(e2, lambda l, inside=inside: simp(z3.If(inside, l, z3.BoolVal(False) if z3.is_bool(l) else (z3.FPVal(0.0, l.sort()) if z3.is_fp(l) else z3.BitVecVal(0, l.size()))))))
        return VSeq(out, x.len)
    if isinstance(x, VStruct):
        return VStruct([_mask_unused(f) for f in x.f], x.ty)
    if isinstance(x, _VE):
        # the payload of a variant that is not the selected one does not exist either
        def zero(l):
            return z3.BoolVal(False) if z3.is_bool(l) else (z3.FPVal(0.0, l.sort()) if z3.is_fp(l) else z3.BitVecVal(0, l.size()))

        pay = {}
        for k, v in x.pay.items():
            sel = x.idx == bv(k, x.idx.size()) if z3.is_bv(x.idx) else z3.BoolVal(True)
            pay[k] = tuple(vmap(_mask_unused(p), lambda l, sel=sel: simp(z3.If(sel, l, zero(l)))) for p in v)
        return _VE(x.info, x.idx, pay)
    return x


@first(r"^(postcard::)?to_stdvec::<.*>$|^(postcard::)?to_allocvec::<.*>$", "postcard::to_stdvec: Ok(opaque blob) -- an injective function of the serialised value (deterministic canonical encoding)")
def _postcard_ser(eng, st, args, dty, callee, m):
    x = _mask_unused(deref(eng, st, args[0]))
    kid = key_bv(x)
    f = z3.Function(f"postcard_len_{kid.size()}", kid.sort(), z3.BitVecSort(64))
    return ok(VBytes([("o", kid, f(kid))]))


def hash256(chunks):
    alts = expand_alts(chunks)
    out = None
    for cond, flat in reversed(alts):
        k = bytes_key(flat)
        f = z3.Function(f"blake3_{k.size()}", k.sort(), z3.BitVecSort(256))
        out = f(k) if out is None else z3.If(cond, f(k), out)
    return out


def mk_hash(chunks):
    """the hash value is represented by its (canonicalised) input; inputs whose shape depends on the path become one guarded alternative per path"""
    alts = expand_alts(chunks)
    if len(alts) == 1:
        return VStruct([VBytes(canon_chunks(alts[0][1]))], "blake3::Hash")
    rest = tuple(canon_chunks(alts[-1][1]))
    for cond, flat in reversed(alts[:-1]):
        rest = (("alt", cond, tuple(canon_chunks(flat)), rest),)
    return VStruct([VBytes(rest)], "blake3::Hash")


@first(r"^blake3::Hasher::new$", "blake3::Hasher::new")
def _hasher_new(eng, st, args, dty, callee, m):
    return VStruct([VBytes(())], "blake3::Hasher")


@first(r"^blake3::Hasher::update$", "blake3::Hasher::update: appends to the hashed byte string")
def _hasher_update(eng, st, args, dty, callee, m):
    h = eng.load(st, args[0])
    eng.store(st, args[0], VStruct([VBytes(append_chunks(h.f[0].chunks, chunks_of(eng, st, args[1])))], "blake3::Hasher"))
    return args[0]


@first(r"^blake3::Hasher::finalize$", "blake3::Hasher::finalize -> Hash (collision-free: equal hashes <=> equal inputs of the same shape)")
def _hasher_finalize(eng, st, args, dty, callee, m):
    h = eng.load(st, args[0])
    return mk_hash(h.f[0].chunks)


@first(r"^blake3::hash$", "blake3::hash")
def _blake3_hash(eng, st, args, dty, callee, m):
    return mk_hash(chunks_of(eng, st, args[0]))


@first(r"^blake3::Hash::as_bytes$", "Hash::as_bytes: 32 bytes = uninterpreted function of the hashed input")
def _hash_as_bytes(eng, st, args, dty, callee, m):
    h = deref(eng, st, args[0])
    d = hash256(h.f[0].chunks)
    return eng.alloc(st, VArr([simp(z3.Extract(255 - 8 * i, 248 - 8 * i, d)) for i in range(32)]), "T")


@first(r"^<blake3::Hash as (Into|From)<\[u8; 32\]>>::(into|from)$|^<\[u8; 32\] as From<blake3::Hash>>::from$", "Hash -> [u8;32]")
def _hash_into(eng, st, args, dty, callee, m):
    h = deref(eng, st, args[0])
    d = hash256(h.f[0].chunks)
    return VArr([simp(z3.Extract(255 - 8 * i, 248 - 8 * i, d)) for i in range(32)])


@first(r"^(ant_quic::|saorsa_pqc::|.*::)?MlDsa(PublicKey|Signature|SecretKey)::as_bytes$", "ML-DSA key / signature bytes: the opaque blob itself")
def _pq_as_bytes(eng, st, args, dty, callee, m):
    v = deref(eng, st, args[0])
    if not isinstance(v, VBlob):
        raise SymError("as_bytes of a non-blob key value")
    return args[0] if isinstance(args[0], VRef) else eng.alloc(st, v, "T")


@first(r"^(std::collections::)?HashMap::<.*>::(keys|values|values_mut|iter|iter_mut)$|^<&(mut )?(std::collections::)?HashMap<.*> as IntoIterator>::into_(iter)$", "HashMap iteration: over the enumerated keys of a finite map (opaque for array-only maps: any use is an error)")
def _map_keys(eng, st, args, dty, callee, m):
    from summaries_coll import _load_map
    from values import VIter

    try:
        ref, mp = _load_map(eng, st, args[0])
    except SymError:
        return VOpaque("HashMap iteration")
    if mp.enum is None or mp.present is None:
        return VOpaque("HashMap iteration (map is not enumerable)")
    mode = m.group(2) or "iter"
    items = []
    # all key values live in ONE temporary sequence so that references to different keys can be merged (same root, index differs)
    keyroot = eng.alloc(st, VSeq([kv for (_, kv) in mp.enum], bv(len(mp.enum), 64)), "T")
    for j, (kb, kval) in enumerate(mp.enum):
        cond = simp(z3.Select(mp.present, kb))
        slot = VRef(ref.root, ref.path + (("k", kb),), True)
        kref = VRef(keyroot.root, (("i", j),), True)
        if mode == "keys":
            v = kref
        elif mode in ("values", "values_mut"):
            v = slot
        else:
            v = VStruct([kref, slot])
        items.append((cond, v))
    return VIter("condlist", items=tuple(items), pos=bv(0, 64))


@first(r"^(std::collections::)?HashMap::<.*>::retain::<.*>$", "HashMap::retain over the enumerated keys (real closure)")
def _map_retain(eng, st, args, dty, callee, m):
    from summaries_coll import _load_map
    from summaries_iter import _call
    from values import VMap

    ref, mp = _load_map(eng, st, args[0])
    if mp.enum is None or mp.present is None:
        raise SymError("HashMap::retain on a map that is not enumerable")
    for (kb, kval) in mp.enum:
        ref, mp = _load_map(eng, st, args[0])
        cond = simp(z3.Select(mp.present, kb))
        kref = eng.alloc(st, kval, "T")
        slot = VRef(ref.root, ref.path + (("k", kb),), True)
        keep = _call(eng, st, args[1], [kref, slot], cond)
        if keep is None:
            continue
        ref, mp = _load_map(eng, st, args[0])
        drop = simp(z3.And(cond, z3.Not(keep)))
        eng.store(st, ref, VMap(mp.ksort, simp(z3.Store(mp.present, kb, z3.And(cond, keep))), mp.val, simp(mp.count - z3.If(drop, bv(1, 64), bv(0, 64))), mp.cap, mp.enum))
    return UNIT


@first(r"^<(std::collections::)?HashMap<.*> as IntoIterator>::into_iter$", "HashMap::into_iter (owned) over the enumerated keys of a finite map: yields (key, value) pairs")
def _map_into_iter(eng, st, args, dty, callee, m):
    from values import VIter, VMap, vmap

    mp = args[0]
    if isinstance(mp, VRef):
        mp = eng.load(st, mp)
    if not isinstance(mp, VMap) or mp.enum is None or mp.present is None or mp.val is None:
        raise SymError("HashMap::into_iter on a map that is not enumerable")
    items = []
    for (kb, kval) in mp.enum:
        items.append((simp(z3.Select(mp.present, kb)), VStruct([kval, vmap(mp.val, lambda a, kb=kb: z3.Select(a, kb))])))
    return VIter("condlist", items=tuple(items), pos=bv(0, 64))


@first(r"^<.* as Iterator>::collect::<(std::collections::)?HashMap<.*>>$", "collect::<HashMap<_, _>>: a finite map holding the yielded (key, value) pairs (later pairs win)")
def _collect_map(eng, st, args, dty, callee, m):
    from summaries_iter import _it, drain
    from values import VMap, vmap

    items = drain(eng, st, _it(eng, st, args[0]))
    if not items:
        return VMap(None, None, None, bv(0, 64), None)
    present, val, enum, ksort = None, None, [], None
    count = bv(0, 64)
    for c, kv in items:
        if isinstance(kv, VRef):
            kv = eng.load(st, kv)
        k, v = kv.f
        kb = key_bv(k)
        if ksort is None:
            ksort = kb.sort()
            present = z3.K(ksort, z3.BoolVal(False))
            val = vmap(v, lambda leaf: z3.K(ksort, leaf))
        was = z3.Select(present, kb)
        count = simp(count + z3.If(z3.And(c, z3.Not(was)), bv(1, 64), bv(0, 64)))
        present = simp(z3.Store(present, kb, z3.Or(was, c)))
        leaves_a, leaves_v = flatten(val), flatten(v)
        new = [z3.If(c, z3.Store(a, kb, x), a) for a, x in zip(leaves_a, leaves_v)]
        it = iter(new)
        val = vmap(val, lambda a: next(it))
        enum.append((kb, k))
    return VMap(ksort, present, val, count, None, tuple(enum))


@first(r"^(uuid::)?Uuid::as_bytes$", "Uuid::as_bytes: the 16 bytes of the (abstract 64-bit) identity, zero-extended")
def _uuid_as_bytes(eng, st, args, dty, callee, m):
    v = deref(eng, st, args[0])
    leaves = flatten(v)
    if len(leaves) != 1 or not z3.is_bv(leaves[0]):
        raise SymError("Uuid::as_bytes of " + repr(v))
    x = z3.ZeroExt(128 - leaves[0].size(), leaves[0]) if leaves[0].size() < 128 else leaves[0]
    return eng.alloc(st, VArr([simp(z3.Extract(127 - 8 * i, 120 - 8 * i, x)) for i in range(16)]), "T")
