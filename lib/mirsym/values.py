"""Symbolic values of the MIR executor.  Scalars are z3 expressions; aggregates are immutable Python objects."""
import z3


class SymError(Exception):
    """unsupported construct / unknown callee / modelling limit: the check must answer 'inconclusive'"""


class VStruct:
    __slots__ = ("f", "ty")

    def __init__(self, f, ty=None):
        self.f = tuple(f)
        self.ty = ty

    def __repr__(self):
        return f"VStruct<{self.ty}>{self.f}"


UNIT = VStruct(())


class EnumInfo:
    """variant names in declaration order; discriminant values (default = index)"""

    def __init__(self, name, variants, discrs=None):
        self.name = name
        self.variants = list(variants)
        self.discrs = list(discrs) if discrs else list(range(len(variants)))

    def index(self, vname):
        try:
            return self.variants.index(vname)
        except ValueError:
            raise SymError(f"enum {self.name} has no variant {vname}")

    def __repr__(self):
        return f"EnumInfo({self.name})"


class VEnum:
    __slots__ = ("info", "idx", "pay")

    def __init__(self, info, idx, pay):
        self.info = info
        self.idx = idx  # z3 BV8 variant index
        self.pay = pay  # dict variant index -> tuple of Values

    def __repr__(self):
        return f"VEnum<{self.info.name}>({self.idx}, {self.pay})"


class VRef:
    __slots__ = ("root", "path", "mut")

    def __init__(self, root, path=(), mut=False):
        self.root = root
        self.path = tuple(path)
        self.mut = mut

    def __repr__(self):
        return f"VRef({self.root}, {self.path})"


class VSeq:
    """Vec<T> / slice contents: fixed capacity tuple of elements plus symbolic length (len <= cap assumed)."""
    __slots__ = ("elems", "len")

    def __init__(self, elems, length):
        self.elems = tuple(elems)
        self.len = length

    @property
    def cap(self):
        return len(self.elems)

    def __repr__(self):
        return f"VSeq(cap={len(self.elems)}, len={self.len})"


class VArr:
    __slots__ = ("elems",)

    def __init__(self, elems):
        self.elems = tuple(elems)

    def __repr__(self):
        return f"VArr{self.elems}"


class VStr:
    """abstract string: identity only (equal ids <=> equal strings); lit = python str for literals"""
    __slots__ = ("id", "lit", "bytes")

    def __init__(self, id_, lit=None, bytes_=None):
        self.id = id_
        self.lit = lit
        self.bytes = bytes_  # optional VSeq of u8: short strings modelled byte by byte (id is then a canonical function of the bytes)

    def __repr__(self):
        return f"VStr({self.lit if self.lit is not None else self.id})"


class VOpaque:
    __slots__ = ("tag",)

    def __init__(self, tag):
        self.tag = tag

    def __repr__(self):
        return f"VOpaque({self.tag})"


class VPoison:
    __slots__ = ("why",)

    def __init__(self, why):
        self.why = why

    def __repr__(self):
        return f"VPoison({self.why})"


class VFn:
    __slots__ = ("name",)

    def __init__(self, name):
        self.name = name

    def __repr__(self):
        return f"VFn({self.name})"


class VClosure:
    __slots__ = ("name", "caps")

    def __init__(self, name, caps):
        self.name = name  # "{closure@src/...}"
        self.caps = tuple(caps)

    def __repr__(self):
        return f"VClosure({self.name})"


class VBytes:
    """byte string built by concatenation (Vec<u8> message buffers, hasher input): chunks are either known bytes
    ('b', bit-vector of 8k bits) or opaque blobs ('o', identity bit-vector, byte length).  Equality = chunkwise equality
    (length-prefixed canonical encodings; hash functions are treated as collision-free)."""
    __slots__ = ("chunks",)

    def __init__(self, chunks):
        self.chunks = tuple(chunks)

    def __repr__(self):
        return f"VBytes({len(self.chunks)} chunks)"


class VBlob:
    """opaque byte string (key material, signature, utf-8 of an abstract string, serializer output): identity + length"""
    __slots__ = ("id", "len")

    def __init__(self, id_, length):
        self.id = id_
        self.len = length

    def __repr__(self):
        return "VBlob"


class VCoroutine:
    """state machine of an `async fn` / async block: captured upvars, resume-state discriminant, saved locals per suspend state"""
    __slots__ = ("name", "creator", "caps", "idx", "variants")

    def __init__(self, name, creator, caps, idx, variants):
        self.name = name
        self.creator = creator  # MIR item that built it: its body is `<creator>::{closure#0}`
        self.caps = tuple(caps)
        self.idx = idx  # z3 BV32
        self.variants = dict(variants)  # state number -> tuple of saved values (None = not written yet)

    def __repr__(self):
        return f"VCoroutine({self.creator})"


class VMap:
    """key -> value map as 'struct of arrays': `present` is Array(K, Bool); `val` is a value tree whose scalar leaves
    are z3 Arrays K -> leaf sort; `count` is a ghost BV64 number of present keys."""
    __slots__ = ("ksort", "present", "val", "count", "cap", "enum")

    def __init__(self, ksort, present, val, count, cap=None, enum=None):
        self.ksort = ksort
        self.present = present
        self.val = val
        self.count = count
        self.cap = cap
        self.enum = enum  # optional tuple of (key bit-vector, key value): the ONLY keys that can be present (finite map: iteration is modelled)

    def __repr__(self):
        return f"VMap({self.ksort})"


class VIter:
    """iterator object; `kind` selects the native `next` implementation (see summaries)"""
    __slots__ = ("kind", "a")

    def __init__(self, kind, **a):
        self.kind = kind
        self.a = a

    def with_(self, **kw):
        d = dict(self.a)
        d.update(kw)
        return VIter(self.kind, **d)

    def __repr__(self):
        return f"VIter({self.kind}, {self.a})"


def is_z3(v):
    return isinstance(v, z3.ExprRef)


def bv(val, width):
    return z3.BitVecVal(val, width)


def as_int(e):
    """concrete python int of a z3 BV/Bool expression or None"""
    if isinstance(e, int):
        return e
    if isinstance(e, bool):
        return int(e)
    if z3.is_bv_value(e):
        return e.as_long()
    if z3.is_true(e):
        return 1
    if z3.is_false(e):
        return 0
    s = z3.simplify(e)
    if z3.is_bv_value(s):
        return s.as_long()
    if z3.is_true(s):
        return 1
    if z3.is_false(s):
        return 0
    return None


def simp(e):
    return z3.simplify(e)


def vmap(v, f):
    """apply f to every scalar (z3) leaf, rebuilding the tree"""
    if is_z3(v):
        return f(v)
    if isinstance(v, VStruct):
        return VStruct([vmap(x, f) for x in v.f], v.ty)
    # NOTE: leaves are visited in exactly the order of flatten() (callers zip the two)
    if isinstance(v, VEnum):
        idx = f(v.idx)
        return VEnum(v.info, idx, {k: tuple(vmap(x, f) for x in v.pay[k]) for k in sorted(v.pay)})
    if isinstance(v, VSeq):
        ln = f(v.len)
        return VSeq([vmap(x, f) for x in v.elems], ln)
    if isinstance(v, VArr):
        return VArr([vmap(x, f) for x in v.elems])
    if isinstance(v, VStr):
        return VStr(f(v.id), None, vmap(v.bytes, f) if v.bytes is not None else None)
    if isinstance(v, VClosure):
        return VClosure(v.name, [vmap(x, f) for x in v.caps])
    if isinstance(v, VBlob):
        return VBlob(f(v.id), f(v.len))
    if isinstance(v, VBytes):
        def _mc(c):
            if c[0] == "b":
                return ("b", f(c[1]))
            if c[0] == "s":
                return ("s", f(c[1]), tuple(f(x) for x in c[2]))
            if c[0] == "alt":
                return ("alt", f(c[1]), tuple(_mc(x) for x in c[2]), tuple(_mc(x) for x in c[3]))
            return ("o", f(c[1]), f(c[2]))

        return VBytes([_mc(c) for c in v.chunks])
    if isinstance(v, VCoroutine):
        return VCoroutine(v.name, v.creator, [vmap(x, f) for x in v.caps], f(v.idx), {k: tuple(vmap(x, f) for x in p) for k, p in v.variants.items()})
    if isinstance(v, (VOpaque, VFn, VPoison)) or v is None:
        return v
    raise SymError(f"vmap: unsupported value {v!r}")


def merge(g, a, b):
    """value that equals a when g holds and b otherwise"""
    if a is b:
        return a
    if a is None or b is None:
        return VPoison("uninitialised on one path")
    if is_z3(a) and is_z3(b):
        if a.eq(b):
            return a
        if a.sort() != b.sort():
            raise SymError(f"merge of different sorts {a.sort()} vs {b.sort()}")
        if z3.is_true(g):
            return a
        if z3.is_false(g):
            return b
        return z3.If(g, a, b)
    if isinstance(a, VPoison):
        return a
    if isinstance(b, VPoison):
        return b
    if type(a) is not type(b):
        return VPoison(f"merge of {type(a).__name__} and {type(b).__name__}")
    if isinstance(a, VStruct):
        if len(a.f) != len(b.f):
            return VPoison("struct arity mismatch")
        return VStruct([merge(g, x, y) for x, y in zip(a.f, b.f)], a.ty or b.ty)
    if isinstance(a, VEnum):
        pay = {}
        for k in set(a.pay) | set(b.pay):
            pa, pb = a.pay.get(k), b.pay.get(k)
            if pa is None:
                pay[k] = pb
            elif pb is None:
                pay[k] = pa
            else:
                pay[k] = tuple(merge(g, x, y) for x, y in zip(pa, pb))
        return VEnum(a.info, merge(g, a.idx, b.idx), pay)
    if isinstance(a, VRef):
        if a.root == b.root and a.path == b.path:
            return a
        if len(a.path) == len(b.path) and a.root == b.root:
            # same shape, differing only in symbolic indices / keys
            newp = []
            ok = True
            for pa, pb in zip(a.path, b.path):
                if pa == pb:
                    newp.append(pa)
                elif isinstance(pa, tuple) and isinstance(pb, tuple) and pa[0] in ("i", "si") and pb[0] in ("i", "si"):
                    ea = bv(pa[1], 64) if pa[0] == "i" else pa[1]
                    eb = bv(pb[1], 64) if pb[0] == "i" else pb[1]
                    newp.append(("si", merge(g, ea, eb)))
                elif isinstance(pa, tuple) and isinstance(pb, tuple) and pa[0] == "k" and pb[0] == "k":
                    newp.append(("k", merge(g, pa[1], pb[1])))
                else:
                    ok = False
                    break
            if ok:
                return VRef(a.root, newp, a.mut)
        return VPoison(f"merge of distinct references {a} / {b}")
    if isinstance(a, VSeq):
        n = max(len(a.elems), len(b.elems))
        ea = list(a.elems) + [None] * (n - len(a.elems))
        eb = list(b.elems) + [None] * (n - len(b.elems))
        el = []
        for x, y in zip(ea, eb):
            if x is None:
                el.append(y)
            elif y is None:
                el.append(x)
            else:
                el.append(merge(g, x, y))
        return VSeq(el, merge(g, a.len, b.len))
    if isinstance(a, VArr):
        if len(a.elems) != len(b.elems):
            return VPoison("array length mismatch")
        return VArr([merge(g, x, y) for x, y in zip(a.elems, b.elems)])
    if isinstance(a, VStr):
        if a.lit is not None and a.lit == b.lit:
            return a
        by = merge(g, a.bytes, b.bytes) if (a.bytes is not None and b.bytes is not None) else None
        return VStr(merge(g, a.id, b.id), None, by if not isinstance(by, VPoison) else None)
    if isinstance(a, VMap):
        # a lazily empty map (no key sort yet) merged with a used one: the empty side is the constant-false presence array
        # (its values are irrelevant: nothing is present -- the other side's value arrays are taken)
        if a.ksort is None and b.ksort is not None and a.val is None:
            a = VMap(b.ksort, z3.K(b.ksort, z3.BoolVal(False)), b.val, a.count, a.cap, a.enum)
        elif b.ksort is None and a.ksort is not None and b.val is None:
            b = VMap(a.ksort, z3.K(a.ksort, z3.BoolVal(False)), a.val, b.count, b.cap, b.enum)
        return VMap(a.ksort, merge(g, a.present, b.present), merge(g, a.val, b.val), merge(g, a.count, b.count), a.cap, a.enum if a.enum is not None else b.enum)
    if isinstance(a, VClosure):
        if a.name != b.name:
            return VPoison("merge of different closures")
        return VClosure(a.name, [merge(g, x, y) for x, y in zip(a.caps, b.caps)])
    if isinstance(a, VBlob):
        return VBlob(merge(g, a.id, b.id), merge(g, a.len, b.len))
    if isinstance(a, VBytes):
        def _same_shape(x, y):
            return x[0] == y[0] and x[0] != "alt" and x[1].sort() == y[1].sort() and (x[0] != "s" or len(x[2]) == len(y[2]))

        def _mc(x, y):
            if x[0] == "b":
                return ("b", merge(g, x[1], y[1]))
            if x[0] == "s":
                return ("s", merge(g, x[1], y[1]), tuple(merge(g, p, q) for p, q in zip(x[2], y[2])))
            return ("o", merge(g, x[1], y[1]), merge(g, x[2], y[2]))

        # common prefix of equal shape is merged chunk by chunk; differently shaped remainders become a guarded alternative ('alt', g, restA, restB)
        n = 0
        while n < len(a.chunks) and n < len(b.chunks) and _same_shape(a.chunks[n], b.chunks[n]):
            n += 1
        out = [_mc(x, y) for x, y in zip(a.chunks[:n], b.chunks[:n])]
        if n < len(a.chunks) or n < len(b.chunks):
            out.append(("alt", g, tuple(a.chunks[n:]), tuple(b.chunks[n:])))
        return VBytes(out)
    if isinstance(a, VCoroutine):
        if a.name != b.name:
            return VPoison("merge of different coroutines")
        vs = {}
        for k in set(a.variants) | set(b.variants):
            pa, pb = a.variants.get(k), b.variants.get(k)
            if pa is None or pb is None:
                vs[k] = pa if pb is None else pb
            else:
                n = max(len(pa), len(pb))
                pa = tuple(pa) + (None,) * (n - len(pa))
                pb = tuple(pb) + (None,) * (n - len(pb))
                vs[k] = tuple((x if y is None else y if x is None else merge(g, x, y)) for x, y in zip(pa, pb))
        return VCoroutine(a.name, a.creator, [merge(g, x, y) for x, y in zip(a.caps, b.caps)], merge(g, a.idx, b.idx), vs)
    if isinstance(a, VIter):
        if a.kind != b.kind or set(a.a) != set(b.a):
            return VPoison("merge of different iterators")
        d = {}
        for k in a.a:
            x, y = a.a[k], b.a[k]
            if x is y or (not is_z3(x) and not isinstance(x, (VStruct, VEnum, VRef, VSeq, VArr, VStr, VMap, VClosure, VIter)) and x == y):
                d[k] = x
            else:
                if isinstance(x, (int, str, bool)) or isinstance(y, (int, str, bool)):
                    return VPoison("merge of iterators at different positions")
                m = merge(g, x, y)
                if isinstance(m, VPoison):
                    return m
                d[k] = m
        return VIter(a.kind, **d)
    if isinstance(a, VFn):
        return a if a.name == b.name else VPoison("merge of different fn items")
    if isinstance(a, VOpaque):
        return a
    raise SymError(f"merge: unsupported {a!r}")


def flatten(v, out=None):
    """list of scalar leaves (deterministic order)"""
    if out is None:
        out = []
    if is_z3(v):
        out.append(v)
    elif isinstance(v, VStruct):
        for x in v.f:
            flatten(x, out)
    elif isinstance(v, VEnum):
        out.append(v.idx)
        for k in sorted(v.pay):
            for x in v.pay[k]:
                flatten(x, out)
    elif isinstance(v, VSeq):
        out.append(v.len)
        for x in v.elems:
            flatten(x, out)
    elif isinstance(v, VArr):
        for x in v.elems:
            flatten(x, out)
    elif isinstance(v, VStr):
        out.append(v.id)
    elif isinstance(v, VClosure):
        for x in v.caps:
            flatten(x, out)
    elif isinstance(v, VBlob):
        out.append(v.id)
        out.append(v.len)
    elif isinstance(v, VBytes):
        for c in v.chunks:
            if c[0] == "alt":
                # a guarded alternative of two differently shaped remainders: one leaf, each side tagged with its width and padded to a common width
                ka = flatten(VBytes(c[2]))
                kb = flatten(VBytes(c[3]))
                ca = z3.Concat(*ka) if len(ka) > 1 else (ka[0] if ka else z3.BitVecVal(0, 1))
                cb = z3.Concat(*kb) if len(kb) > 1 else (kb[0] if kb else z3.BitVecVal(0, 1))
                w = max(ca.size(), cb.size())
                pa = z3.Concat(z3.BitVecVal(ca.size(), 16), z3.ZeroExt(w - ca.size(), ca))
                pb = z3.Concat(z3.BitVecVal(cb.size(), 16), z3.ZeroExt(w - cb.size(), cb))
                out.append(z3.If(c[1], pa, pb))
                continue
            out.append(c[1])
            if c[0] == "o":
                out.append(c[2])
            elif c[0] == "s":
                out.extend(c[2])
    elif isinstance(v, VCoroutine):
        out.append(v.idx)
        for x in v.caps:
            flatten(x, out)
    return out


def key_bv(v):
    """encode a key value (ints / byte arrays / small structs / abstract strings) as one bit-vector"""
    leaves = flatten(v)
    parts = []
    for l in leaves:
        if z3.is_bool(l):
            parts.append(z3.If(l, bv(1, 1), bv(0, 1)))
        elif z3.is_bv(l):
            parts.append(l)
        else:
            raise SymError("key with non-bitvector leaf")
    if not parts:
        return bv(0, 1)
    if len(parts) == 1:
        return parts[0]
    return z3.simplify(z3.Concat(*parts))
