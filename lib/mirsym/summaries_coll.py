"""Summaries for collections: net addresses, slices / ranges, Vec, LruCache / HashMap / HashSet, iterators, sort."""
import re

import z3

from summaries import (OPTION, ORDERING, RESULT, _adopt, deref, is_variant, none, ok, option, ordering, some, summary)
from ty import parse_type
from values import (UNIT, EnumInfo, SymError, VArr, VClosure, VEnum, VFn, VIter, VMap, VOpaque, VPoison, VRef, VSeq, VStr, VStruct, as_int, bv,
                    is_z3, key_bv, merge, simp, vmap)

# ------------------------------------------------------------------------------------- net addresses (byte arrays)


@summary(r"^(std::net::)?Ipv6Addr::octets$|^(std::net::)?Ipv4Addr::octets$", "Ipv4Addr/Ipv6Addr::octets (address = its byte array)")
def _octets(eng, st, args, dty, callee, m):
    return deref(eng, st, args[0])


@summary(r"^<(std::net::)?Ipv6Addr as From<\[u8; 16\]>>::from$|^<(std::net::)?Ipv4Addr as From<\[u8; 4\]>>::from$", "IpvXAddr::from(bytes)")
def _addr_from(eng, st, args, dty, callee, m):
    return args[0]


@summary(r"^(std::net::)?Ipv4Addr::new$", "Ipv4Addr::new(a,b,c,d)")
def _v4_new(eng, st, args, dty, callee, m):
    return VArr(args)


@summary(r"^(std::net::)?Ipv4Addr::to_ipv6_mapped$", "Ipv4Addr::to_ipv6_mapped = ::ffff:a.b.c.d")
def _v4_mapped(eng, st, args, dty, callee, m):
    a = deref(eng, st, args[0])
    return VArr([bv(0, 8)] * 10 + [bv(0xFF, 8)] * 2 + list(a.elems))


@summary(r"^(std::net::)?Ipv6Addr::new$", "Ipv6Addr::new(8 segments)")
def _v6_new(eng, st, args, dty, callee, m):
    out = []
    for s in args:
        out.append(simp(z3.Extract(15, 8, s)))
        out.append(simp(z3.Extract(7, 0, s)))
    return VArr(out)


@summary(r"^(std::net::)?Ipv6Addr::segments$", "Ipv6Addr::segments")
def _v6_segments(eng, st, args, dty, callee, m):
    a = deref(eng, st, args[0])
    return VArr([simp(z3.Concat(a.elems[2 * i], a.elems[2 * i + 1])) for i in range(8)])


@summary(r"^<(std::net::)?(Ipv6Addr|Ipv4Addr) as PartialEq>::(eq|ne)$", "address equality (bytewise)")
def _addr_eq(eng, st, args, dty, callee, m):
    a = deref(eng, st, args[0])
    b = deref(eng, st, args[1])
    e = simp(key_bv(a) == key_bv(b))
    return e if m.group(3) == "eq" else simp(z3.Not(e))


IPADDR = EnumInfo("IpAddr", ["V4", "V6"])
_S64 = z3.BitVecSort(64)
ADDR_KIND = z3.Function("addr_text_kind", _S64, z3.BitVecSort(8))  # 0: "ip:port" socket address, 1: bare ip, other: neither
ADDR_IS_V6 = z3.Function("addr_text_is_v6", _S64, z3.BoolSort())
ADDR_V6 = z3.Function("addr_text_v6", _S64, z3.BitVecSort(128))
ADDR_V4 = z3.Function("addr_text_v4", _S64, z3.BitVecSort(32))
ADDR_PORT = z3.Function("addr_text_port", _S64, z3.BitVecSort(16))


def ip_of_text(sid):
    """the IpAddr an abstract address string denotes: uninterpreted functions of the string identity"""
    v6 = ADDR_V6(sid)
    v4 = ADDR_V4(sid)
    a6 = VArr([simp(z3.Extract(127 - 8 * i, 120 - 8 * i, v6)) for i in range(16)])
    a4 = VArr([simp(z3.Extract(31 - 8 * i, 24 - 8 * i, v4)) for i in range(4)])
    return VEnum(IPADDR, z3.If(ADDR_IS_V6(sid), bv(1, 8), bv(0, 8)), {0: (a4,), 1: (a6,)})


@summary(r"^core::str::<impl str>::parse::<(std::net::)?(SocketAddr|IpAddr)>$",
         "str::parse::<SocketAddr|IpAddr>: outcome and address are uninterpreted functions of the abstract string (a text is a socket address, a bare ip, or neither)")
def _parse_addr(eng, st, args, dty, callee, m):
    s = deref(eng, st, args[0])
    if not isinstance(s, VStr):
        raise SymError(f"parse of a non-string {s!r}")
    ip = ip_of_text(s.id)
    if m.group(2) == "SocketAddr":
        good = simp(ADDR_KIND(s.id) == bv(0, 8))
        val = VStruct([ip, ADDR_PORT(s.id)], "SocketAddr")
    else:
        good = simp(ADDR_KIND(s.id) == bv(1, 8))
        val = ip
    return VEnum(RESULT, z3.If(good, bv(0, 8), bv(1, 8)), {0: (val,), 1: (VOpaque("AddrParseError"),)})


@summary(r"^(std::net::)?SocketAddr::(ip|port)$", "SocketAddr::ip/port of a parsed address")
def _sockaddr_ip(eng, st, args, dty, callee, m):
    a = deref(eng, st, args[0])
    if not (isinstance(a, VStruct) and a.ty == "SocketAddr"):
        raise SymError(f"SocketAddr accessor on {a!r}")
    return a.f[0] if m.group(2) == "ip" else a.f[1]


# ------------------------------------------------------------------------------------- ranges / slices / arrays


def _range_bounds(rng, n):
    """(start, end) python ints for a Range/RangeTo/RangeFrom/RangeFull value, n = container length"""
    ty = rng.ty or ""
    if "RangeTo" in ty and "Inclusive" not in ty:
        e = as_int(rng.f[0])
        if e is None:
            raise SymError("symbolic range end")
        return 0, e
    if "RangeFrom" in ty:
        s = as_int(rng.f[0])
        if s is None:
            raise SymError("symbolic range start")
        return s, n
    if "RangeFull" in ty:
        return 0, n
    if "RangeInclusive" in ty or "RangeToInclusive" in ty:
        raise SymError("inclusive range index")
    s, e = as_int(rng.f[0]), as_int(rng.f[1])
    if s is None or e is None:
        raise SymError("symbolic range bounds")
    return s, e


@summary(r"^<\[.*\] as (std::ops::)?(Index|IndexMut)<(std::ops::)?Range(To|From|Full)?(<usize>)?>>::(index|index_mut)$|^core::slice::index::<impl (std::ops::)?(Index|IndexMut)<(std::ops::)?Range(To|From|Full)?(<usize>)?> for \[.*\]>::(index|index_mut)$|^<Vec<.*> as (std::ops::)?(Index|IndexMut)<(std::ops::)?Range(To|From|Full)?(<usize>)?>>::(index|index_mut)$",
         "array/slice[range] -> sub-slice reference (concrete bounds; bounds check is an obligation)")
def _index_range(eng, st, args, dty, callee, m):
    r = args[0]
    cont = eng.load(st, r)
    if not isinstance(cont, (VSeq, VArr)):
        raise SymError("range index on " + repr(cont))
    n = len(cont.elems)
    a, b = _range_bounds(args[1], n)
    if isinstance(cont, VSeq):
        eng.oblige(st, "panic:slice range out of bounds", z3.ULT(cont.len, bv(b, 64)))
    elif b > n or a > b:
        eng.oblige(st, "panic:array range out of bounds", z3.BoolVal(True))
        return None
    return VRef(r.root, r.path + (("rng", a, b),), True)


@summary(r"^core::slice::<impl \[.*\]>::copy_from_slice$", "slice::copy_from_slice (length mismatch is an obligation)")
def _copy_from_slice(eng, st, args, dty, callee, m):
    dst = eng.load(st, args[0])
    src = eng.load(st, args[1])
    if not isinstance(dst, (VSeq, VArr)) or not isinstance(src, (VSeq, VArr)):
        raise SymError("copy_from_slice on non-sequences")
    dl = dst.len if isinstance(dst, VSeq) else bv(len(dst.elems), 64)
    sl = src.len if isinstance(src, VSeq) else bv(len(src.elems), 64)
    eng.oblige(st, "panic:copy_from_slice length mismatch", dl != sl)
    n = min(len(dst.elems), len(src.elems))
    new = list(dst.elems)
    for i in range(n):
        new[i] = src.elems[i] if as_int(sl) is not None else merge(z3.ULT(bv(i, 64), sl), src.elems[i], dst.elems[i])
    eng.store(st, args[0], VSeq(new, dst.len) if isinstance(dst, VSeq) else VArr(new))
    return UNIT


@summary(r"^core::slice::<impl \[.*\]>::(len|is_empty)$|^Vec::<.*>::(len|is_empty)$|^core::array::<impl \[.*\]>::len$", "len / is_empty")
def _len(eng, st, args, dty, callee, m):
    v = deref(eng, st, args[0])
    if isinstance(v, VSeq):
        ln = v.len
    elif isinstance(v, VArr):
        ln = bv(len(v.elems), 64)
    else:
        raise SymError("len of " + repr(v))
    if callee.endswith("is_empty"):
        return simp(ln == 0)
    return ln


@summary(r"^<\[.*\] as PartialEq>::(eq|ne)$|^core::array::equality::<impl PartialEq<\[.*\]> for \[.*\]>::(eq|ne)$|^<\[.*\] as PartialEq<\[.*\]>>::(eq|ne)$", "array equality (elementwise)")
def _arr_eq(eng, st, args, dty, callee, m):
    a = deref(eng, st, args[0])
    b = deref(eng, st, args[1])
    if not isinstance(a, VArr) or not isinstance(b, VArr) or len(a.elems) != len(b.elems):
        raise SymError("array eq on " + repr(a))
    e = simp(key_bv(a) == key_bv(b))
    return e if callee.endswith("eq") else simp(z3.Not(e))


@summary(r"^<\[u8; \d+\] as (std::cmp::)?(Ord|PartialOrd)>::(cmp|partial_cmp)$|^<\[u8; \d+\] as (Ord|PartialOrd)>::(cmp|partial_cmp)$|^core::array::<impl (Ord|PartialOrd) for \[u8; \d+\]>::(cmp|partial_cmp)$", "byte-array ordering (lexicographic = big-endian unsigned)")
def _arr_cmp(eng, st, args, dty, callee, m):
    a = deref(eng, st, args[0])
    b = deref(eng, st, args[1])
    ka, kb = key_bv(a), key_bv(b)
    o = ordering(z3.ULT(ka, kb), ka == kb)
    return o if callee.endswith("::cmp") else some(o)


# ------------------------------------------------------------------------------------- maps


def _map_prepare(eng, m, k):
    """make sure the (possibly lazily empty) map has a key sort / present array"""
    if m.ksort is None:
        return VMap(k.sort(), z3.K(k.sort(), z3.BoolVal(False)), None, m.count if m.count is not None else bv(0, 64), m.cap, m.enum)
    if m.ksort != k.sort():
        raise SymError(f"map key sort mismatch {m.ksort} vs {k.sort()}")
    return m


def _load_map(eng, st, ref):
    m = eng.load(st, ref)
    n = 0
    while isinstance(m, VRef) and n < 4:
        ref = m
        m = eng.load(st, ref)
        n += 1
    if not isinstance(m, VMap):
        raise SymError(f"expected a map, found {m!r}")
    return ref, m


WIDE = 16384


def _norm_key(k):
    """keys built from abstract byte strings vary in width with the shape of the bytes: normalise them to one width
    (width tag + zero padding) so that differently shaped keys are simply different keys"""
    w = k.size()
    if w <= 512:
        return k
    if w > WIDE:
        raise SymError("map key wider than the modelled maximum")
    return simp(z3.Concat(bv(w, 16), z3.ZeroExt(WIDE - w, k)))


def _key_of(eng, st, kref):
    return _norm_key(key_bv(deref(eng, st, kref)))


def _map_select(m, k):
    if m.val is None:
        return None
    return vmap(m.val, lambda a: z3.Select(a, k))


def _map_store(m, k, v):
    from engine import _zip_store

    if m.val is None:
        arrs = vmap(v, lambda leaf: z3.K(m.ksort, leaf))
    else:
        arrs = m.val
    return _zip_store(arrs, v, k)


MAP_RX = r"(LruCache|lru::LruCache|HashMap|std::collections::HashMap|BTreeMap|std::collections::BTreeMap)::<.*>::"


@summary(r"^" + MAP_RX + r"(new|with_capacity|unbounded)$|^<(HashMap|std::collections::HashMap)<.*> as Default>::default$", "map constructor: empty map (capacity remembered for LruCache)")
def _map_new(eng, st, args, dty, callee, m):
    cap = args[0] if (args and "LruCache" in callee and is_z3(args[0])) else None
    return VMap(None, None, None, bv(0, 64), cap)


@summary(r"^" + MAP_RX + r"(get_mut|get|peek|peek_mut)(::<.*>)?$", "map lookup -> Option<&V> (LRU recency not modelled)")
def _map_get(eng, st, args, dty, callee, m):
    ref, mp = _load_map(eng, st, args[0])
    k = _key_of(eng, st, args[1])
    mp2 = _map_prepare(eng, mp, k)
    if mp2 is not mp:
        eng.store(st, ref, mp2)
    pres = simp(z3.Select(mp2.present, k))
    if z3.is_false(pres) or mp2.val is None:
        return none()
    return option(pres, VRef(ref.root, ref.path + (("k", k),), True))


@summary(r"^" + MAP_RX + r"(contains|contains_key)(::<.*>)?$", "map contains")
def _map_contains(eng, st, args, dty, callee, m):
    ref, mp = _load_map(eng, st, args[0])
    k = _key_of(eng, st, args[1])
    mp2 = _map_prepare(eng, mp, k)
    return simp(z3.Select(mp2.present, k))


@summary(r"^" + MAP_RX + r"(put|insert|push)$", "map insert -> Option<V> previous value; LruCache eviction at capacity not modelled (count < cap assumed)")
def _map_put(eng, st, args, dty, callee, m):
    ref, mp = _load_map(eng, st, args[0])
    kv = args[1]
    k = _norm_key(key_bv(deref(eng, st, kv) if isinstance(kv, VRef) else kv))
    v = args[2]
    mp = _map_prepare(eng, mp, k)
    pres = simp(z3.Select(mp.present, k))
    old = _map_select(mp, k)
    newval = _map_store(mp, k, v)
    cnt = simp(mp.count + z3.If(pres, bv(0, 64), bv(1, 64)))
    if mp.cap is not None:
        eng.assume(z3.Implies(z3.And(st.pc, z3.Not(pres)), z3.ULT(mp.count, mp.cap)))
    eng.store(st, ref, VMap(mp.ksort, simp(z3.Store(mp.present, k, z3.BoolVal(True))), newval, cnt, mp.cap, mp.enum))
    if old is None or z3.is_false(pres):
        return none()
    return option(pres, old)


@summary(r"^" + MAP_RX + r"(pop|remove)(::<.*>)?$", "map remove -> Option<V>")
def _map_pop(eng, st, args, dty, callee, m):
    ref, mp = _load_map(eng, st, args[0])
    k = _key_of(eng, st, args[1])
    mp = _map_prepare(eng, mp, k)
    pres = simp(z3.Select(mp.present, k))
    old = _map_select(mp, k)
    cnt = simp(mp.count - z3.If(pres, bv(1, 64), bv(0, 64)))
    eng.store(st, ref, VMap(mp.ksort, simp(z3.Store(mp.present, k, z3.BoolVal(False))), mp.val, cnt, mp.cap, mp.enum))
    if old is None or z3.is_false(pres):
        return none()
    return option(pres, old)


@summary(r"^" + MAP_RX + r"(len|is_empty)$", "map len (ghost counter)")
def _map_len(eng, st, args, dty, callee, m):
    ref, mp = _load_map(eng, st, args[0])
    if callee.endswith("is_empty"):
        return simp(mp.count == 0)
    return mp.count


@summary(r"^" + MAP_RX + r"clear$", "map clear")
def _map_clear(eng, st, args, dty, callee, m):
    ref, mp = _load_map(eng, st, args[0])
    eng.store(st, ref, VMap(mp.ksort, z3.K(mp.ksort, z3.BoolVal(False)) if mp.ksort is not None else None, mp.val, bv(0, 64), mp.cap, mp.enum))
    return UNIT


# HashMap entry API:  map.entry(k).or_insert(v) / or_insert_with(f) / or_default()
@summary(r"^(HashMap|std::collections::HashMap)::<.*>::entry$", "HashMap::entry -> (map ref, key) handle")
def _map_entry(eng, st, args, dty, callee, m):
    ref, mp = _load_map(eng, st, args[0])
    return VStruct([ref, args[1]], "Entry")


@summary(r"^(std::collections::hash_map::)?Entry::<.*>::(or_insert|or_insert_with|or_default)(::<.*>)?$", "Entry::or_insert*: insert default when absent, return &mut V")
def _entry_or_insert(eng, st, args, dty, callee, m):
    ent = args[0]
    ref, kv = ent.f
    ref, mp = _load_map(eng, st, ref)
    k = _norm_key(key_bv(kv))
    mp = _map_prepare(eng, mp, k)
    pres = simp(z3.Select(mp.present, k))
    kind = m.group(2)
    if kind == "or_insert":
        dv = args[1]
    elif kind == "or_insert_with":
        s2, dv = eng.call_closure(st, args[1], [])
        _adopt(st, s2)
    else:
        # V::default() of the map's value type (last generic argument of Entry<'_, K, V>)
        from mir import split_top

        gm = re.search(r"Entry::<(.*)>::or_default", callee)
        vty = split_top(gm.group(1))[-1].strip() if gm else None
        if not vty:
            raise SymError("Entry::or_default: cannot determine the value type")
        r = eng.dispatch(st, f"<{vty} as Default>::default", [], None, None, None)
        if r is None:
            raise SymError("Default::default diverges")
        s2, dv = r
        _adopt(st, s2)
    cur = _map_select(mp, k)
    newv = dv if (cur is None or z3.is_false(pres)) else merge(pres, cur, dv)
    newval = _map_store(mp, k, newv)
    cnt = simp(mp.count + z3.If(pres, bv(0, 64), bv(1, 64)))
    eng.store(st, ref, VMap(mp.ksort, simp(z3.Store(mp.present, k, z3.BoolVal(True))), newval, cnt, mp.cap, mp.enum))
    return VRef(ref.root, ref.path + (("k", k),), True)


# ------------------------------------------------------------------------------------- hash sets (a map without values)

SET_RX = r"(HashSet|std::collections::HashSet|BTreeSet|std::collections::BTreeSet)::<.*>::"


@summary(r"^" + SET_RX + r"(new|with_capacity)$|^<(HashSet|std::collections::HashSet)<.*> as Default>::default$", "set constructor: empty set")
def _set_new(eng, st, args, dty, callee, m):
    return VMap(None, None, None, bv(0, 64), None)


@summary(r"^" + SET_RX + r"insert$", "HashSet::insert -> true iff the value was not yet present")
def _set_insert(eng, st, args, dty, callee, m):
    ref, mp = _load_map(eng, st, args[0])
    kv = args[1]
    k = _norm_key(key_bv(deref(eng, st, kv) if isinstance(kv, VRef) else kv))
    mp = _map_prepare(eng, mp, k)
    pres = simp(z3.Select(mp.present, k))
    cnt = simp(mp.count + z3.If(pres, bv(0, 64), bv(1, 64)))
    eng.store(st, ref, VMap(mp.ksort, simp(z3.Store(mp.present, k, z3.BoolVal(True))), None, cnt, mp.cap, mp.enum))
    return simp(z3.Not(pres))


@summary(r"^" + SET_RX + r"contains(::<.*>)?$", "HashSet::contains")
def _set_contains(eng, st, args, dty, callee, m):
    ref, mp = _load_map(eng, st, args[0])
    k = _key_of(eng, st, args[1])
    mp2 = _map_prepare(eng, mp, k)
    return simp(z3.Select(mp2.present, k))


@summary(r"^" + SET_RX + r"remove(::<.*>)?$", "HashSet::remove -> true iff the value was present")
def _set_remove(eng, st, args, dty, callee, m):
    ref, mp = _load_map(eng, st, args[0])
    k = _key_of(eng, st, args[1])
    mp = _map_prepare(eng, mp, k)
    pres = simp(z3.Select(mp.present, k))
    cnt = simp(mp.count - z3.If(pres, bv(1, 64), bv(0, 64)))
    eng.store(st, ref, VMap(mp.ksort, simp(z3.Store(mp.present, k, z3.BoolVal(False))), None, cnt, mp.cap, mp.enum))
    return pres


@summary(r"^(std|core|alloc)::slice::<impl \[.*\]>::to_vec$", "slice::to_vec: a Vec with the same elements")
def _to_vec(eng, st, args, dty, callee, m):
    v = deref(eng, st, args[0])
    if isinstance(v, VSeq):
        return VSeq(list(v.elems), v.len)
    if isinstance(v, VArr):
        return VSeq(list(v.elems), bv(len(v.elems), 64))
    raise SymError("to_vec of " + repr(v))
