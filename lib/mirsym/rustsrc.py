"""Struct / enum declarations from the crate's source (field and variant order as MIR numbers them)."""
import os
import re


def _strip_comments(src):
    out = []
    i = 0
    n = len(src)
    while i < n:
        c = src[i]
        if src.startswith("//", i):
            j = src.find("\n", i)
            if j < 0:
                break
            i = j
            continue
        if src.startswith("/*", i):
            depth = 1
            i += 2
            while i < n and depth:
                if src.startswith("/*", i):
                    depth += 1
                    i += 2
                elif src.startswith("*/", i):
                    depth -= 1
                    i += 2
                else:
                    i += 1
            continue
        if c == '"':
            j = i + 1
            while j < n:
                if src[j] == "\\":
                    j += 2
                    continue
                if src[j] == '"':
                    break
                j += 1
            out.append('""')
            i = j + 1
            continue
        if c == "r" and re.match(r'r#*"', src[i : i + 6]) and (i == 0 or not (src[i - 1].isalnum() or src[i - 1] == "_")):
            m = re.match(r'r(#*)"', src[i:])
            close = '"' + m.group(1)
            j = src.find(close, i + len(m.group(0)))
            out.append('""')
            i = (j + len(close)) if j >= 0 else n
            continue
        if c == "'" and i + 2 < n:
            m = re.match(r"'(\\.[^']*|[^\\'])'", src[i : i + 12])
            if m:
                out.append("' '")
                i += len(m.group(0))
                continue
        out.append(c)
        i += 1
    return "".join(out)


def _match(src, i, op="{", cl="}"):
    d = 0
    j = i
    while j < len(src):
        if src[j] == op:
            d += 1
        elif src[j] == cl:
            d -= 1
            if d == 0:
                return j
        j += 1
    return -1


def _split_top(s):
    out = []
    d = 0
    cur = []
    for i, c in enumerate(s):
        if c in "([{<":
            d += 1
        elif c in ")]}":
            d -= 1
        elif c == ">" and not (i > 0 and s[i - 1] in "-="):
            d -= 1
        if c == "," and d == 0:
            out.append("".join(cur).strip())
            cur = []
        else:
            cur.append(c)
    t = "".join(cur).strip()
    if t:
        out.append(t)
    return out


def _strip_attrs(s):
    s = s.strip()
    while s.startswith("#["):
        j = _match(s, 1, "[", "]")
        s = s[j + 1:].strip()
    return s


class Adt:
    def __init__(self, kind, name, module, file, line):
        self.kind = kind  # struct | enum
        self.name = name
        self.module = module
        self.file = file
        self.line = line
        self.fields = []  # struct: [(name or idx, type)]
        self.variants = []  # enum: [(name, [(fname, type)], discr or None)]

    def field_index(self, fname):
        for i, (n, _) in enumerate(self.fields):
            if n == fname:
                return i
        raise KeyError(f"{self.name} has no field {fname}")

    def variant_index(self, vname):
        for i, v in enumerate(self.variants):
            if v[0] == vname:
                return i
        raise KeyError(f"{self.name} has no variant {vname}")

    def __repr__(self):
        return f"<{self.kind} {self.module}::{self.name}>"


def _parse_fields(body, tuple_like):
    fields = []
    for idx, f in enumerate(_split_top(body)):
        f = _strip_attrs(f)
        f = re.sub(r"^pub(\([^)]*\))?\s+", "", f)
        if tuple_like:
            fields.append((str(idx), f.strip()))
        else:
            m = re.match(r"(?:r#)?([A-Za-z_][A-Za-z0-9_]*)\s*:\s*(.*)$", f, re.S)
            if m:
                fields.append((m.group(1), " ".join(m.group(2).split())))
    return fields


def load(repo):
    """returns {name: [Adt,...]}"""
    adts = {}
    srcdir = os.path.join(repo, "src")
    for root, dirs, files in os.walk(srcdir):
        dirs.sort()
        for fn in sorted(files):
            if not fn.endswith(".rs"):
                continue
            path = os.path.join(root, fn)
            rel = os.path.relpath(path, srcdir)
            module = rel[:-3].replace("/", "::")
            if module.endswith("::mod"):
                module = module[:-5]
            if module in ("lib", "main"):
                module = ""
            raw = open(path, errors="replace").read()
            src = _strip_comments(raw)
            for m in re.finditer(r"\b(struct|enum)\s+([A-Za-z_][A-Za-z0-9_]*)\s*", src):
                kind, name = m.group(1), m.group(2)
                i = m.end()
                # skip generics
                if i < len(src) and src[i] == "<":
                    d = 0
                    while i < len(src):
                        if src[i] == "<":
                            d += 1
                        elif src[i] == ">" and src[i - 1] not in "-=":
                            d -= 1
                            if d == 0:
                                i += 1
                                break
                        i += 1
                rest = src[i:]
                lead = re.match(r"\s*(where[^{;(]*)?", rest)
                k = i + lead.end()
                if k >= len(src):
                    continue
                line = src.count("\n", 0, m.start()) + 1
                a = Adt(kind, name, module, rel, line)
                if kind == "struct":
                    if src[k] == "{":
                        e = _match(src, k)
                        a.fields = _parse_fields(src[k + 1 : e], False)
                    elif src[k] == "(":
                        e = _match(src, k, "(", ")")
                        a.fields = _parse_fields(src[k + 1 : e], True)
                    elif src[k] == ";":
                        a.fields = []
                    else:
                        continue
                else:
                    if src[k] != "{":
                        continue
                    e = _match(src, k)
                    for v in _split_top(src[k + 1 : e]):
                        v = _strip_attrs(v)
                        if not v:
                            continue
                        vm = re.match(r"([A-Za-z_][A-Za-z0-9_]*)\s*(.*)$", v, re.S)
                        if not vm:
                            continue
                        vname, vrest = vm.group(1), vm.group(2).strip()
                        discr = None
                        vf = []
                        if vrest.startswith("{"):
                            ee = _match(vrest, 0)
                            vf = _parse_fields(vrest[1:ee], False)
                        elif vrest.startswith("("):
                            ee = _match(vrest, 0, "(", ")")
                            vf = _parse_fields(vrest[1:ee], True)
                        elif vrest.startswith("="):
                            try:
                                discr = int(vrest[1:].strip().replace("_", ""), 0)
                            except ValueError:
                                discr = None
                        a.variants.append((vname, vf, discr))
                adts.setdefault(name, []).append(a)
    return adts


BUILTIN_ENUMS = {
    "Option": ["None", "Some"],
    "Result": ["Ok", "Err"],
    "Ordering": ["Less", "Equal", "Greater"],  # discriminants -1,0,1 handled specially
    "ControlFlow": ["Continue", "Break"],
    "IpAddr": ["V4", "V6"],
    "SocketAddr": ["V4", "V6"],
    "Bound": ["Included", "Excluded", "Unbounded"],
    "Poll": ["Ready", "Pending"],
    "Cow": ["Borrowed", "Owned"],
    "LevelInner": ["Trace", "Debug", "Info", "Warn", "Error"],  # tracing_core::metadata::LevelInner
}
