"""Parser for the text produced by `rustc -Zunpretty=mir` (nightly pinned in this image).

Fails closed: anything not recognised raises MirError, which the checks turn into exit 2 (inconclusive).
"""
import re


class MirError(Exception):
    pass


# ----------------------------------------------------------------------------- low-level text helpers

OPEN = {"(": ")", "[": "]", "{": "}", "<": ">"}
CLOSE = {v: k for k, v in OPEN.items()}


def _skip_string(s, i):
    """s[i] == '"' (or b" prefix handled by caller); return index after closing quote."""
    assert s[i] == '"'
    i += 1
    while i < len(s):
        c = s[i]
        if c == "\\":
            i += 2
            continue
        if c == '"':
            return i + 1
        i += 1
    raise MirError("unterminated string in " + s[:80])


def split_top(s, sep=","):
    """Split at top-level separators, respecting () [] {} <> and string literals ('->', '=>' are not brackets)."""
    out = []
    depth = 0
    cur = []
    i = 0
    n = len(s)
    while i < n:
        c = s[i]
        if c == '"':
            j = _skip_string(s, i)
            cur.append(s[i:j])
            i = j
            continue
        if c == "'" and i + 2 < n and (s[i + 2] == "'" or (s[i + 1] == "\\" and "'" in s[i + 2 : i + 6])):
            # char literal like 'a' or '\n' or '\u{1f}'
            j = s.index("'", i + 2 if s[i + 1] != "\\" else i + 3)
            cur.append(s[i : j + 1])
            i = j + 1
            continue
        if c in "([{":
            depth += 1
        elif c in ")]}":
            depth -= 1
        elif c == "<":
            depth += 1
        elif c == ">":
            if i > 0 and s[i - 1] in "-=":
                pass
            else:
                depth -= 1
        if c == sep and depth == 0:
            out.append("".join(cur).strip())
            cur = []
        else:
            cur.append(c)
        i += 1
    last = "".join(cur).strip()
    if last:
        out.append(last)
    return out


def match_paren(s, i):
    """s[i] is an opening ( [ {; returns index of the matching closer (strings respected; <> ignored)."""
    op = s[i]
    cl = OPEN[op]
    depth = 0
    j = i
    n = len(s)
    while j < n:
        c = s[j]
        if c == '"':
            j = _skip_string(s, j)
            continue
        if c == op:
            depth += 1
        elif c == cl:
            depth -= 1
            if depth == 0:
                return j
        j += 1
    raise MirError("unbalanced " + op + " in " + s[:120])


# ----------------------------------------------------------------------------- AST


class Place:
    __slots__ = ("local", "proj")

    def __init__(self, local, proj):
        self.local = local  # int
        self.proj = proj  # tuple of projections

    def __repr__(self):
        return f"_{self.local}{''.join(map(str, self.proj))}"


# projections: ('deref',) ('field', idx, type) ('downcast', name) ('index', local) ('constindex', i, min, from_end)
# ('subslice', a, b, from_end)


def parse_place(s):
    s = s.strip()
    p, rest = _parse_place_prefix(s)
    if rest.strip():
        raise MirError(f"trailing text after place: {s!r} -> {rest!r}")
    return p


def _parse_place_prefix(s):
    """Parse a place at the start of s; returns (Place, rest)."""
    if s.startswith("_"):
        m = re.match(r"_(\d+)", s)
        if not m:
            raise MirError("bad local " + s[:40])
        base = Place(int(m.group(1)), ())
        rest = s[m.end():]
    elif s.startswith("("):
        end = match_paren(s, 0)
        inner = s[1:end]
        rest = s[end + 1:]
        if inner.startswith("*"):
            ip = parse_place(inner[1:])
            base = Place(ip.local, ip.proj + (("deref",),))
        else:
            ip, r2 = _parse_place_prefix(inner)
            r2s = r2
            if r2s.startswith(" as "):
                name = r2s[4:].strip()
                base = Place(ip.local, ip.proj + (("downcast", name),))
            elif r2s.startswith("."):
                m = re.match(r"\.(\d+): ", r2s)
                if not m:
                    raise MirError("bad field projection " + s[:120])
                ty = r2s[m.end():]
                base = Place(ip.local, ip.proj + (("field", int(m.group(1)), ty),))
            else:
                raise MirError("bad parenthesised place " + s[:120])
    else:
        raise MirError("not a place: " + s[:80])
    # index projections
    while rest.startswith("["):
        end = match_paren(rest, 0)
        idx = rest[1:end]
        rest = rest[end + 1:]
        m = re.fullmatch(r"_(\d+)", idx)
        if m:
            base = Place(base.local, base.proj + (("index", int(m.group(1))),))
            continue
        m = re.fullmatch(r"(-?)(\d+) of (\d+)", idx)
        if m:
            base = Place(base.local, base.proj + (("constindex", int(m.group(2)), int(m.group(3)), m.group(1) == "-"),))
            continue
        m = re.fullmatch(r"(\d+):(-?)(\d*)", idx)
        if m:
            base = Place(base.local, base.proj + (("subslice", int(m.group(1)), int(m.group(3) or 0), m.group(2) == "-"),))
            continue
        raise MirError("unsupported index projection [" + idx + "]")
    return base, rest


class Operand:
    __slots__ = ("kind", "place", "const")

    def __init__(self, kind, place=None, const=None):
        self.kind = kind  # 'copy' | 'move' | 'const'
        self.place = place
        self.const = const  # raw text after 'const '

    def __repr__(self):
        return f"{self.kind} {self.place if self.place is not None else self.const}"


def parse_operand(s):
    s = s.strip()
    if s.startswith("no_retag "):
        s = s[len("no_retag "):]
    if s.startswith("copy "):
        return Operand("copy", parse_place(s[5:]))
    if s.startswith("move "):
        return Operand("move", parse_place(s[5:]))
    if s.startswith("const "):
        return Operand("const", const=s[6:].strip())
    if re.match(r"^[A-Za-z_<]", s) and " " not in s.split("<")[0]:
        # a function item used as a value (e.g. `Option::map(move _3, P2PError::Io)`)
        return Operand("fnitem", const=s)
    raise MirError("not an operand: " + s[:120])


BINOPS = {
    "Add", "Sub", "Mul", "Div", "Rem", "BitXor", "BitAnd", "BitOr", "Shl", "Shr", "Eq", "Lt", "Le", "Ne", "Ge", "Gt", "Cmp",
    "AddWithOverflow", "SubWithOverflow", "MulWithOverflow", "AddUnchecked", "SubUnchecked", "MulUnchecked", "ShlUnchecked",
    "ShrUnchecked", "Offset",
}
UNOPS = {"Not", "Neg", "PtrMetadata"}


class Rvalue:
    __slots__ = ("kind", "a")

    def __init__(self, kind, **a):
        self.kind = kind
        self.a = a

    def __repr__(self):
        return f"{self.kind}{self.a}"


def parse_rvalue(s):
    s = s.strip()
    if s.startswith("no_retag "):
        s = s[len("no_retag "):]
    # use
    if s.startswith(("copy ", "move ", "const ")):
        # could be a cast: `copy _1 as T (Kind)` / `const 1_u8 as ...`
        m = re.match(r"^(.*) as (.+) \(([A-Za-z]+(?:\(.*\))?)\)$", s)
        if m and _balanced(m.group(1)):
            try:
                op = parse_operand(m.group(1))
                return Rvalue("cast", op=op, ty=m.group(2), ck=m.group(3))
            except MirError:
                pass
        return Rvalue("use", op=parse_operand(s))
    if s.startswith("&"):
        m = re.match(r"&(raw const |raw mut |mut |fake shallow |fake |)", s)
        return Rvalue("ref", mut=("mut" in m.group(1)), raw=("raw" in m.group(1)), place=parse_place(s[m.end():]))
    if s.startswith("discriminant("):
        return Rvalue("discriminant", place=parse_place(s[len("discriminant("):-1]))
    if s.startswith("deref_copy "):
        return Rvalue("use", op=Operand("copy", parse_place(s[len("deref_copy "):])))
    if s.startswith("Len("):
        return Rvalue("len", place=parse_place(s[4:-1]))
    m = re.match(r"^([A-Za-z]+)\(", s)
    if m and m.group(1) in BINOPS and s.endswith(")"):
        args = split_top(s[m.end():-1])
        if len(args) == 2:
            return Rvalue("binop", op=m.group(1), l=parse_operand(args[0]), r=parse_operand(args[1]))
    if m and m.group(1) in UNOPS and s.endswith(")"):
        return Rvalue("unop", op=m.group(1), x=parse_operand(s[m.end():-1]))
    if s.startswith("("):
        end = match_paren(s, 0)
        if end == len(s) - 1:
            inner = s[1:-1].strip()
            ops = split_top(inner) if inner else []
            return Rvalue("tuple", ops=[parse_operand(o) for o in ops])
    if s.startswith("["):
        end = match_paren(s, 0)
        if end == len(s) - 1:
            inner = s[1:-1]
            parts = split_top(inner, ";")
            if len(parts) == 2:
                return Rvalue("repeat", op=parse_operand(parts[0]), count=parts[1].strip())
            ops = split_top(inner)
            return Rvalue("array", ops=[parse_operand(o) for o in ops])
    if s.startswith("{closure@") or s.startswith("{coroutine@") or s.startswith("{async"):
        end = match_paren(s, 0)
        name = s[: end + 1]
        rest = s[end + 1:].strip()
        fields = []
        if rest:
            if not rest.startswith("{"):
                raise MirError("closure aggregate? " + s[:160])
            inner = rest[1:-1].strip()
            for f in split_top(inner):
                fn, fv = f.split(": ", 1)
                fields.append((fn.strip(), parse_operand(fv)))
        return Rvalue("closure", name=name, fields=fields)
    # ADT aggregates:  Path { f: op, .. } | Path(op, ..) | Path   (unit variant / unit struct)
    # find the end of the path (top-level, outside <>)
    path_end = _path_end(s)
    path = s[:path_end].strip()
    rest = s[path_end:].strip()
    if rest == "":
        return Rvalue("adt", path=path, fields=None, named=None)
    if rest.startswith("{") and rest.endswith("}"):
        inner = rest[1:-1].strip()
        named = []
        for f in split_top(inner):
            fn, fv = f.split(": ", 1)
            named.append((fn.strip(), parse_operand(fv)))
        return Rvalue("adt", path=path, fields=None, named=named)
    if rest.startswith("(") and rest.endswith(")"):
        inner = rest[1:-1].strip()
        ops = [parse_operand(o) for o in split_top(inner)] if inner else []
        return Rvalue("adt", path=path, fields=ops, named=None)
    raise MirError("unsupported rvalue: " + s[:200])


def _balanced(s):
    d = 0
    for c in s:
        if c in "([{":
            d += 1
        elif c in ")]}":
            d -= 1
            if d < 0:
                return False
    return d == 0


def _path_end(s):
    """End index of a (possibly generic) path at the start of s."""
    depth = 0
    i = 0
    n = len(s)
    while i < n:
        c = s[i]
        if c == "<":
            depth += 1
        elif c == ">" and not (i > 0 and s[i - 1] in "-="):
            depth -= 1
        elif depth == 0 and c in " ({":
            # `Foo { ..}` or `Foo(..)`; but paths may contain "<impl at src/x.rs:1:2: 3:4>" (inside <>) only
            return i
        elif depth > 0 and c in "([":
            j = match_paren(s, i)
            i = j
        i += 1
    return n


class Stmt:
    __slots__ = ("kind", "place", "rv", "text")

    def __init__(self, kind, place=None, rv=None, text=""):
        self.kind = kind  # assign | nop | setdiscr | assume
        self.place = place
        self.rv = rv
        self.text = text


class Term:
    __slots__ = ("kind", "a", "text")

    def __init__(self, kind, text="", **a):
        self.kind = kind
        self.a = a
        self.text = text


NOP_PREFIXES = ("StorageLive(", "StorageDead(", "nop", "FakeRead(", "PlaceMention(", "AscribeUserType(", "Coverage::", "ConstEvalCounter",
                "Retag(", "Deinit(", "BackwardIncompatibleDropHint(")


def parse_stmt(line):
    s = line.strip().rstrip(";").strip() if not line.strip().endswith("};") else line.strip()[:-1]
    if s.startswith(NOP_PREFIXES):
        return Stmt("nop", text=s)
    if s.startswith("assume("):
        return Stmt("assume", rv=parse_operand(s[len("assume("):-1]), text=s)
    m = re.match(r"^discriminant\((.*)\) = (\d+)$", s)
    if m:
        return Stmt("setdiscr", place=parse_place(m.group(1)), rv=int(m.group(2)), text=s)
    # assignment: PLACE = RVALUE   (place has no ' = ' inside)
    idx = _find_assign(s)
    if idx < 0:
        raise MirError("unsupported statement: " + s[:200])
    return Stmt("assign", place=parse_place(s[:idx]), rv=parse_rvalue(s[idx + 3:]), text=s)


def _find_assign(s):
    depth = 0
    i = 0
    n = len(s)
    while i < n - 2:
        c = s[i]
        if c == '"':
            i = _skip_string(s, i)
            continue
        if c in "([{":
            depth += 1
        elif c in ")]}":
            depth -= 1
        elif depth == 0 and s[i : i + 3] == " = ":
            return i
        i += 1
    return -1


def _targets(s):
    """parse `[return: bb1, unwind continue]` / `[success: bb3, unwind: bb7]` / `unwind continue` -> dict"""
    s = s.strip()
    d = {}
    if s.startswith("["):
        s = s[1:-1]
        for part in split_top(s):
            part = part.strip()
            if part.startswith("unwind"):
                d["unwind"] = part[len("unwind"):].lstrip(": ").strip()
            else:
                k, v = part.split(":", 1)
                d[k.strip()] = v.strip()
    else:
        if s.startswith("unwind"):
            d["unwind"] = s[len("unwind"):].lstrip(": ").strip()
    return d


def parse_terminator(line):
    s = line.strip().rstrip(";").strip()
    if s.startswith("goto -> "):
        return Term("goto", text=s, target=s[len("goto -> "):].strip())
    if s == "return":
        return Term("return", text=s)
    if s == "unreachable":
        return Term("unreachable", text=s)
    if s in ("resume", "abort") or s.startswith("terminate") or s.startswith("unwind_resume"):
        return Term("resume", text=s)
    if s.startswith("switchInt("):
        end = match_paren(s, len("switchInt"))
        op = parse_operand(s[len("switchInt("):end])
        rest = s[end + 1:].strip()
        assert rest.startswith("-> ["), s
        targets = []
        otherwise = None
        for part in split_top(rest[4:-1]):
            k, v = part.split(":", 1)
            k = k.strip()
            if k == "otherwise":
                otherwise = v.strip()
            else:
                targets.append((int(k), v.strip()))
        return Term("switch", text=s, op=op, targets=targets, otherwise=otherwise)
    if s.startswith("drop("):
        end = match_paren(s, 4)
        t = _targets(s[end + 1:].strip()[3:]) if s[end + 1:].strip().startswith("->") else {}
        return Term("drop", text=s, place=parse_place(s[5:end]), target=t.get("return"))
    if s.startswith("assert("):
        end = match_paren(s, 6)
        inner = split_top(s[7:end])
        cond = inner[0].strip()
        neg = False
        if cond.startswith("!"):
            neg = True
            cond = cond[1:]
        t = _targets(s[end + 1:].strip()[3:])
        msg = inner[1] if len(inner) > 1 else ""
        return Term("assert", text=s, cond=parse_operand(cond), neg=neg, msg=msg, target=t.get("success"))
    if s.startswith("falseEdge") or s.startswith("falseUnwind"):
        m = re.search(r"real: (bb\d+)", s)
        return Term("goto", text=s, target=m.group(1))
    # call:  PLACE = CALLEE(ARGS) -> TARGETS
    idx = _find_assign(s)
    if idx >= 0:
        dest = parse_place(s[:idx])
        rhs = s[idx + 3:]
    else:
        dest = None
        rhs = s
    arrow = _find_call_arrow(rhs)
    if arrow < 0:
        raise MirError("unsupported terminator: " + s[:200])
    callpart = rhs[:arrow].strip()
    t = _targets(rhs[arrow + 2:].strip())
    if not callpart.endswith(")"):
        raise MirError("unsupported call terminator: " + s[:200])
    # find the opening paren matching the last ')'
    depth = 0
    i = len(callpart) - 1
    while i >= 0:
        c = callpart[i]
        if c == '"':
            # walk back over string literal
            i -= 1
            while i >= 0 and not (callpart[i] == '"' and (i == 0 or callpart[i - 1] != "\\")):
                i -= 1
        elif c == ")":
            depth += 1
        elif c == "(":
            depth -= 1
            if depth == 0:
                break
        i -= 1
    callee = callpart[:i].strip()
    argtxt = callpart[i + 1 : -1].strip()
    args = [parse_operand(a) for a in split_top(argtxt)] if argtxt else []
    callee_op = None
    if callee.startswith(("move ", "copy ")):
        callee_op = parse_operand(callee)
    return Term("call", text=s, dest=dest, callee=callee, callee_op=callee_op, args=args, target=t.get("return"))


def _find_call_arrow(s):
    """index of the ' -> ' that separates the call from its targets (the last top-level one)."""
    depth = 0
    i = 0
    n = len(s)
    last = -1
    while i < n:
        c = s[i]
        if c == '"':
            i = _skip_string(s, i)
            continue
        if c in "([{":
            depth += 1
        elif c in ")]}":
            depth -= 1
        elif depth == 0 and s[i : i + 4] == " -> ":
            last = i + 1
        i += 1
    return last


class Block:
    __slots__ = ("name", "stmts", "term", "cleanup")

    def __init__(self, name, cleanup):
        self.name = name
        self.stmts = []
        self.term = None
        self.cleanup = cleanup


class Body:
    def __init__(self, name, kind):
        self.name = name
        self.kind = kind  # fn | const | static | promoted
        self.args = []  # [(local, type)]
        self.ret = None
        self.locals = {}  # local -> type
        self.blocks = {}  # name -> Block
        self.order = []
        self.debug = {}  # local -> source name
        self.upvars = {}  # captured variable name -> capture index (closures / async blocks)
        self.text_hash = None
        self.const_value = None  # for single-line consts
        self.span = None  # (file, line) of impl for methods

    def __repr__(self):
        return f"<Body {self.name}>"


_HDR_FN = re.compile(r"^fn (.*?)\((.*)\) -> (.*) \{$")
_HDR_CONST = re.compile(r"^(const|static|static mut) (.*?): (.*) = (.*)$")


def parse_body(name, kind, lines):
    """lines: the item's text lines, first = header."""
    import hashlib

    b = Body(name, kind)
    b.text_hash = hashlib.sha256("\n".join(lines).encode()).hexdigest()[:12]
    hdr = lines[0]
    if kind == "fn":
        # split args
        i = hdr.index("(", 3 + len(name))
        j = match_paren(hdr, i)
        argtxt = hdr[i + 1 : j]
        for a in split_top(argtxt):
            m = re.match(r"_(\d+): (.*)$", a)
            if not m:
                raise MirError("bad arg " + a)
            b.args.append((int(m.group(1)), m.group(2)))
            b.locals[int(m.group(1))] = m.group(2)
        b.ret = hdr[j + 1:].strip()[3:-2].strip()
    else:
        hp = split_const_header(hdr)
        rest = hp[2]
        b.ret = hp[1]
        if rest != "{":
            b.const_value = rest.rstrip(";")
            return b
    cur = None
    for raw in lines[1:]:
        line = raw.strip()
        if not line or line == "}":
            if line == "}" and cur is not None and raw.startswith("    }"):
                cur = None
            continue
        m = re.match(r"^let (?:mut )?_(\d+): (.*);$", line)
        if m and cur is None:
            b.locals[int(m.group(1))] = m.group(2)
            continue
        if cur is None:
            m = re.match(r"^debug (.*?) => (.*);$", line)
            if m:
                pm = re.fullmatch(r"_(\d+)", m.group(2))
                if pm:
                    b.debug[int(pm.group(1))] = m.group(1)
                # captured variables of closures / async blocks: `debug x => ((*_N).K: T)` or `debug x => (_1.K: T)`
                um = re.match(r"^\(+\*?_\d+\)?\.(\d+): ", m.group(2))
                if um:
                    b.upvars[m.group(1)] = int(um.group(1))
                continue
            if line.startswith("scope ") or line == "}":
                continue
            m = re.match(r"^(bb\d+)( \(cleanup\))?: \{$", line)
            if m:
                cur = Block(m.group(1), bool(m.group(2)))
                b.blocks[cur.name] = cur
                b.order.append(cur.name)
                continue
            if line.startswith("coroutine_") or line.startswith("/*") or line.startswith("//"):
                continue
            raise MirError(f"unexpected line in {name}: {line[:120]}")
        else:
            cur.stmts.append(line)
    # last line of each block is the terminator; parse lazily
    return b


class BlockParsed:
    __slots__ = ("stmts", "term")


_parsed_cache = {}


def parsed_block(body, bbname):
    key = (id(body), bbname)
    r = _parsed_cache.get(key)
    if r is None:
        blk = body.blocks[bbname]
        r = BlockParsed()
        r.stmts = [parse_stmt(l) for l in blk.stmts[:-1]]
        r.term = parse_terminator(blk.stmts[-1])
        _parsed_cache[key] = r
    return r


def split_const_header(line):
    """`const NAME: TYPE = REST` -> (NAME, TYPE, REST); NAME may contain `<impl at f.rs:1:2: 3:4>`"""
    s = re.sub(r"^(const |static mut |static )", "", line)
    depth = 0
    i = 0
    n = len(s)
    while i < n - 1:
        c = s[i]
        if c in "<([{":
            depth += 1
        elif c in ")]}":
            depth -= 1
        elif c == ">" and s[i - 1] not in "-=":
            depth -= 1
        elif depth == 0 and c == ":" and s[i + 1] == " ":
            name = s[:i]
            rest = s[i + 2:]
            j = rest.rfind(" = ")
            if j < 0:
                return None
            return name, rest[:j], rest[j + 3:]
        i += 1
    return None


class Crate:
    """Index over a whole MIR dump; bodies parsed on demand."""

    def __init__(self, path):
        self.path = path
        self.items = {}  # name -> list of (kind, start, end)
        self.allocs = {}  # alloc name -> bytes / text
        self.by_method = {}  # last path segment -> [names]
        self._bodies = {}
        with open(path, errors="replace") as f:
            self.lines = f.read().split("\n")
        self._index()

    def _index(self):
        L = self.lines
        n = len(L)
        i = 0
        while i < n:
            line = L[i]
            if not line or line[0] in " }/":
                i += 1
                continue
            kind = None
            if line.startswith("fn "):
                kind = "fn"
                m = re.match(r"^fn (.*?)\(", line)
                name = m.group(1)
            elif line.startswith("alloc"):
                j = i + 1
                while j < n and L[j] != "}":
                    j += 1
                nm = line.split(" ", 1)[0]
                self.allocs[nm] = (i, j)
                i = j + 1
                continue
            else:
                hp = split_const_header(line)
                if not hp:
                    i += 1
                    continue
                name = hp[0]
                kind = "const"
                if not line.endswith("{"):
                    self.items.setdefault(name, []).append((kind, i, i))
                    i += 1
                    continue
            j = i + 1
            while j < n and L[j] != "}":
                j += 1
            self.items.setdefault(name, []).append((kind, i, j))
            last = name.split("::")[-1]
            self.by_method.setdefault(last, []).append(name)
            i = j + 1

    def body(self, name, which=0):
        key = (name, which)
        if key not in self._bodies:
            if name not in self.items:
                raise MirError("no MIR body for " + name)
            kind, i, j = self.items[name][which]
            self._bodies[key] = parse_body(name, kind, self.lines[i : j + 1])
        return self._bodies[key]

    def alloc_bytes(self, name):
        i, j = self.allocs[name]
        out = bytearray()
        for l in self.lines[i + 1 : j]:
            hexpart = l.split("│")[0]
            hexpart = re.sub(r"^\s*0x[0-9a-f]+\s*", "", hexpart)
            for tok in hexpart.split():
                if re.fullmatch(r"[0-9a-f]{2}", tok):
                    out.append(int(tok, 16))
                elif tok.startswith("╾") or tok.startswith("_"):
                    raise MirError("alloc with relocations: " + name)
        return bytes(out)

    def find(self, pattern):
        """all item names matching a regex"""
        r = re.compile(pattern)
        return [n for n in self.items if r.search(n)]
