"""Summaries for Vec / slice iteration: iterator adaptors are executed natively by the engine (the closures they call are
the real MIR closures); sequences have a fixed modelled capacity and a symbolic length."""
import re

import z3

from summaries import (OPTION, _adopt, deref, is_variant, none, option, ordering, some, summary)
from values import (UNIT, SymError, VArr, VClosure, VEnum, VFn, VIter, VMap, VOpaque, VPoison, VRef, VSeq, VStr, VStruct, as_int, bv, is_z3,
                    key_bv, merge, simp, vmap)


class VSet:
    """result of collect::<HashSet<_>>(): only len()/contains are supported"""
    __slots__ = ("items",)

    def __init__(self, items):
        self.items = list(items)  # (cond, key bit-vector)


def _seq_of(eng, st, ref):
    """(container value, reference to it) for a &[T] / &Vec<T> / &[T;N]"""
    r = ref
    v = eng.load(st, r)
    n = 0
    while isinstance(v, VRef) and n < 4:
        r = v
        v = eng.load(st, r)
        n += 1
    if not isinstance(v, (VSeq, VArr)):
        raise SymError(f"expected a sequence, found {v!r}")
    return v, r


def _len_of(v):
    return v.len if isinstance(v, VSeq) else bv(len(v.elems), 64)


# ------------------------------------------------------------------------------------- constructors of iterators


@summary(r"^core::slice::<impl \[.*\]>::iter(_mut)?$|^<&(mut )?\[.*\] as IntoIterator>::into_iter$|^<&(mut )?Vec<.*> as IntoIterator>::into_iter$|^<&(mut )?\[.*; \d+\] as IntoIterator>::into_iter$",
         "slice::iter / (&[T]).into_iter: iterator of element references")
def _slice_iter(eng, st, args, dty, callee, m):
    v, r = _seq_of(eng, st, args[0])
    return VIter("slice", src=r, pos=0, byval=False)


@summary(r"^<Vec<.*> as IntoIterator>::into_iter$|^<\[.*; \d+\] as IntoIterator>::into_iter$", "Vec::into_iter: iterator of element values")
def _vec_into_iter(eng, st, args, dty, callee, m):
    r = eng.alloc(st, args[0], "T")
    return VIter("slice", src=r, pos=0, byval=True)


@summary(r"^<std::slice::Iter<.*> as IntoIterator>::into_iter$|^<.* as IntoIterator>::into_iter$", "IntoIterator for iterators: identity")
def _iter_into_iter(eng, st, args, dty, callee, m):
    if isinstance(args[0], VIter):
        return args[0]
    if isinstance(args[0], VStruct) and args[0].ty and "Range" in args[0].ty:
        return VIter("range", cur=args[0].f[0], end=args[0].f[1])
    return NotImplemented


@summary(r"^<.* as Iterator>::(filter|map|filter_map|take|skip|enumerate|copied|cloned|rev|peekable|by_ref)(::<.*>)?$", "iterator adaptor (lazy; closure is the real MIR closure)")
def _adaptor(eng, st, args, dty, callee, m):
    it = args[0]
    if isinstance(it, VRef):
        it = eng.load(st, it)
    if not isinstance(it, VIter):
        raise SymError(f"adaptor on non-iterator {it!r}")
    k = m.group(1)
    if k in ("filter", "map", "filter_map"):
        return VIter(k, inner=it, f=args[1])
    if k in ("take", "skip"):
        return VIter(k, inner=it, n=args[1])
    if k in ("copied", "cloned"):
        return VIter("copied", inner=it)
    if k == "enumerate":
        return VIter("enumerate", inner=it)
    if k == "rev":
        return VIter("rev", inner=it)
    if k in ("peekable", "by_ref"):
        return it
    raise SymError("adaptor " + k)


@summary(r"^(core::str::<impl str>|str::<impl str>|std::string::String)::bytes$", "str::bytes for byte-level strings (short strings modelled byte by byte)")
def _str_bytes(eng, st, args, dty, callee, m):
    s = deref(eng, st, args[0])
    if not isinstance(s, VStr) or s.bytes is None:
        raise SymError("bytes() of an abstract string (only short byte-level strings support byte iteration)")
    r = eng.alloc(st, s.bytes, "T")
    return VIter("slice", src=r, pos=0, byval=True)


@summary(r"^<.* as Iterator>::zip::<.*>$", "Iterator::zip")
def _zip(eng, st, args, dty, callee, m):
    a = _it(eng, st, args[0])
    b = args[1]
    if isinstance(b, VRef):
        b = eng.load(st, b)
    if not isinstance(b, VIter):
        raise SymError("zip with a non-iterator")
    return VIter("zip", a=a, b=b)


@summary(r"^core::num::<impl u8>::(eq_ignore_ascii_case|to_ascii_lowercase|to_ascii_uppercase|is_ascii_uppercase|is_ascii_lowercase|is_ascii_hexdigit|is_ascii_digit|is_ascii_alphanumeric)$", "u8 ASCII helpers")
def _u8_ascii(eng, st, args, dty, callee, m):
    k = m.group(1)
    x = deref(eng, st, args[0])
    lower = lambda v: z3.If(z3.And(z3.UGE(v, bv(0x41, 8)), z3.ULE(v, bv(0x5A, 8))), v | bv(0x20, 8), v)  # noqa: E731
    upper = lambda v: z3.If(z3.And(z3.UGE(v, bv(0x61, 8)), z3.ULE(v, bv(0x7A, 8))), v & bv(0xDF, 8), v)  # noqa: E731
    if k == "eq_ignore_ascii_case":
        y = deref(eng, st, args[1])
        return simp(lower(x) == lower(y))
    if k == "to_ascii_lowercase":
        return simp(lower(x))
    if k == "to_ascii_uppercase":
        return simp(upper(x))
    up = z3.And(z3.UGE(x, bv(0x41, 8)), z3.ULE(x, bv(0x5A, 8)))
    lo = z3.And(z3.UGE(x, bv(0x61, 8)), z3.ULE(x, bv(0x7A, 8)))
    dg = z3.And(z3.UGE(x, bv(0x30, 8)), z3.ULE(x, bv(0x39, 8)))
    hx = z3.Or(dg, z3.And(z3.UGE(x | bv(0x20, 8), bv(0x61, 8)), z3.ULE(x | bv(0x20, 8), bv(0x66, 8))))
    return simp({"is_ascii_uppercase": up, "is_ascii_lowercase": lo, "is_ascii_digit": dg, "is_ascii_hexdigit": hx, "is_ascii_alphanumeric": z3.Or(up, lo, dg)}[k])


@summary(r"^core::slice::<impl \[.*\]>::windows$", "slice::windows(n), n concrete")
def _windows(eng, st, args, dty, callee, m):
    v, r = _seq_of(eng, st, args[0])
    n = as_int(args[1])
    if n is None or n == 0:
        raise SymError("windows with symbolic or zero size")
    return VIter("windows", src=r, pos=0, n=n)


@summary(r"^core::slice::<impl \[.*\]>::chunks$", "slice::chunks")
def _chunks(eng, st, args, dty, callee, m):
    raise SymError("chunks not modelled")


# ------------------------------------------------------------------------------------- drain: all potential elements with presence conditions


def _call(eng, st, f, argv, cond):
    """run closure f on argv under presence condition cond; state effects are merged back; returns the result value"""
    from engine import merge_states

    if z3.is_false(cond):
        return None
    s_run = st.fork(cond)
    s_out, r = eng.call_closure(s_run, f, argv)
    if z3.is_true(cond):
        _adopt(st, s_out)
        return r
    s_not = st.fork(z3.Not(cond))
    pc0 = st.pc
    mg = merge_states([s_out, s_not])
    st.mem = mg.mem
    st.clock = mg.clock
    st.pc = pc0 if z3.is_true(simp(s_out.pc == simp(z3.And(pc0, cond)))) else mg.pc
    return r


def drain(eng, st, it):
    """-> list of (cond, value): every element the iterator can still yield, in order"""
    k = it.kind
    a = it.a
    if k == "slice":
        v, r = _seq_of(eng, st, a["src"])
        ln = _len_of(v)
        out = []
        pos = a["pos"]
        if not isinstance(pos, int):
            raise SymError("drain of a slice iterator at a symbolic position")
        for i in range(pos, len(v.elems)):
            cond = simp(z3.ULT(bv(i, 64), ln))
            if z3.is_false(cond):
                break
            val = v.elems[i] if a["byval"] else VRef(r.root, r.path + (("i", i),), True)
            out.append((cond, val))
        return out
    if k == "range":
        cur, end = a["cur"], a["end"]
        c0, e0 = as_int(cur), as_int(end)
        if c0 is None:
            raise SymError("range with symbolic start")
        w = cur.size()
        if e0 is not None:
            return [(z3.BoolVal(True), bv(i, w)) for i in range(c0, e0)]
        cap = eng.unwind
        return [(simp(z3.ULT(bv(i, w), end)), bv(i, w)) for i in range(c0, c0 + cap + 1)]
    if k == "copied":
        # copied()/cloned() remove exactly one reference level
        return [(c, eng.load(st, v) if isinstance(v, VRef) else v) for c, v in drain(eng, st, a["inner"])]
    if k == "rev":
        inner = drain(eng, st, a["inner"])
        return list(reversed(inner))
    if k == "map":
        out = []
        for c, v in drain(eng, st, a["inner"]):
            r = _call(eng, st, a["f"], [v], c)
            if r is not None:
                out.append((c, r))
        return out
    if k == "filter":
        out = []
        for c, v in drain(eng, st, a["inner"]):
            # the predicate takes a reference to the item
            ref = eng.alloc(st, v, "T")
            r = _call(eng, st, a["f"], [ref], c)
            if r is None:
                continue
            out.append((simp(z3.And(c, r)), v))
        return out
    if k == "filter_map":
        out = []
        for c, v in drain(eng, st, a["inner"]):
            r = _call(eng, st, a["f"], [v], c)
            if r is None or 1 not in r.pay:
                continue
            out.append((simp(z3.And(c, is_variant(r, 1))), r.pay[1][0]))
        return out
    if k == "enumerate":
        inner = drain(eng, st, a["inner"])
        # index = number of earlier present elements (exact for contiguous sources; general via prefix count)
        out = []
        cnt = bv(0, 64)
        for c, v in inner:
            out.append((c, VStruct([cnt, v])))
            cnt = simp(cnt + z3.If(c, bv(1, 64), bv(0, 64)))
        return out
    if k == "take":
        inner = drain(eng, st, a["inner"])
        n = a["n"]
        out = []
        cnt = bv(0, 64)
        for c, v in inner:
            out.append((simp(z3.And(c, z3.ULT(cnt, n))), v))
            cnt = simp(cnt + z3.If(c, bv(1, 64), bv(0, 64)))
        return out
    if k == "skip":
        inner = drain(eng, st, a["inner"])
        n = a["n"]
        out = []
        cnt = bv(0, 64)
        for c, v in inner:
            out.append((simp(z3.And(c, z3.UGE(cnt, n))), v))
            cnt = simp(cnt + z3.If(c, bv(1, 64), bv(0, 64)))
        return out
    if k == "condlist":
        p0 = as_int(a["pos"])
        if p0 is None:
            raise SymError("drain of a conditional list at a symbolic position")
        return list(a["items"][p0:])
    if k == "zip":
        xa = drain(eng, st, a["a"])
        xb = drain(eng, st, a["b"])
        return [(simp(z3.And(ca, cb)), VStruct([va, vb])) for (ca, va), (cb, vb) in zip(xa, xb)]
    if k == "windows":
        v, r = _seq_of(eng, st, a["src"])
        ln = _len_of(v)
        n = a["n"]
        out = []
        for i in range(a["pos"], len(v.elems) - n + 1):
            cond = simp(z3.ULE(bv(i + n, 64), ln))
            if z3.is_false(cond):
                break
            view = eng.alloc(st, VSeq(v.elems[i : i + n], bv(n, 64)), "T")
            out.append((cond, view))
        return out
    raise SymError("drain of iterator kind " + k)


def compact(items, cap=None):
    """pack the present items in order: VSeq with symbolic length (O(n^2) ite network)"""
    n = len(items)
    if n == 0:
        return VSeq([], bv(0, 64))
    if all(z3.is_true(c) for c, _ in items):
        return VSeq([v for _, v in items], bv(n, 64))
    pos = []
    cnt = bv(0, 64)
    for c, v in items:
        pos.append(cnt)
        cnt = simp(cnt + z3.If(c, bv(1, 64), bv(0, 64)))
    out = []
    for j in range(n):
        cur = None
        for i in range(n - 1, j - 1, -1):  # item i can land at slot j only if i >= j
            c, v = items[i]
            here = simp(z3.And(c, pos[i] == bv(j, 64)))
            if z3.is_false(here):
                continue
            cur = v if cur is None else merge(here, v, cur)
        if cur is None:
            cur = items[j][1]
        out.append(cur)
    return VSeq(out, cnt)


# ------------------------------------------------------------------------------------- consumers


def _it(eng, st, x):
    if isinstance(x, VRef):
        x = eng.load(st, x)
    if not isinstance(x, VIter):
        raise SymError(f"expected an iterator, found {x!r}")
    return x


@summary(r"^<.* as Iterator>::collect::<Vec<.*>>$", "collect::<Vec<_>>: present items packed in order (symbolic length)")
def _collect_vec(eng, st, args, dty, callee, m):
    return compact(drain(eng, st, _it(eng, st, args[0])))


@summary(r"^<.* as Iterator>::collect::<(std::collections::)?HashSet<.*>>$", "collect::<HashSet<_>>: set of keys (len = number of distinct present keys)")
def _collect_set(eng, st, args, dty, callee, m):
    items = []
    for c, v in drain(eng, st, _it(eng, st, args[0])):
        items.append((c, key_bv(deref(eng, st, v) if isinstance(v, VRef) else v)))
    return VSet(items)


@summary(r"^(std::collections::)?HashSet::<.*>::len$", "HashSet::len for collected sets")
def _set_len(eng, st, args, dty, callee, m):
    s = eng.load(st, args[0])
    if not isinstance(s, VSet):
        return NotImplemented
    tot = bv(0, 64)
    for i, (c, k) in enumerate(s.items):
        dup = z3.Or(*[z3.And(cj, kj == k) for cj, kj in s.items[:i]]) if i else z3.BoolVal(False)
        tot = tot + z3.If(z3.And(c, z3.Not(dup)), bv(1, 64), bv(0, 64))
    return simp(tot)


@summary(r"^<.* as Iterator>::count$", "Iterator::count")
def _count(eng, st, args, dty, callee, m):
    tot = bv(0, 64)
    for c, v in drain(eng, st, _it(eng, st, args[0])):
        tot = tot + z3.If(c, bv(1, 64), bv(0, 64))
    return simp(tot)


@summary(r"^<.* as Iterator>::(any|all)::<.*>$", "Iterator::any / all (real closure)")
def _any_all(eng, st, args, dty, callee, m):
    itref = args[0]
    it = _it(eng, st, itref)
    res = []
    for c, v in drain(eng, st, it):
        r = _call(eng, st, args[1], [v], c)
        if r is None:
            continue
        res.append((c, r))
    if m.group(1) == "any":
        return simp(z3.Or(*[z3.And(c, r) for c, r in res])) if res else z3.BoolVal(False)
    return simp(z3.And(*[z3.Implies(c, r) for c, r in res])) if res else z3.BoolVal(True)


@summary(r"^<.* as Iterator>::sum::<(f64|usize|u64|u32)>$", "Iterator::sum in iteration order")
def _sum(eng, st, args, dty, callee, m):
    t = m.group(1)
    items = drain(eng, st, _it(eng, st, args[0]))
    if t == "f64":
        acc = z3.FPVal(0.0, z3.Float64())  # std: fold(-0.0?) -- f64::sum starts from 0.0 in this toolchain's MIR semantics
        for c, v in items:
            v = deref(eng, st, v) if isinstance(v, VRef) else v
            acc = z3.If(c, z3.fpAdd(z3.RNE(), acc, v), acc)
        return acc
    w = {"usize": 64, "u64": 64, "u32": 32}[t]
    acc = bv(0, w)
    for c, v in items:
        v = deref(eng, st, v) if isinstance(v, VRef) else v
        acc = acc + z3.If(c, v, bv(0, w))
    return simp(acc)


@summary(r"^<.* as Iterator>::next$", "Iterator::next for slice / windows / range / map / enumerate / copied iterators")
def _next(eng, st, args, dty, callee, m):
    itref = args[0]
    if not isinstance(eng.load(st, itref), VIter):
        return NotImplemented
    it = _it(eng, st, itref)
    new_it, cond, val = _next_of(eng, st, it)
    eng.store(st, itref, new_it)
    if val is None or z3.is_false(cond):
        return none()
    return option(cond, val)


def _next_of(eng, st, it):
    k = it.kind
    a = it.a
    if k == "slice":
        v, r = _seq_of(eng, st, a["src"])
        pos = a["pos"]
        if not isinstance(pos, int):
            raise SymError("next on a slice iterator at a symbolic position")
        if pos >= len(v.elems):
            return it, z3.BoolVal(False), None
        cond = simp(z3.ULT(bv(pos, 64), _len_of(v)))
        val = v.elems[pos] if a["byval"] else VRef(r.root, r.path + (("i", pos),), True)
        return it.with_(pos=pos + 1), cond, val
    if k == "windows":
        v, r = _seq_of(eng, st, a["src"])
        pos, n = a["pos"], a["n"]
        if pos + n > len(v.elems):
            return it, z3.BoolVal(False), None
        cond = simp(z3.ULE(bv(pos + n, 64), _len_of(v)))
        view = eng.alloc(st, VSeq(v.elems[pos : pos + n], bv(n, 64)), "T")
        return it.with_(pos=pos + 1), cond, view
    if k == "range":
        cur, end = a["cur"], a["end"]
        cond = simp(z3.ULT(cur, end))
        return it.with_(cur=simp(z3.If(cond, cur + 1, cur))), cond, cur
    if k == "copied":
        ni, c, v = _next_of(eng, st, a["inner"])
        return it.with_(inner=ni), c, (eng.load(st, v) if isinstance(v, VRef) else v)
    if k == "map":
        ni, c, v = _next_of(eng, st, a["inner"])
        if v is None:
            return it.with_(inner=ni), c, None
        r = _call(eng, st, a["f"], [v], c)
        return it.with_(inner=ni), c, r
    if k == "enumerate":
        idx = a.get("idx", 0)
        ni, c, v = _next_of(eng, st, a["inner"])
        if v is None:
            return it.with_(inner=ni), c, None
        if not isinstance(idx, int):
            raise SymError("enumerate with symbolic index")
        return it.with_(inner=ni, idx=idx + 1), c, VStruct([bv(idx, 64), v])
    if k == "condlist":
        # items present under symbolic conditions: the next element is the first present one at or after `pos`
        items, pos = a["items"], a["pos"]
        n = len(items)
        if n == 0:
            return it, z3.BoolVal(False), None
        found = z3.BoolVal(False)
        val = items[-1][1]
        newpos = bv(n, 64)
        for j in range(n - 1, -1, -1):
            c, v = items[j]
            here = simp(z3.And(c, z3.ULE(pos, bv(j, 64))))
            val = merge(here, v, val)
            newpos = simp(z3.If(here, bv(j + 1, 64), newpos))
            found = simp(z3.Or(here, found))
        return it.with_(pos=newpos), found, val
    if k == "list":
        items, pos = a["items"], a["pos"]
        if pos >= len(items):
            return it, z3.BoolVal(False), None
        return it.with_(pos=pos + 1), z3.BoolVal(True), items[pos]
    if k in ("skip", "take", "rev", "filter", "filter_map"):
        # materialise: allowed when every presence condition is concrete (e.g. skip/take/rev over containers of concrete length)
        items = []
        for c, v in drain(eng, st, it):
            if z3.is_true(c):
                items.append(v)
            elif z3.is_false(c):
                continue
            else:
                raise SymError("Iterator::next on a " + k + " adaptor whose elements are conditionally present (only supported through collect/count/any/sum)")
        lst = VIter("list", items=tuple(items), pos=0)
        return _next_of(eng, st, lst)
    raise SymError("Iterator::next on iterator kind " + k)


@summary(r"^<std::ops::Range<.*> as Iterator>::next$|^core::iter::range::<impl Iterator for (std::ops::)?Range<.*>>::next$", "Range::next")
def _range_next(eng, st, args, dty, callee, m):
    r = args[0]
    rng = eng.load(st, r)
    if isinstance(rng, VIter):
        return NotImplemented
    cur, end = rng.f[0], rng.f[1]
    cond = simp(z3.ULT(cur, end))
    eng.store(st, r, VStruct([simp(z3.If(cond, cur + 1, cur)), end], rng.ty))
    return option(cond, cur)


# ------------------------------------------------------------------------------------- Vec / slice operations


@summary(r"^Vec::<.*>::(new|with_capacity)$|^<Vec<.*> as Default>::default$", "Vec::new: empty sequence (capacity grows with pushes up to the engine bound)")
def _vec_new(eng, st, args, dty, callee, m):
    return VSeq([], bv(0, 64))


@summary(r"^Vec::<.*>::push$", "Vec::push (modelled capacity grows by one)")
def _vec_push(eng, st, args, dty, callee, m):
    r = args[0]
    v, r = _seq_of(eng, st, r)
    x = args[1]
    ln = v.len
    cl = as_int(ln)
    if cl is not None and cl == len(v.elems):
        eng.store(st, r, VSeq(list(v.elems) + [x], bv(cl + 1, 64)))
        return UNIT
    limit = getattr(eng, "seq_cap", 12)
    in_map_slot = any(isinstance(pe, tuple) and pe[0] == "k" for pe in r.path)
    if in_map_slot:
        limit = len(v.elems)  # values stored in an SMT-array map keep their modelled shape: no growth, capacity exhaustion is an obligation
    if len(v.elems) >= limit:
        eng.oblige(st, "unwind:sequence capacity bound reached in Vec::push", ln == bv(len(v.elems), 64), kind="unwind")
        elems = list(v.elems)
    else:
        elems = list(v.elems) + [x]
    new = []
    for j, old in enumerate(elems):
        if j < len(v.elems):
            new.append(merge(ln == bv(j, 64), x, old))
        else:
            new.append(x)
    eng.store(st, r, VSeq(new, simp(ln + 1)))
    return UNIT


@summary(r"^core::slice::<impl \[.*\]>::contains$|^Vec::<.*>::contains$", "slice::contains (structural equality on scalar leaves)")
def _contains(eng, st, args, dty, callee, m):
    v, r = _seq_of(eng, st, args[0])
    x = deref(eng, st, args[1])
    kx = key_bv(x)
    ln = _len_of(v)
    hits = []
    for i, e in enumerate(v.elems):
        c = simp(z3.ULT(bv(i, 64), ln))
        if z3.is_false(c):
            break
        hits.append(z3.And(c, key_bv(e) == kx))
    return simp(z3.Or(*hits)) if hits else z3.BoolVal(False)


@summary(r"^core::slice::<impl \[.*\]>::(first|last)$", "slice::first / last")
def _first_last(eng, st, args, dty, callee, m):
    v, r = _seq_of(eng, st, args[0])
    ln = _len_of(v)
    if not v.elems:
        return none()
    if m.group(1) == "first":
        return option(simp(ln != 0), VRef(r.root, r.path + (("i", 0),), True))
    idx = simp(ln - 1)
    ci = as_int(idx)
    return option(simp(ln != 0), VRef(r.root, r.path + ((("i", ci) if ci is not None else ("si", idx)),), True))


@summary(r"^core::slice::<impl \[.*\]>::get::<usize>$|^Vec::<.*>::get::<usize>$", "slice::get(i)")
def _get(eng, st, args, dty, callee, m):
    v, r = _seq_of(eng, st, args[0])
    i = args[1]
    ci = as_int(i)
    if not v.elems:
        return none()
    return option(simp(z3.ULT(i, _len_of(v))), VRef(r.root, r.path + ((("i", ci) if ci is not None and ci < len(v.elems) else ("si", i)),), True))


@summary(r"^Vec::<.*>::truncate$", "Vec::truncate")
def _truncate(eng, st, args, dty, callee, m):
    v, r = _seq_of(eng, st, args[0])
    n = args[1]
    eng.store(st, r, VSeq(v.elems, simp(z3.If(z3.ULT(n, v.len), n, v.len))))
    return UNIT


@summary(r"^Vec::<.*>::clear$", "Vec::clear")
def _clear(eng, st, args, dty, callee, m):
    v, r = _seq_of(eng, st, args[0])
    eng.store(st, r, VSeq(v.elems, bv(0, 64)))
    return UNIT


@summary(r"^<Vec<.*> as (std::ops::)?(Index|IndexMut)<usize>>::(index|index_mut)$|^<\[.*\] as (std::ops::)?(Index|IndexMut)<usize>>::(index|index_mut)$",
         "Vec[i] / slice[i] (bounds check is an obligation)")
def _index(eng, st, args, dty, callee, m):
    v, r = _seq_of(eng, st, args[0])
    i = args[1]
    eng.oblige(st, "panic:index out of bounds", z3.UGE(i, _len_of(v)))
    ci = as_int(i)
    return VRef(r.root, r.path + ((("i", ci) if ci is not None and ci < len(v.elems) else ("si", i)),), True)


def _sort_seq(eng, st, r, greater):
    """stable bubble sort network over the modelled capacity; elements past `len` never move ahead of valid ones"""
    v, r = _seq_of(eng, st, r)
    ln = _len_of(v)
    el = list(v.elems)
    n = len(el)
    for p in range(n):
        for j in range(0, n - 1 - p):
            valid = simp(z3.ULT(bv(j + 1, 64), ln))
            if z3.is_false(valid):
                continue
            g = greater(el[j], el[j + 1])
            sw = simp(z3.And(valid, g))
            if z3.is_false(sw):
                continue
            a, b = el[j], el[j + 1]
            el[j] = merge(sw, b, a)
            el[j + 1] = merge(sw, a, b)
    eng.store(st, r, VSeq(el, v.len) if isinstance(v, VSeq) else VArr(el))


@summary(r"^(std|core|alloc)::slice::<impl \[(std::time::)?Duration\]>::(sort|sort_unstable)$", "sort of Durations: stable compare-exchange network over the modelled capacity")
def _sort_durations(eng, st, args, dty, callee, m):
    from summaries import time_lt

    _sort_seq(eng, st, args[0], lambda a, b: time_lt(b, a))
    return UNIT


@summary(r"^(std|core|alloc)::slice::<impl \[.*\]>::(sort_by|sort_unstable_by)::<.*>$", "sort_by: stable compare-exchange network, comparator = the real closure")
def _sort_by(eng, st, args, dty, callee, m):
    f = args[1]

    def greater(a, b):
        ra = eng.alloc(st, a, "T")
        rb = eng.alloc(st, b, "T")
        s2, o = eng.call_closure(st, f, [ra, rb])
        _adopt(st, s2)
        return simp(o.idx == bv(2, 8))

    _sort_seq(eng, st, args[0], greater)
    return UNIT


@summary(r"^Vec::<.*>::retain::<.*>$", "Vec::retain (real closure; kept elements packed in order)")
def _retain(eng, st, args, dty, callee, m):
    v, r = _seq_of(eng, st, args[0])
    ln = _len_of(v)
    items = []
    for i, e in enumerate(v.elems):
        c = simp(z3.ULT(bv(i, 64), ln))
        if z3.is_false(c):
            break
        ref = VRef(r.root, r.path + (("i", i),), True)
        keep = _call(eng, st, args[1], [ref], c)
        if keep is None:
            continue
        items.append((simp(z3.And(c, keep)), e))
    packed = compact(items)
    # keep the modelled capacity
    elems = list(packed.elems) + list(v.elems[len(packed.elems):])
    eng.store(st, r, VSeq(elems, packed.len))
    return UNIT


@summary(r"^<.* as Iterator>::position::<.*>$", "Iterator::position (real closure; index of the first match)")
def _position(eng, st, args, dty, callee, m):
    itref = args[0]
    it = _it(eng, st, itref)
    items = drain(eng, st, it)
    found = z3.BoolVal(False)
    idx = bv(0, 64)
    cnt = bv(0, 64)
    for c, v in items:
        r = _call(eng, st, args[1], [v], c)
        if r is None:
            continue
        hit = simp(z3.And(c, r, z3.Not(found)))
        idx = z3.If(hit, cnt, idx)
        found = simp(z3.Or(found, z3.And(c, r)))
        cnt = simp(cnt + z3.If(c, bv(1, 64), bv(0, 64)))
    return option(found, simp(idx))


@summary(r"^Vec::<.*>::remove$", "Vec::remove(i): later elements shift down (index check is an obligation)")
def _vec_remove(eng, st, args, dty, callee, m):
    v, r = _seq_of(eng, st, args[0])
    i = args[1]
    eng.oblige(st, "panic:Vec::remove index out of bounds", z3.UGE(i, v.len))
    n = len(v.elems)
    if n == 0:
        return None
    removed = eng.read_path(v, (("si", i),)) if as_int(i) is None else v.elems[min(as_int(i), n - 1)]
    new = []
    for j in range(n):
        nxt = v.elems[j + 1] if j + 1 < n else v.elems[j]
        new.append(merge(z3.ULT(bv(j, 64), i), v.elems[j], nxt))
    eng.store(st, r, VSeq(new, simp(v.len - 1)))
    return removed


# ------------------------------------------------------------------------------------- more iterator consumers / Vec operations
@summary(r"^<.* as Iterator>::(find|find_map)::<.*>$", "Iterator::find / find_map (real closure; first match)")
def _find(eng, st, args, dty, callee, m):
    items = drain(eng, st, _it(eng, st, args[0]))
    found = z3.BoolVal(False)
    val = None
    for c, v in reversed(items):
        pass
    acc_found = z3.BoolVal(False)
    acc_val = None
    for c, v in reversed(items):
        if m.group(1) == "find":
            ref = eng.alloc(st, v, "T")
            r = _call(eng, st, args[1], [ref], c)
            if r is None:
                continue
            hit = simp(z3.And(c, r))
            out = v
        else:
            r = _call(eng, st, args[1], [v], c)
            if r is None or 1 not in r.pay:
                continue
            hit = simp(z3.And(c, is_variant(r, 1)))
            out = r.pay[1][0]
        acc_val = out if acc_val is None else merge(hit, out, acc_val)
        acc_found = simp(z3.Or(hit, acc_found))
    if acc_val is None:
        return none()
    return option(acc_found, acc_val)


@summary(r"^<.* as Iterator>::fold::<.*>$", "Iterator::fold (real closure)")
def _fold(eng, st, args, dty, callee, m):
    acc = args[1]
    for c, v in drain(eng, st, _it(eng, st, args[0])):
        r = _call(eng, st, args[2], [acc, v], c)
        if r is None:
            continue
        acc = merge(c, r, acc)
    return acc


@summary(r"^<.* as Iterator>::for_each::<.*>$", "Iterator::for_each (real closure)")
def _for_each(eng, st, args, dty, callee, m):
    for c, v in drain(eng, st, _it(eng, st, args[0])):
        _call(eng, st, args[1], [v], c)
    return UNIT


@summary(r"^<.* as Iterator>::(max|min)$", "Iterator::max / min over unsigned integers")
def _iter_minmax(eng, st, args, dty, callee, m):
    items = drain(eng, st, _it(eng, st, args[0]))
    best = None
    have = z3.BoolVal(False)
    for c, v in items:
        v = deref(eng, st, v) if isinstance(v, VRef) else v
        if not z3.is_bv(v):
            raise SymError("Iterator::max/min over non-integer items")
        if best is None:
            best = v
            have = c
            continue
        better = z3.UGE(v, best) if m.group(1) == "max" else z3.ULT(v, best)
        best = z3.If(z3.And(c, z3.Or(z3.Not(have), better)), v, best)
        have = simp(z3.Or(have, c))
    if best is None:
        return none()
    return option(have, best)


@summary(r"^<.* as Iterator>::(max_by|min_by)::<.*>$", "Iterator::max_by / min_by (real comparator closure)")
def _iter_minmax_by(eng, st, args, dty, callee, m):
    items = drain(eng, st, _it(eng, st, args[0]))
    best = None
    have = z3.BoolVal(False)
    for c, v in items:
        if best is None:
            best, have = v, c
            continue
        ra = eng.alloc(st, best, "T")
        rb = eng.alloc(st, v, "T")
        s2, o = eng.call_closure(st, args[1], [ra, rb])
        _adopt(st, s2)
        # max_by returns the last maximum, min_by the first minimum
        take = simp(o.idx != bv(2, 8)) if m.group(1) == "max_by" else simp(o.idx == bv(2, 8))
        best = merge(simp(z3.And(c, z3.Or(z3.Not(have), take))), v, best)
        have = simp(z3.Or(have, c))
    if best is None:
        return none()
    return option(have, best)


@summary(r"^<.* as Iterator>::(last|nth)$", "Iterator::last / nth")
def _iter_last(eng, st, args, dty, callee, m):
    items = drain(eng, st, _it(eng, st, args[0]))
    if m.group(1) == "last":
        val, have = None, z3.BoolVal(False)
        for c, v in items:
            val = v if val is None else merge(c, v, val)
            have = simp(z3.Or(have, c))
        return none() if val is None else option(have, val)
    n = args[1]
    cnt = bv(0, 64)
    val, have = None, z3.BoolVal(False)
    for c, v in reversed(items):
        pass
    pos = []
    for c, v in items:
        pos.append(cnt)
        cnt = simp(cnt + z3.If(c, bv(1, 64), bv(0, 64)))
    for (c, v), p in zip(reversed(items), reversed(pos)):
        hit = simp(z3.And(c, p == n))
        val = v if val is None else merge(hit, v, val)
        have = simp(z3.Or(have, hit))
    return none() if val is None else option(have, val)


@summary(r"^<.* as Iterator>::(chain|take_while|skip_while)::<.*>$|^<.* as Iterator>::chain$", "Iterator::chain / take_while / skip_while")
def _chain_etc(eng, st, args, dty, callee, m):
    it = _it(eng, st, args[0])
    k = "chain" if "chain" in callee.split("::")[-1] or callee.endswith("chain") else m.group(1)
    if k == "chain":
        other = args[1]
        if isinstance(other, VRef):
            other = eng.load(st, other)
        if not isinstance(other, VIter):
            raise SymError("chain with a non-iterator")
        items = tuple(drain(eng, st, it)) + tuple(drain(eng, st, other))
        return VIter("condlist", items=items, pos=bv(0, 64))
    items = drain(eng, st, it)
    out = []
    going = z3.BoolVal(True)  # take_while: still taking; skip_while: still skipping
    for c, v in items:
        ref = eng.alloc(st, v, "T")
        r = _call(eng, st, args[1], [ref], c)
        if r is None:
            continue
        if k == "take_while":
            going = simp(z3.And(going, z3.Implies(c, r)))
            out.append((simp(z3.And(c, going)), v))
        else:
            going = simp(z3.And(going, z3.Or(z3.Not(c), r)))
            out.append((simp(z3.And(c, z3.Not(going))), v))
    return VIter("condlist", items=tuple(out), pos=bv(0, 64))


@summary(r"^Vec::<.*>::(pop|insert|swap_remove|extend_from_slice)$", "Vec::pop / insert / swap_remove / extend_from_slice")
def _vec_more(eng, st, args, dty, callee, m):
    k = m.group(1)
    v, r = _seq_of(eng, st, args[0])
    n = len(v.elems)
    if k == "pop":
        if n == 0:
            return none()
        idx = simp(v.len - 1)
        last = eng.read_path(v, (("si", idx),)) if as_int(idx) is None else v.elems[min(as_int(idx), n - 1)]
        nonempty = simp(v.len != 0)
        eng.store(st, r, VSeq(v.elems, simp(z3.If(nonempty, v.len - 1, v.len))))
        return option(nonempty, last)
    if k == "extend_from_slice":
        src, _ = _seq_of(eng, st, args[1])
        sl = as_int(_len_of(src))
        if sl is None or as_int(v.len) is None:
            raise SymError("extend_from_slice with symbolic lengths")
        base = list(v.elems[: as_int(v.len)])
        eng.store(st, r, VSeq(base + list(src.elems[:sl]), bv(len(base) + sl, 64)))
        return UNIT
    if k == "insert":
        i, x = args[1], args[2]
        eng.oblige(st, "panic:Vec::insert index out of bounds", z3.UGT(i, v.len))
        elems = list(v.elems) + ([x] if as_int(v.len) is not None and as_int(v.len) == n else ([x] if n < getattr(eng, "seq_cap", 12) else []))
        new = []
        for j in range(len(elems)):
            prev = v.elems[j - 1] if 0 < j <= n else (v.elems[0] if n else x)
            cur = v.elems[j] if j < n else x
            new.append(merge(z3.ULT(bv(j, 64), i), cur, merge(bv(j, 64) == i, x, prev)))
        eng.store(st, r, VSeq(new, simp(v.len + 1)))
        return UNIT
    if k == "swap_remove":
        i = args[1]
        eng.oblige(st, "panic:Vec::swap_remove index out of bounds", z3.UGE(i, v.len))
        if n == 0:
            return None
        lastidx = simp(v.len - 1)
        removed = eng.read_path(v, (("si", i),)) if as_int(i) is None else v.elems[min(as_int(i), n - 1)]
        last = eng.read_path(v, (("si", lastidx),)) if as_int(lastidx) is None else v.elems[min(as_int(lastidx), n - 1)]
        new = [merge(bv(j, 64) == i, last, e) for j, e in enumerate(v.elems)]
        eng.store(st, r, VSeq(new, lastidx))
        return removed
    raise SymError("Vec::" + k)


@summary(r"^(std|core|alloc)::slice::<impl \[.*\]>::(sort_by_key|sort_unstable_by_key|sort_by_cached_key)::<.*>$", "sort_by_key: stable network, key = the real closure (unsigned / Duration / f64-free keys)")
def _sort_by_key(eng, st, args, dty, callee, m):
    f = args[1]

    def greater(a, b):
        from summaries import time_lt

        ra = eng.alloc(st, a, "T")
        rb = eng.alloc(st, b, "T")
        s2, ka = eng.call_closure(st, f, [ra])
        _adopt(st, s2)
        s3, kb = eng.call_closure(st, f, [rb])
        _adopt(st, s3)
        if z3.is_bv(ka):
            return simp(z3.UGT(ka, kb))
        if isinstance(ka, VStruct) and ka.ty in ("Duration", "Instant", "SystemTime"):
            return simp(time_lt(kb, ka))
        if isinstance(ka, VArr):
            return simp(z3.UGT(key_bv(ka), key_bv(kb)))
        raise SymError("sort_by_key with an unsupported key type")

    _sort_seq(eng, st, args[0], greater)
    return UNIT
