"""Catalogue of library-call summaries (the trusted base of engine M; printed in every evidence file).

Each entry: regex on the callee text as printed in MIR -> handler(engine, state, args, dest_ty, callee, match).
A handler returns a Value, or (state, value), or None when the call diverges, or NotImplemented to fall through.
"""
import re

import z3

from ty import parse_type
from values import (UNIT, EnumInfo, SymError, VArr, VClosure, VEnum, VFn, VIter, VMap, VOpaque, VPoison, VRef, VSeq, VStr, VStruct, as_int, bv,
                    is_z3, key_bv, merge, simp, vmap)

RNE = z3.RNE()
F64 = z3.Float64()
NANOS = 1_000_000_000

_REG = []


def summary(pattern, name=None):
    def deco(f):
        _REG.append((re.compile(pattern), f, name or f.__name__))
        return f

    return deco


def install(engine):
    engine.summaries = list(_REG)


# ------------------------------------------------------------------------------------- helpers

OPTION = EnumInfo("Option", ["None", "Some"])
RESULT = EnumInfo("Result", ["Ok", "Err"])
ORDERING = EnumInfo("Ordering", ["Less", "Equal", "Greater"], [-1, 0, 1])


def some(v):
    return VEnum(OPTION, bv(1, 8), {0: (), 1: (v,)})


def none():
    return VEnum(OPTION, bv(0, 8), {0: ()})


def option(cond, v):
    """Some(v) if cond else None"""
    return VEnum(OPTION, z3.If(cond, bv(1, 8), bv(0, 8)) if not (z3.is_true(cond) or z3.is_false(cond)) else bv(1 if z3.is_true(cond) else 0, 8),
                 {0: (), 1: (v,)})


def ok(v):
    return VEnum(RESULT, bv(0, 8), {0: (v,)})


def err(v):
    return VEnum(RESULT, bv(1, 8), {1: (v,)})


def is_variant(e, i):
    return simp(e.idx == bv(i, 8))


def ordering(lt, eq):
    return VEnum(ORDERING, z3.If(lt, bv(0, 8), z3.If(eq, bv(1, 8), bv(2, 8))), {0: (), 1: (), 2: ()})


def deref(eng, st, v):
    """follow references until a non-reference value"""
    n = 0
    while isinstance(v, VRef):
        v = eng.load(st, v)
        n += 1
        if n > 8:
            raise SymError("reference chain too long")
    return v


def mk_time(secs, nanos, ty):
    return VStruct([secs, nanos], ty)


def time_lt(a, b):
    return z3.Or(z3.ULT(a.f[0], b.f[0]), z3.And(a.f[0] == b.f[0], z3.ULT(a.f[1], b.f[1])))


def time_le(a, b):
    return z3.Or(z3.ULT(a.f[0], b.f[0]), z3.And(a.f[0] == b.f[0], z3.ULE(a.f[1], b.f[1])))


def time_eq(a, b):
    return z3.And(a.f[0] == b.f[0], a.f[1] == b.f[1])


def time_sub(a, b, ty="Duration"):
    """a - b assuming a >= b"""
    borrow = z3.ULT(a.f[1], b.f[1])
    secs = a.f[0] - b.f[0] - z3.If(borrow, bv(1, 64), bv(0, 64))
    nanos = z3.If(borrow, a.f[1] + bv(NANOS, 32) - b.f[1], a.f[1] - b.f[1])
    return mk_time(simp(secs), simp(nanos), ty)


def time_add(a, d, ty):
    n = z3.ZeroExt(1, a.f[1]) + z3.ZeroExt(1, d.f[1])
    carry = z3.UGE(n, bv(NANOS, 33))
    nanos = z3.Extract(31, 0, z3.If(carry, n - bv(NANOS, 33), n))
    secs = a.f[0] + d.f[0] + z3.If(carry, bv(1, 64), bv(0, 64))
    return mk_time(simp(secs), simp(nanos), ty)


ZERO_DUR = mk_time(bv(0, 64), bv(0, 32), "Duration")


def fresh_instant(eng, st, prefix="now"):
    t = mk_time(eng.fresh_bv(prefix + "_s", 64), eng.fresh_bv(prefix + "_ns", 32), "Instant")
    eng.assume(z3.ULT(t.f[1], bv(NANOS, 32)))
    eng.assume(z3.ULT(t.f[0], bv(1 << 40, 64)))
    return t


STD_CONSTS = {
    "std::time::Duration::ZERO": lambda e: ZERO_DUR,
    "std::time::Duration::MAX": lambda e: mk_time(bv((1 << 64) - 1, 64), bv(NANOS - 1, 32), "Duration"),
    "std::time::UNIX_EPOCH": lambda e: mk_time(bv(0, 64), bv(0, 32), "SystemTime"),
    "std::time::SystemTime::UNIX_EPOCH": lambda e: mk_time(bv(0, 64), bv(0, 32), "SystemTime"),
    "usize::MAX": lambda e: bv((1 << 64) - 1, 64),
    "u64::MAX": lambda e: bv((1 << 64) - 1, 64),
    "u32::MAX": lambda e: bv((1 << 32) - 1, 32),
    "core::num::<impl usize>::MAX": lambda e: bv((1 << 64) - 1, 64),
    "core::num::<impl u64>::MAX": lambda e: bv((1 << 64) - 1, 64),
    "core::num::<impl u32>::MAX": lambda e: bv((1 << 32) - 1, 32),
    "f64::EPSILON": lambda e: z3.FPVal(2.220446049250313e-16, F64),
    "core::f64::<impl f64>::EPSILON": lambda e: z3.FPVal(2.220446049250313e-16, F64),
    "f64::INFINITY": lambda e: z3.fpPlusInfinity(F64),
    "f64::NEG_INFINITY": lambda e: z3.fpMinusInfinity(F64),
    "f64::NAN": lambda e: z3.fpNaN(F64),
    "f64::MAX": lambda e: z3.FPVal(1.7976931348623157e308, F64),
    "f64::MIN": lambda e: z3.FPVal(-1.7976931348623157e308, F64),
    "std::num::NonZero::MIN": lambda e: bv(1, 64),
}


def _tracing_level(i):
    info = EnumInfo("LevelInner", ["Trace", "Debug", "Info", "Warn", "Error"])
    return lambda e: VStruct([VEnum(info, bv(i, 8), {i: ()})], "tracing::Level")


for _i, _n in enumerate(["TRACE", "DEBUG", "INFO", "WARN", "ERROR"]):
    STD_CONSTS["tracing::Level::" + _n] = _tracing_level(_i)


# ------------------------------------------------------------------------------------- clock


@summary(r"^(std|tokio)::time::Instant::now$", "Instant::now -> fresh symbolic instant, non-decreasing along a path, secs < 2^40")
def _instant_now(eng, st, args, dty, callee, m):
    t = fresh_instant(eng, st)
    if st.clock is not None:
        eng.assume(z3.Implies(st.pc, time_le(st.clock, t)))
    st.clock = t
    if hasattr(eng, "clock_readings"):
        eng.clock_readings.append(t)
    return t


@summary(r"^std::time::SystemTime::now$", "SystemTime::now -> fresh symbolic time since epoch, non-decreasing, secs < 2^40")
def _systime_now(eng, st, args, dty, callee, m):
    t = fresh_instant(eng, st, "sysnow")
    t = VStruct(t.f, "SystemTime")
    if st.clock is not None:
        eng.assume(z3.Implies(st.pc, time_le(st.clock, t)))
    st.clock = t
    if hasattr(eng, "clock_readings"):
        eng.clock_readings.append(t)
    return t


@summary(r"^(std|tokio)::time::Instant::(duration_since|saturating_duration_since)$", "Instant::duration_since (saturating at zero)")
def _duration_since(eng, st, args, dty, callee, m):
    a = deref(eng, st, args[0])
    b = deref(eng, st, args[1])
    ge = time_le(b, a)
    d = time_sub(a, b)
    return merge(ge, d, ZERO_DUR)


@summary(r"^std::time::Instant::checked_duration_since$", "Instant::checked_duration_since")
def _checked_duration_since(eng, st, args, dty, callee, m):
    a = deref(eng, st, args[0])
    b = deref(eng, st, args[1])
    return option(time_le(b, a), time_sub(a, b))


@summary(r"^std::time::SystemTime::duration_since$", "SystemTime::duration_since -> Ok(a-b) if a>=b else Err(opaque)")
def _sys_duration_since(eng, st, args, dty, callee, m):
    a = deref(eng, st, args[0])
    b = deref(eng, st, args[1])
    ge = time_le(b, a)
    return VEnum(RESULT, z3.If(ge, bv(0, 8), bv(1, 8)), {0: (time_sub(a, b),), 1: (VOpaque("SystemTimeError"),)})


@summary(r"^(std|tokio)::time::Instant::elapsed$", "Instant::elapsed = now() - self (saturating)")
def _elapsed(eng, st, args, dty, callee, m):
    now = _instant_now(eng, st, [], None, callee, m)
    a = deref(eng, st, args[0])
    return merge(time_le(a, now), time_sub(now, a), ZERO_DUR)


@summary(r"^<(std::time::)?(Duration|Instant|SystemTime) as PartialOrd>::(gt|lt|ge|le)$", "PartialOrd for Duration/Instant (lexicographic secs,nanos)")
def _time_cmp(eng, st, args, dty, callee, m):
    a = deref(eng, st, args[0])
    b = deref(eng, st, args[1])
    op = m.group(3)
    if op == "gt":
        return simp(time_lt(b, a))
    if op == "lt":
        return simp(time_lt(a, b))
    if op == "ge":
        return simp(time_le(b, a))
    return simp(time_le(a, b))


@summary(r"^<(std::time::)?(Duration|Instant|SystemTime) as PartialEq>::(eq|ne)$", "PartialEq for Duration/Instant")
def _time_eq(eng, st, args, dty, callee, m):
    a = deref(eng, st, args[0])
    b = deref(eng, st, args[1])
    e = simp(time_eq(a, b))
    return e if m.group(3) == "eq" else simp(z3.Not(e))


@summary(r"^<(std::time::)?(Duration|Instant|SystemTime) as (Ord|PartialOrd)>::(cmp|partial_cmp)$", "Ord for Duration/Instant")
def _time_ord(eng, st, args, dty, callee, m):
    a = deref(eng, st, args[0])
    b = deref(eng, st, args[1])
    o = ordering(time_lt(a, b), time_eq(a, b))
    return o if m.group(4) == "cmp" else some(o)


@summary(r"^<(std::time::)?(Duration|Instant|SystemTime) as (std::cmp::)?Ord>::(min|max)$", "Ord::min / max for Duration/Instant")
def _time_minmax(eng, st, args, dty, callee, m):
    a = deref(eng, st, args[0])
    b = deref(eng, st, args[1])
    pick_a = z3.Or(time_lt(a, b), time_eq(a, b)) if m.group(4) == "min" else time_lt(b, a)
    return merge(pick_a, a, b)


@summary(r"^(std::time::)?Duration::as_secs_f64$", "Duration::as_secs_f64 = secs as f64 + nanos as f64 / 1e9 (std's own formula)")
def _as_secs_f64(eng, st, args, dty, callee, m):
    d = deref(eng, st, args[0])
    return z3.fpAdd(RNE, z3.fpUnsignedToFP(RNE, d.f[0], F64), z3.fpDiv(RNE, z3.fpUnsignedToFP(RNE, d.f[1], F64), z3.FPVal(1e9, F64)))


@summary(r"^(std::time::)?Duration::as_secs$", "Duration::as_secs")
def _as_secs(eng, st, args, dty, callee, m):
    return deref(eng, st, args[0]).f[0]


@summary(r"^(std::time::)?Duration::subsec_nanos$", "Duration::subsec_nanos")
def _subsec_nanos(eng, st, args, dty, callee, m):
    return deref(eng, st, args[0]).f[1]


@summary(r"^(std::time::)?Duration::as_millis$", "Duration::as_millis (u128)")
def _as_millis(eng, st, args, dty, callee, m):
    d = deref(eng, st, args[0])
    return z3.ZeroExt(64, d.f[0]) * bv(1000, 128) + z3.ZeroExt(96, z3.UDiv(d.f[1], bv(1_000_000, 32)))


@summary(r"^(std::time::)?Duration::as_micros$", "Duration::as_micros (u128)")
def _as_micros(eng, st, args, dty, callee, m):
    d = deref(eng, st, args[0])
    return z3.ZeroExt(64, d.f[0]) * bv(1_000_000, 128) + z3.ZeroExt(96, z3.UDiv(d.f[1], bv(1000, 32)))


@summary(r"^(std::time::)?Duration::from_secs$", "Duration::from_secs")
def _from_secs(eng, st, args, dty, callee, m):
    return mk_time(args[0], bv(0, 32), "Duration")


@summary(r"^(std::time::)?Duration::from_millis$", "Duration::from_millis")
def _from_millis(eng, st, args, dty, callee, m):
    ms = args[0]
    return mk_time(simp(z3.UDiv(ms, bv(1000, 64))), simp(z3.Extract(31, 0, z3.URem(ms, bv(1000, 64))) * bv(1_000_000, 32)), "Duration")


@summary(r"^(std::time::)?Duration::abs_diff$", "Duration::abs_diff")
def _abs_diff(eng, st, args, dty, callee, m):
    a = deref(eng, st, args[0])
    b = deref(eng, st, args[1])
    return merge(time_le(b, a), time_sub(a, b), time_sub(b, a))


@summary(r"^<(std::time::)?(Instant|SystemTime) as Add<(std::time::)?Duration>>::add$", "Instant + Duration (no overflow modelled; secs < 2^40)")
def _instant_add(eng, st, args, dty, callee, m):
    a = deref(eng, st, args[0])
    d = deref(eng, st, args[1])
    return time_add(a, d, m.group(2))


@summary(r"^<(std::time::)?Duration as (Add|Sub)>::(add|sub)$", "Duration +/- Duration (panic on underflow becomes an obligation)")
def _dur_arith(eng, st, args, dty, callee, m):
    a = deref(eng, st, args[0])
    b = deref(eng, st, args[1])
    if m.group(3) == "add":
        return time_add(a, b, "Duration")
    eng.oblige(st, "panic:Duration::sub underflow", time_lt(a, b))
    return time_sub(a, b)


@summary(r"^<(std::time::)?Duration as Mul<u32>>::mul$", "Duration * u32 for a small constant factor (repeated addition; overflow panic becomes an obligation)")
def _dur_mul(eng, st, args, dty, callee, m):
    a = deref(eng, st, args[0])
    k = as_int(args[1])
    if k is None or k > 16:
        raise SymError("Duration * u32 with a symbolic or large factor")
    eng.oblige(st, "panic:Duration * u32 overflow", z3.UGE(a.f[0], bv((1 << 63) // max(k, 1), 64)))
    r = ZERO_DUR
    for _ in range(k):
        r = time_add(r, a, "Duration")
    return r


# ------------------------------------------------------------------------------------- numerics


@summary(r"^core::f64::<impl f64>::(min|max)$", "f64::min / f64::max (IEEE minNum/maxNum: NaN operand ignored)")
def _fminmax(eng, st, args, dty, callee, m):
    a, b = args
    if m.group(1) == "min":
        return z3.If(z3.fpIsNaN(a), b, z3.If(z3.fpIsNaN(b), a, z3.If(z3.fpLT(a, b), a, b)))
    return z3.If(z3.fpIsNaN(a), b, z3.If(z3.fpIsNaN(b), a, z3.If(z3.fpGT(a, b), a, b)))


@summary(r"^core::f64::<impl f64>::(is_nan|is_finite|is_infinite|is_sign_negative)$", "f64 classification")
def _fclass(eng, st, args, dty, callee, m):
    a = args[0]
    k = m.group(1)
    if k == "is_nan":
        return z3.fpIsNaN(a)
    if k == "is_infinite":
        return z3.fpIsInf(a)
    if k == "is_sign_negative":
        return z3.fpIsNegative(a)
    return z3.And(z3.Not(z3.fpIsNaN(a)), z3.Not(z3.fpIsInf(a)))


@summary(r"^(std|core)::f64::<impl f64>::(floor|ceil|round|trunc|abs|sqrt)$", "f64 floor/ceil/round/trunc/abs/sqrt (IEEE exact)")
def _fround(eng, st, args, dty, callee, m):
    a = args[0]
    k = m.group(2)
    if k == "floor":
        return z3.fpRoundToIntegral(z3.RTN(), a)
    if k == "ceil":
        return z3.fpRoundToIntegral(z3.RTP(), a)
    if k == "trunc":
        return z3.fpRoundToIntegral(z3.RTZ(), a)
    if k == "round":
        return z3.fpRoundToIntegral(z3.RNA(), a)
    if k == "abs":
        return z3.fpAbs(a)
    return z3.fpSqrt(RNE, a)


@summary(r"^core::f64::<impl f64>::clamp$", "f64::clamp (min<=max obligation)")
def _fclamp(eng, st, args, dty, callee, m):
    x, lo, hi = args
    eng.oblige(st, "panic:f64::clamp min>max or NaN", z3.Not(z3.fpLEQ(lo, hi)))
    return z3.If(z3.fpLT(x, lo), lo, z3.If(z3.fpGT(x, hi), hi, x))


@summary(r"^core::f64::<impl f64>::total_cmp$", "f64::total_cmp (IEEE totalOrder via bit pattern)")
def _total_cmp(eng, st, args, dty, callee, m):
    a = deref(eng, st, args[0])
    b = deref(eng, st, args[1])
    ka = _total_key(eng, a)
    kb = _total_key(eng, b)
    return ordering(ka < kb, ka == kb)


_BITS_CACHE = {}


def _total_key(eng, x):
    # portable bit pattern: fresh bit-vector b with to_fp(b) = x (SMT-LIB has no fp->bits function; every NaN pattern is allowed)
    key = (id(eng), x.get_id())
    bits = _BITS_CACHE.get(key)
    if bits is None:
        bits = eng.fresh_bv("f64bits", 64)
        eng.assume(z3.fpBVToFP(bits, F64) == x)
        _BITS_CACHE[key] = bits
    # std: left ^= (((left >> 63) as u64) >> 1) as i64  -> signed comparison
    mask = z3.LShR(bits >> 63, bv(1, 64))
    return bits ^ mask


@summary(r"^<f64 as PartialOrd>::partial_cmp$", "f64::partial_cmp")
def _f_partial_cmp(eng, st, args, dty, callee, m):
    a = deref(eng, st, args[0])
    b = deref(eng, st, args[1])
    unord = z3.Or(z3.fpIsNaN(a), z3.fpIsNaN(b))
    o = ordering(z3.fpLT(a, b), z3.fpEQ(a, b))
    return VEnum(OPTION, z3.If(unord, bv(0, 8), bv(1, 8)), {0: (), 1: (o,)})


def _mul_ok(a, b):
    from engine import mul_no_overflow

    return mul_no_overflow(a, b, False)


_INTW = {"u8": 8, "u16": 16, "u32": 32, "u64": 64, "u128": 128, "usize": 64, "i8": 8, "i16": 16, "i32": 32, "i64": 64, "i128": 128, "isize": 64}


@summary(r"^core::num::<impl (u8|u16|u32|u64|u128|usize)>::(saturating_sub|saturating_add|wrapping_add|wrapping_sub|checked_add|checked_sub|checked_mul|min|max|abs_diff|pow|saturating_mul|leading_zeros|trailing_zeros|count_ones|is_power_of_two|div_ceil|to_be_bytes|to_le_bytes|from_be_bytes|from_le_bytes)$",
         "unsigned integer helpers (exact bit-vector semantics)")
def _uint_ops(eng, st, args, dty, callee, m):
    w = _INTW[m.group(1)]
    op = m.group(2)
    a = args[0]
    b = args[1] if len(args) > 1 else None
    if op == "saturating_sub":
        return z3.If(z3.ULT(a, b), bv(0, w), a - b)
    if op == "saturating_add":
        s = a + b
        return z3.If(z3.ULT(s, a), bv((1 << w) - 1, w), s)
    if op == "saturating_mul":
        return z3.If(_mul_ok(a, b), a * b, bv((1 << w) - 1, w))
    if op == "wrapping_add":
        return a + b
    if op == "wrapping_sub":
        return a - b
    if op == "checked_add":
        s = a + b
        return option(z3.UGE(s, a), s)
    if op == "checked_sub":
        return option(z3.UGE(a, b), a - b)
    if op == "checked_mul":
        return option(_mul_ok(a, b), a * b)
    if op == "min":
        return z3.If(z3.ULE(a, b), a, b)
    if op == "max":
        return z3.If(z3.UGE(a, b), a, b)
    if op == "abs_diff":
        return z3.If(z3.UGE(a, b), a - b, b - a)
    if op == "is_power_of_two":
        return z3.And(a != 0, (a & (a - 1)) == 0)
    if op == "div_ceil":
        return z3.UDiv(a, b) + z3.If(z3.URem(a, b) != 0, bv(1, w), bv(0, w))
    if op in ("to_be_bytes", "to_le_bytes"):
        bs = [z3.Extract(8 * i + 7, 8 * i, a) for i in range(w // 8)]
        if op == "to_be_bytes":
            bs.reverse()
        return VArr([simp(x) for x in bs])
    if op in ("from_be_bytes", "from_le_bytes"):
        arr = deref(eng, st, a)
        el = list(arr.elems)
        if op == "from_le_bytes":
            el.reverse()
        return simp(z3.Concat(*el))
    if op == "leading_zeros":
        res = bv(w, 32)
        for i in range(w):
            res = z3.If(z3.Extract(i, i, a) == 1, bv(w - 1 - i, 32), res)
        return res
    if op == "trailing_zeros":
        res = bv(w, 32)
        for i in range(w - 1, -1, -1):
            res = z3.If(z3.Extract(i, i, a) == 1, bv(i, 32), res)
        return res
    if op == "count_ones":
        return z3.Sum([z3.ZeroExt(31, z3.Extract(i, i, a)) for i in range(w)])
    raise SymError("uint op " + op)


@summary(r"^(std|core)::cmp::(min|max)::<(u8|u16|u32|u64|usize)>$", "cmp::min/max on unsigned ints")
def _cmp_minmax(eng, st, args, dty, callee, m):
    a, b = args
    if m.group(2) == "min":
        return z3.If(z3.ULE(a, b), a, b)
    return z3.If(z3.UGE(a, b), a, b)


@summary(r"^<(u8|u16|u32|u64|usize) as (std::cmp::)?Ord>::(min|max)$", "Ord::min/max on unsigned ints")
def _ord_minmax(eng, st, args, dty, callee, m):
    a, b = args
    if m.group(3) == "min":
        return z3.If(z3.ULE(a, b), a, b)
    return z3.If(z3.UGE(a, b), a, b)


@summary(r"^<(u8|u16|u32|u64|usize|u128) as (std::cmp::)?(Ord|PartialOrd)>::(cmp|partial_cmp)$", "Ord::cmp on unsigned ints")
def _uint_cmp(eng, st, args, dty, callee, m):
    a = deref(eng, st, args[0])
    b = deref(eng, st, args[1])
    o = ordering(z3.ULT(a, b), a == b)
    return o if m.group(4) == "cmp" else some(o)


@summary(r"^std::num::NonZero::<usize>::new$", "NonZero::new")
def _nonzero_new(eng, st, args, dty, callee, m):
    return option(args[0] != 0, args[0])


@summary(r"^std::num::NonZero::<usize>::get$", "NonZero::get")
def _nonzero_get(eng, st, args, dty, callee, m):
    return args[0]


# ------------------------------------------------------------------------------------- Option / Result


@summary(r"^std::option::Option::<.*>::(unwrap_or|unwrap_or_default)$", "Option::unwrap_or")
def _opt_unwrap_or(eng, st, args, dty, callee, m):
    o = args[0]
    if m.group(1) == "unwrap_or_default":
        raise SymError("unwrap_or_default")
    return merge(is_variant(o, 1), o.pay[1][0], args[1]) if 1 in o.pay else args[1]


@summary(r"^std::option::Option::<.*>::(is_some|is_none)$", "Option::is_some/is_none")
def _opt_is(eng, st, args, dty, callee, m):
    o = deref(eng, st, args[0])
    return is_variant(o, 1 if m.group(1) == "is_some" else 0)


@summary(r"^std::option::Option::<.*>::(unwrap|expect)$", "Option::unwrap/expect (None => panic obligation)")
def _opt_unwrap(eng, st, args, dty, callee, m):
    o = args[0]
    eng.oblige(st, "panic:Option::" + m.group(1) + " on None", is_variant(o, 0))
    if 1 not in o.pay:
        return None
    st.pc = simp(z3.And(st.pc, is_variant(o, 1)))
    return o.pay[1][0]


@summary(r"^std::result::Result::<.*>::(unwrap|expect)$", "Result::unwrap/expect (Err => panic obligation)")
def _res_unwrap(eng, st, args, dty, callee, m):
    o = args[0]
    eng.oblige(st, "panic:Result::" + m.group(1) + " on Err", is_variant(o, 1))
    if 0 not in o.pay:
        return None
    st.pc = simp(z3.And(st.pc, is_variant(o, 0)))
    return o.pay[0][0]


@summary(r"^std::result::Result::<.*>::(is_ok|is_err)$", "Result::is_ok/is_err")
def _res_is(eng, st, args, dty, callee, m):
    o = deref(eng, st, args[0])
    return is_variant(o, 0 if m.group(1) == "is_ok" else 1)


@summary(r"^std::result::Result::<.*>::unwrap_or$", "Result::unwrap_or")
def _res_unwrap_or(eng, st, args, dty, callee, m):
    o = args[0]
    return merge(is_variant(o, 0), o.pay[0][0], args[1]) if 0 in o.pay else args[1]


@summary(r"^std::result::Result::<.*>::ok$", "Result::ok")
def _res_ok(eng, st, args, dty, callee, m):
    o = args[0]
    if 0 not in o.pay:
        return none()
    return option(is_variant(o, 0), o.pay[0][0])


@summary(r"^std::option::Option::<.*>::is_some_and::<.*>$", "Option::is_some_and (real closure executed)")
def _opt_is_some_and(eng, st, args, dty, callee, m):
    o, f = args
    if 1 not in o.pay:
        return z3.BoolVal(False)
    s2, r = eng.call_closure(st, f, [o.pay[1][0]])
    _adopt(st, s2)
    return simp(z3.And(is_variant(o, 1), r))


@summary(r"^std::option::Option::<.*>::(map|and_then)::<.*>$", "Option::map / and_then (real closure executed)")
def _opt_map(eng, st, args, dty, callee, m):
    o, f = args
    if 1 not in o.pay:
        return none()
    s2, r = eng.call_closure(st, f, [o.pay[1][0]])
    _adopt(st, s2)
    if m.group(1) == "map":
        return option(is_variant(o, 1), r)
    return merge(is_variant(o, 1), r, none())


@summary(r"^std::option::Option::<.*>::map_or::<.*>$", "Option::map_or (real closure executed)")
def _opt_map_or(eng, st, args, dty, callee, m):
    o, d, f = args
    if 1 not in o.pay:
        return d
    s2, r = eng.call_closure(st, f, [o.pay[1][0]])
    _adopt(st, s2)
    return merge(is_variant(o, 1), r, d)


@summary(r"^std::option::Option::<.*>::(unwrap_or_else|map_or_else)::<.*>$", "Option::unwrap_or_else (real closure executed)")
def _opt_unwrap_or_else(eng, st, args, dty, callee, m):
    if m.group(1) == "map_or_else":
        raise SymError("map_or_else")
    o, f = args
    s2, r = eng.call_closure(st, f, [])
    _adopt(st, s2)
    if 1 not in o.pay:
        return r
    return merge(is_variant(o, 1), o.pay[1][0], r)


@summary(r"^std::result::Result::<.*>::map::<.*>$", "Result::map (real closure executed)")
def _res_map(eng, st, args, dty, callee, m):
    o, f = args
    pay = dict(o.pay)
    if 0 in o.pay:
        s2, r = eng.call_closure(st, f, [o.pay[0][0]])
        _adopt(st, s2)
        pay[0] = (r,)
    return VEnum(RESULT, o.idx, pay)


@summary(r"^std::result::Result::<.*>::map_err::<.*>$", "Result::map_err (error value becomes opaque; closure not run)")
def _res_map_err(eng, st, args, dty, callee, m):
    o, f = args
    pay = dict(o.pay)
    pay[1] = (VOpaque("mapped error"),)
    return VEnum(RESULT, o.idx, pay)


@summary(r"^std::option::Option::<.*>::(copied|cloned)$", "Option<&T>::copied/cloned")
def _opt_copied(eng, st, args, dty, callee, m):
    o = args[0]
    if 1 not in o.pay:
        return none()
    return VEnum(OPTION, o.idx, {0: (), 1: (deref(eng, st, o.pay[1][0]),)})


@summary(r"^std::option::Option::<.*>::(as_ref|as_mut)$", "Option::as_ref/as_mut")
def _opt_as_ref(eng, st, args, dty, callee, m):
    r = args[0]
    o = eng.load(st, r)
    if 1 not in o.pay:
        return none()
    return VEnum(OPTION, o.idx, {0: (), 1: (VRef(r.root, r.path + (("v", 1), 0), True),)})


@summary(r"^std::option::Option::<.*>::(as_deref)$", "Option<String>::as_deref")
def _opt_as_deref(eng, st, args, dty, callee, m):
    r = args[0]
    o = eng.load(st, r)
    if 1 not in o.pay:
        return none()
    return VEnum(OPTION, o.idx, {0: (), 1: (VRef(r.root, r.path + (("v", 1), 0), True),)})


@summary(r"^std::option::Option::<.*>::ok_or(_else)?(::<.*>)?$", "Option::ok_or(_else): error value opaque")
def _opt_ok_or(eng, st, args, dty, callee, m):
    o = args[0]
    pay = {1: (VOpaque("error"),)}
    if 1 in o.pay:
        pay[0] = o.pay[1]
    return VEnum(RESULT, z3.If(is_variant(o, 1), bv(0, 8), bv(1, 8)), pay)


@summary(r"^<std::option::Option<.*> as (std::ops::)?Try>::branch$", "Option as Try::branch")
def _opt_branch(eng, st, args, dty, callee, m):
    o = args[0]
    info = EnumInfo("ControlFlow", ["Continue", "Break"])
    pay = {1: (none(),)}
    if 1 in o.pay:
        pay[0] = o.pay[1]
    return VEnum(info, z3.If(is_variant(o, 1), bv(0, 8), bv(1, 8)), pay)


@summary(r"^<std::result::Result<.*> as (std::ops::)?Try>::branch$", "Result as Try::branch")
def _res_branch(eng, st, args, dty, callee, m):
    o = args[0]
    info = EnumInfo("ControlFlow", ["Continue", "Break"])
    pay = {}
    if 0 in o.pay:
        pay[0] = o.pay[0]
    if 1 in o.pay:
        pay[1] = (VEnum(RESULT, bv(1, 8), {1: o.pay[1]}),)
    return VEnum(info, z3.If(is_variant(o, 0), bv(0, 8), bv(1, 8)), pay)


@summary(r"^<std::result::Result<.*> as FromResidual<.*>>::from_residual$", "Result::from_residual (error converted opaquely)")
def _res_from_residual(eng, st, args, dty, callee, m):
    return VEnum(RESULT, bv(1, 8), {1: (VOpaque("residual error"),)})


@summary(r"^<std::option::Option<.*> as FromResidual<.*>>::from_residual$", "Option::from_residual")
def _opt_from_residual(eng, st, args, dty, callee, m):
    return none()


def _adopt(st, s2):
    st.mem = s2.mem
    st.pc = s2.pc
    st.clock = s2.clock


# ------------------------------------------------------------------------------------- clone / conversions / smart pointers / locks


@summary(r"^<.* as Clone>::clone$", "Clone::clone = structural copy (derive(Clone) and std types)")
def _clone(eng, st, args, dty, callee, m):
    v = eng.load(st, args[0])
    if isinstance(v, VRef) and "Arc<" not in callee and "Rc<" not in callee and not callee.startswith("<&"):
        return v
    return v


@summary(r"^<.* as (Into|From)<.*>>::(into|from)$", "Into/From between identical or wrapper types: identity (String from &str etc.)")
def _into(eng, st, args, dty, callee, m):
    return args[0]


@summary(r"^<.* as (Deref|DerefMut)>::(deref|deref_mut)$", "Deref for Vec/String/Box/Arc/lock guards: reference to the inner value")
def _deref(eng, st, args, dty, callee, m):
    r = args[0]
    inner = eng.load(st, r)
    if isinstance(inner, VRef):
        return inner  # guard / Arc / Box hold a reference to the protected value
    return r  # Vec<T> -> [T], String -> str: same object


@summary(r"^<.* as (AsRef|Borrow|AsMut|BorrowMut)<.*>>::(as_ref|borrow|as_mut|borrow_mut)$", "AsRef/Borrow: same object")
def _asref(eng, st, args, dty, callee, m):
    r = args[0]
    inner = eng.load(st, r)
    if isinstance(inner, VRef):
        return inner
    return r


@summary(r"^(std::sync::)?(Arc|Rc)::<.*>::new$|^Box::<.*>::new$|^std::boxed::Box::<.*>::new$", "Arc/Rc/Box::new: fresh heap cell")
def _arc_new(eng, st, args, dty, callee, m):
    return eng.alloc(st, args[0])


@summary(r"^(std::boxed::)?Box::<\[.*; \d+\]>::new_uninit$", "vec![..] expansion: Box<[T; N]>::new_uninit = fresh heap cell shaped MaybeUninit<[T; N]>")
def _box_new_uninit(eng, st, args, dty, callee, m):
    cell = VStruct([VStruct([], "()"), VStruct([VStruct([VPoison("uninitialised box")], "MaybeDangling")], "ManuallyDrop")], "MaybeUninit")
    return VStruct([VStruct([eng.alloc(st, cell)], "Unique")], "Box")


@summary(r"^std::boxed::box_assume_init_into_vec_unsafe::<.*>$", "vec![..] expansion: the initialised boxed array becomes a Vec of its N elements")
def _box_into_vec(eng, st, args, dty, callee, m):
    cell = eng.load(st, args[0].f[0].f[0])
    arr = cell.f[1].f[0].f[0]
    if not isinstance(arr, VArr):
        raise SymError("box_assume_init_into_vec_unsafe: box was not initialised with an array")
    return VSeq(list(arr.elems), bv(len(arr.elems), 64))


@summary(r"^std::sync::Mutex::<.*>::new$|^std::sync::RwLock::<.*>::new$|^parking_lot::lock_api::(RwLock|Mutex)::<.*>::new$|^tokio::sync::(RwLock|Mutex)::<.*>::new$",
         "Mutex/RwLock::new: transparent wrapper (single-threaded model)")
def _lock_new(eng, st, args, dty, callee, m):
    return args[0]


@summary(r"^std::sync::(Mutex|RwLock)::<.*>::(lock|read|write)$", "std Mutex/RwLock lock: always Ok(guard), guard = reference to the protected value (no poisoning, single thread)")
def _std_lock(eng, st, args, dty, callee, m):
    _note_lock(eng, st, args[0], callee)
    return ok(args[0])


@summary(r"^parking_lot::lock_api::(RwLock|Mutex)::<.*>::(lock|read|write)$", "parking_lot lock: guard = reference to the protected value (single thread)")
def _pl_lock(eng, st, args, dty, callee, m):
    _note_lock(eng, st, args[0], callee)
    return args[0]


def _note_lock(eng, st, ref, callee):
    """record every lock acquisition (lock object, path condition) so that a check can demand a single critical section"""
    if not hasattr(eng, "lock_acquisitions"):
        eng.lock_acquisitions = []
    r = ref
    n = 0
    while isinstance(r, VRef) and n < 3:
        inner = eng.load(st, r)
        if isinstance(inner, VRef):
            r = inner
            n += 1
        else:
            break
    key = (r.root, tuple(str(p) for p in r.path)) if isinstance(r, VRef) else ("?",)
    eng.lock_acquisitions.append({"lock": key, "pc": st.pc, "callee": callee.split("::<")[0]})


@summary(r"^std::sync::atomic::Atomic(Bool|U64|Usize|U32|::<.*>)::load$", "atomic load (single-threaded)")
def _atomic_load(eng, st, args, dty, callee, m):
    return eng.load(st, args[0])


@summary(r"^std::sync::atomic::Atomic(Bool|U64|Usize|U32|::<.*>)::store$", "atomic store (single-threaded)")
def _atomic_store(eng, st, args, dty, callee, m):
    eng.store(st, args[0], args[1])
    return UNIT


ONESHOT_RX_ALIVE = z3.Function("oneshot_rx_alive", z3.BitVecSort(64), z3.BoolSort())


@summary(r"^tokio::sync::oneshot::channel::<.*>$", "oneshot::channel: a sender / receiver pair sharing a fresh channel identity")
def _oneshot_channel(eng, st, args, dty, callee, m):
    c = eng.fresh_bv("oneshot", 64)
    return VStruct([VStruct([c], "OneshotSender"), VStruct([c], "OneshotReceiver")])


@summary(r"^tokio::sync::oneshot::Sender::<.*>::send$",
         "oneshot::Sender::send: the delivery (path condition, channel identity, value) is recorded; Ok iff the receiver is still alive (uninterpreted predicate of the channel)")
def _oneshot_send(eng, st, args, dty, callee, m):
    tx = deref(eng, st, args[0])
    if not (isinstance(tx, VStruct) and tx.ty == "OneshotSender"):
        raise SymError(f"oneshot send on {tx!r}")
    if not hasattr(eng, "deliveries"):
        eng.deliveries = []
    eng.deliveries.append({"pc": st.pc, "chan": tx.f[0], "value": args[1]})
    alive = ONESHOT_RX_ALIVE(tx.f[0])
    return VEnum(RESULT, z3.If(alive, bv(0, 8), bv(1, 8)), {0: (UNIT,), 1: (args[1],)})


@summary(r"^<\{closure@[^}]*\} as (Fn|FnMut|FnOnce)<.*>>::(call|call_mut|call_once)$|^<&(mut )?\{closure@[^}]*\} as (Fn|FnMut|FnOnce)<.*>>::(call|call_mut|call_once)$",
         "direct call of a local closure through Fn / FnMut / FnOnce: its real MIR body is executed")
def _closure_call(eng, st, args, dty, callee, m):
    tup = args[1]
    actual = list(tup.f) if isinstance(tup, VStruct) else [tup]
    s2, r = eng.call_closure(st, args[0], actual)
    _adopt(st, s2)
    return r


@summary(r"^<(std::option::)?Option<.*> as Default>::default$", "Option::default = None")
def _opt_default(eng, st, args, dty, callee, m):
    return none()


@summary(r"^std::sync::atomic::Atomic(U64|Usize|U32|::<u(8|16|32|64|size)>)::fetch_(add|sub)$", "atomic fetch_add / fetch_sub (single-threaded, wrapping)")
def _atomic_fetch_add(eng, st, args, dty, callee, m):
    old = eng.load(st, args[0])
    if not z3.is_bv(old):
        raise SymError(f"fetch_add on a non-integer atomic {old!r}")
    eng.store(st, args[0], simp(old + args[1]) if m.group(3) == "add" else simp(old - args[1]))
    return old


@summary(r"^std::sync::atomic::Atomic(Bool|U64|Usize|U32|::<.*>)::new$", "atomic new")
def _atomic_new(eng, st, args, dty, callee, m):
    return args[0]


@summary(r"^std::mem::(drop|forget)::<.*>$", "mem::drop/forget: no-op")
def _memdrop(eng, st, args, dty, callee, m):
    return UNIT


@summary(r"^std::mem::(replace|take)::<.*>$", "mem::replace")
def _memreplace(eng, st, args, dty, callee, m):
    if m.group(1) == "take":
        raise SymError("mem::take")
    old = eng.load(st, args[0])
    eng.store(st, args[0], args[1])
    return old


# ------------------------------------------------------------------------------------- panics / logging / formatting


@summary(r"^(core|std)::panicking::(panic|panic_fmt|panic_bounds_check|panic_nounwind|assert_failed.*|panic_explicit|unreachable_display.*|panic_const::.*|begin_panic.*)(::<.*>)?$|^core::option::(unwrap_failed|expect_failed)$|^core::result::unwrap_failed$|^core::slice::index::slice_(start|end)_index_len_fail$|^core::slice::index::slice_index_order_fail$",
         "explicit panic: reaching it is an obligation")
def _panic(eng, st, args, dty, callee, m):
    eng.oblige(st, "panic:" + callee.split("::")[-1], z3.BoolVal(True))
    return None


@summary(r"^(core|std)::fmt::(Arguments|rt::Argument)::<?.*$|^(std::fmt::|core::fmt::)?Arguments::<'_>::.*$|^core::fmt::rt::.*$|^(core::fmt::rt::)?Argument::<'_>::.*$", "fmt::Arguments construction: opaque")
def _fmt_args(eng, st, args, dty, callee, m):
    return VOpaque("fmt::Arguments")


@summary(r"^(alloc|std)::fmt::format$|^std::fmt::format::.*$|^alloc::fmt::format::.*$", "format!: abstract string with fresh identity")
def _format(eng, st, args, dty, callee, m):
    return VStr(eng.fresh_bv("fmtstr", 64))


@summary(r"^<.* as ToString>::to_string$|^<str as ToOwned>::to_owned$|^std::string::String::from$|^<String as From<&str>>::from$|^str::<impl str>::to_string$|^alloc::str::<impl str>::to_(string|owned)$",
         "to_string/to_owned on strings: same abstract string")
def _to_string(eng, st, args, dty, callee, m):
    v = deref(eng, st, args[0])
    if isinstance(v, VStr):
        return v
    return VStr(eng.fresh_bv("tostr", 64))


@summary(r"^(core::hint::|std::hint::)?must_use::<.*>$|^(core|std)::hint::black_box::<.*>$", "hint::must_use / black_box: identity")
def _must_use(eng, st, args, dty, callee, m):
    return args[0]


@summary(r"^tracing::.*$|^tracing_core::.*$|^<tracing::.*$|^<tracing_core::.*$|^log::.*$|^<log::.*$|^core::hint::.*$|^std::hint::.*$", "tracing/log machinery: opaque, effect-free, every level disabled")
def _tracing(eng, st, args, dty, callee, m):
    if dty is not None and dty.kind == "bool":
        return z3.BoolVal(False)  # `enabled` style predicates: logging disabled
    return VOpaque("tracing")


@summary(r"^.*__CALLSITE.*$|^.*::__is_enabled$", "tracing callsite statics: logging disabled")
def _callsite(eng, st, args, dty, callee, m):
    if dty is not None and dty.kind == "bool":
        return z3.BoolVal(False)
    return VOpaque("callsite")


@summary(r"^anyhow::.*$|^<anyhow::Error as .*$", "anyhow error construction: opaque")
def _anyhow(eng, st, args, dty, callee, m):
    return VOpaque("anyhow::Error")


def _install_more():
    import summaries_coll  # noqa: F401  (registers its entries)
    import summaries_iter  # noqa: F401
    import summaries_bytes  # noqa: F401


_install_more()


@summary(r"^std::option::Option::<.*>::filter::<.*>$", "Option::filter (real closure executed on a reference to the payload)")
def _opt_filter(eng, st, args, dty, callee, m):
    o, f = args
    if 1 not in o.pay:
        return none()
    ref = eng.alloc(st, o.pay[1][0], "T")
    s2, r = eng.call_closure(st, f, [ref])
    _adopt(st, s2)
    return VEnum(OPTION, z3.If(z3.And(is_variant(o, 1), r), bv(1, 8), bv(0, 8)), {0: (), 1: o.pay[1]})


# ------------------------------------------------------------------------------------- abstract strings
def _as_str(eng, st, v):
    v = deref(eng, st, v)
    if not isinstance(v, VStr):
        raise SymError(f"expected a string, found {v!r}")
    return v


@summary(r"^std::string::String::(len|is_empty)$|^core::str::<impl str>::(len|is_empty)$|^str::<impl str>::(len|is_empty)$", "String/str len: uninterpreted function of the abstract string (literal lengths are concrete)")
def _str_len(eng, st, args, dty, callee, m):
    s = _as_str(eng, st, args[0])
    ln = eng.str_len(s)
    if callee.endswith("is_empty"):
        return simp(ln == 0)
    return ln


@summary(r"^<(std::string::)?String as PartialEq(<.*>)?>::(eq|ne)$|^<str as PartialEq(<.*>)?>::(eq|ne)$|^<&str as PartialEq(<.*>)?>::(eq|ne)$|^core::str::traits::<impl PartialEq for str>::(eq|ne)$",
         "string equality = identity of the abstract strings")
def _str_eq(eng, st, args, dty, callee, m):
    a = _as_str(eng, st, args[0])
    b = _as_str(eng, st, args[1])
    e = simp(a.id == b.id)
    return e if callee.endswith("eq") else simp(z3.Not(e))


@summary(r"^std::string::String::(as_str|as_mut_str)$|^<(std::string::)?String as Deref>::deref$|^<(std::string::)?String as AsRef<str>>::as_ref$|^<(std::string::)?String as Borrow<str>>::borrow$", "String -> &str: same abstract string")
def _str_as_str(eng, st, args, dty, callee, m):
    return args[0]


@summary(r"^std::string::String::new$", "String::new: the empty string")
def _str_new(eng, st, args, dty, callee, m):
    return eng.str_lit("")


@summary(r"^core::str::<impl str>::(starts_with|ends_with|contains)::<.*>$", "str predicates: uninterpreted predicate of the two abstract strings")
def _str_pred(eng, st, args, dty, callee, m):
    a = _as_str(eng, st, args[0])
    b = deref(eng, st, args[1])
    bid = b.id if isinstance(b, VStr) else (z3.ZeroExt(64 - b.size(), b) if z3.is_bv(b) and b.size() <= 64 else bv(0, 64))
    f = z3.Function("str_" + m.group(1), z3.BitVecSort(64), z3.BitVecSort(64), z3.BoolSort())
    return f(a.id, bid)


@summary(r"^std::cmp::Ordering::then_with::<.*>$", "Ordering::then_with (real closure executed for the tie case)")
def _ord_then_with(eng, st, args, dty, callee, m):
    o, f = args
    s2, r = eng.call_closure(st, f, [])
    _adopt(st, s2)
    return VEnum(ORDERING, z3.If(o.idx == bv(1, 8), r.idx, o.idx), {0: (), 1: (), 2: ()})


@summary(r"^std::cmp::Ordering::(then|reverse|is_lt|is_le|is_gt|is_ge|is_eq|is_ne)$", "Ordering helpers")
def _ord_helpers(eng, st, args, dty, callee, m):
    o = deref(eng, st, args[0])
    k = m.group(1)
    if k == "then":
        return VEnum(ORDERING, z3.If(o.idx == bv(1, 8), args[1].idx, o.idx), {0: (), 1: (), 2: ()})
    if k == "reverse":
        return VEnum(ORDERING, z3.If(o.idx == bv(0, 8), bv(2, 8), z3.If(o.idx == bv(2, 8), bv(0, 8), bv(1, 8))), {0: (), 1: (), 2: ()})
    i = o.idx
    return simp({"is_lt": i == 0, "is_le": i != 2, "is_gt": i == 2, "is_ge": i != 0, "is_eq": i == 1, "is_ne": i != 1}[k])


@summary(r"^<&(mut )?(.+) as (std::cmp::)?PartialEq(<.*>)?>::(eq|ne)$", "PartialEq for references: compares the referents with the type's own eq")
def _ref_eq(eng, st, args, dty, callee, m):
    inner = m.group(2)
    a = eng.load(st, args[0])
    b = eng.load(st, args[1])
    r = eng.dispatch(st, f"<{inner} as PartialEq>::eq", [a, b], dty, None, None)
    if r is None:
        return None
    s2, v = r
    _adopt(st, s2)
    return v if m.group(5) == "eq" else simp(z3.Not(v))


@summary(r"^<(.+) as (std::cmp::)?PartialEq(<.*>)?>::ne$", "PartialEq::ne = !eq (default method)")
def _default_ne(eng, st, args, dty, callee, m):
    if m.group(1).startswith("&"):
        return NotImplemented
    r = eng.dispatch(st, f"<{m.group(1)} as PartialEq>::eq", list(args), dty, None, None)
    if r is None:
        return None
    s2, v = r
    _adopt(st, s2)
    return simp(z3.Not(v))


# ------------------------------------------------------------------------------------- async: futures are polled to completion in place
from values import VCoroutine  # noqa: E402

POLL = EnumInfo("Poll", ["Ready", "Pending"])


@summary(r"^(std::pin::)?Pin::<.*>::(new_unchecked|new)$", "Pin::new(_unchecked): wrapper around the reference")
def _pin_new(eng, st, args, dty, callee, m):
    return VStruct([args[0]], "Pin")


@summary(r"^(std::pin::)?Pin::<.*>::(get_mut|get_unchecked_mut|into_inner|get_ref|into_ref|as_mut)$", "Pin accessors")
def _pin_get(eng, st, args, dty, callee, m):
    p = args[0]
    if isinstance(p, VRef):
        p = eng.load(st, p)
    if m.group(2) == "as_mut":
        return p
    return p.f[0]


@summary(r"^<.* as (std::future::|core::future::)?IntoFuture>::into_future$", "IntoFuture for futures: identity")
def _into_future(eng, st, args, dty, callee, m):
    return args[0]


@summary(r"^tokio::sync::(Mutex|RwLock)::<.*>::(lock|read|write)$", "tokio lock: a future that is immediately Ready with a guard (= reference to the protected value); single task, never contended")
def _tokio_lock(eng, st, args, dty, callee, m):
    _note_lock(eng, st, args[0], callee)
    return VStruct([args[0]], "ReadyFuture")


@summary(r"^<.* as (futures::|std::future::|core::future::)?Future>::poll$", "Future::poll: async fn bodies are executed in place; lock futures are Ready")
def _future_poll(eng, st, args, dty, callee, m):
    pin = args[0]
    target = pin.f[0] if isinstance(pin, VStruct) else pin
    fut = eng.load(st, target)
    if isinstance(fut, VStruct) and fut.ty == "ReadyFuture":
        return VEnum(POLL, bv(0, 8), {0: (fut.f[0],), 1: ()})
    if isinstance(fut, VCoroutine):
        body = eng.crate.body(fut.creator + "::{closure#0}")
        r = eng.run_body(body, [pin, args[1]], st)
        if r is None:
            return None
        return r
    raise SymError(f"poll of an unmodelled future {fut!r}")


# ------------------------------------------------------------------------------------- more Option / Result / numeric helpers
@summary(r"^std::option::Option::<.*>::(or|xor)$", "Option::or / xor")
def _opt_or(eng, st, args, dty, callee, m):
    a, b = args
    if m.group(1) == "or":
        return merge(is_variant(a, 1), a, b)
    raise SymError("Option::xor")


@summary(r"^std::option::Option::<.*>::or_else::<.*>$", "Option::or_else (real closure)")
def _opt_or_else(eng, st, args, dty, callee, m):
    a, f = args
    s2, r = eng.call_closure(st, f, [])
    _adopt(st, s2)
    return merge(is_variant(a, 1), a, r)


@summary(r"^std::option::Option::<.*>::take$", "Option::take")
def _opt_take(eng, st, args, dty, callee, m):
    old = eng.load(st, args[0])
    eng.store(st, args[0], VEnum(OPTION, bv(0, 8), {0: ()}))
    return old


@summary(r"^std::option::Option::<.*>::(replace|insert)$", "Option::replace / insert")
def _opt_replace(eng, st, args, dty, callee, m):
    old = eng.load(st, args[0])
    eng.store(st, args[0], some(args[1]))
    if m.group(1) == "insert":
        return VRef(args[0].root, args[0].path + (("v", 1), 0), True)
    return old


@summary(r"^std::result::Result::<.*>::and_then::<.*>$", "Result::and_then (real closure)")
def _res_and_then(eng, st, args, dty, callee, m):
    o, f = args
    if 0 not in o.pay:
        return o
    s2, r = eng.call_closure(st, f, [o.pay[0][0]])
    _adopt(st, s2)
    errv = VEnum(RESULT, bv(1, 8), {1: o.pay.get(1, (VOpaque("error"),))})
    return merge(is_variant(o, 0), r, errv)


@summary(r"^std::result::Result::<.*>::(unwrap_or_else|map_or_else)::<.*>$", "Result::unwrap_or_else (real closure)")
def _res_unwrap_or_else(eng, st, args, dty, callee, m):
    if m.group(1) != "unwrap_or_else":
        raise SymError("Result::map_or_else")
    o, f = args
    errp = o.pay.get(1, (VOpaque("error"),))[0]
    s2, r = eng.call_closure(st, f, [errp])
    _adopt(st, s2)
    if 0 not in o.pay:
        return r
    return merge(is_variant(o, 0), o.pay[0][0], r)


@summary(r"^std::result::Result::<.*>::(is_ok_and|is_err_and)::<.*>$", "Result::is_ok_and (real closure)")
def _res_is_ok_and(eng, st, args, dty, callee, m):
    o, f = args
    vi = 0 if m.group(1) == "is_ok_and" else 1
    if vi not in o.pay:
        return z3.BoolVal(False)
    s2, r = eng.call_closure(st, f, [o.pay[vi][0]])
    _adopt(st, s2)
    return simp(z3.And(is_variant(o, vi), r))


@summary(r"^std::result::Result::<.*>::err$", "Result::err")
def _res_err(eng, st, args, dty, callee, m):
    o = args[0]
    if 1 not in o.pay:
        return none()
    return option(is_variant(o, 1), o.pay[1][0])


@summary(r"^std::result::Result::<.*>::map_or::<.*>$", "Result::map_or (real closure)")
def _res_map_or(eng, st, args, dty, callee, m):
    o, d, f = args
    if 0 not in o.pay:
        return d
    s2, r = eng.call_closure(st, f, [o.pay[0][0]])
    _adopt(st, s2)
    return merge(is_variant(o, 0), r, d)


@summary(r"^<(u8|u16|u32|u64|usize) as (std::cmp::)?Ord>::clamp$|^core::cmp::Ord::clamp::<(u8|u16|u32|u64|usize)>$", "Ord::clamp on unsigned ints")
def _uclamp(eng, st, args, dty, callee, m):
    x, lo, hi = args
    eng.oblige(st, "panic:clamp min > max", z3.UGT(lo, hi))
    return z3.If(z3.ULT(x, lo), lo, z3.If(z3.UGT(x, hi), hi, x))


@summary(r"^core::f64::<impl f64>::(to_bits|signum|powi|mul_add|recip)$|^std::f64::<impl f64>::(powi|mul_add)$", "f64 helpers (powi only for small constant exponents)")
def _f64_more(eng, st, args, dty, callee, m):
    k = m.group(1) or m.group(2)
    x = args[0]
    if k == "to_bits":
        b = eng.fresh_bv("f64bits", 64)
        eng.assume(z3.fpBVToFP(b, F64) == x)
        return b
    if k == "recip":
        return z3.fpDiv(RNE, z3.FPVal(1.0, F64), x)
    if k == "mul_add":
        return z3.fpFMA(RNE, x, args[1], args[2])
    if k == "signum":
        return z3.If(z3.fpIsNaN(x), x, z3.If(z3.fpIsNegative(x), z3.FPVal(-1.0, F64), z3.FPVal(1.0, F64)))
    if k == "powi":
        n = as_int(args[1])
        if n is None or n < 0 or n > 8:
            raise SymError("powi with a non-small exponent")
        r = z3.FPVal(1.0, F64)
        for _ in range(n):
            r = z3.fpMul(RNE, r, x)
        return r
    raise SymError("f64 helper " + k)


@summary(r"^core::f64::<impl f64>::from_bits$", "f64::from_bits")
def _f64_from_bits(eng, st, args, dty, callee, m):
    return z3.fpBVToFP(args[0], F64)


@summary(r"^(std::time::)?Duration::(as_nanos|from_micros|from_nanos|checked_sub|saturating_sub|checked_add|is_zero|as_secs_f32|from_secs_f64|mul_f64)$", "more Duration helpers")
def _dur_more(eng, st, args, dty, callee, m):
    k = m.group(2)
    if k == "as_nanos":
        d = deref(eng, st, args[0])
        return z3.ZeroExt(64, d.f[0]) * bv(NANOS, 128) + z3.ZeroExt(96, d.f[1])
    if k == "from_micros":
        us = args[0]
        return mk_time(simp(z3.UDiv(us, bv(1_000_000, 64))), simp(z3.Extract(31, 0, z3.URem(us, bv(1_000_000, 64))) * bv(1000, 32)), "Duration")
    if k == "from_nanos":
        ns = args[0]
        return mk_time(simp(z3.UDiv(ns, bv(NANOS, 64))), simp(z3.Extract(31, 0, z3.URem(ns, bv(NANOS, 64)))), "Duration")
    if k == "is_zero":
        d = deref(eng, st, args[0])
        return simp(z3.And(d.f[0] == 0, d.f[1] == 0))
    a = deref(eng, st, args[0])
    b = deref(eng, st, args[1]) if len(args) > 1 else None
    if k == "checked_sub":
        return option(time_le(b, a), time_sub(a, b))
    if k == "saturating_sub":
        return merge(time_le(b, a), time_sub(a, b), ZERO_DUR)
    if k == "checked_add":
        return some(time_add(a, b, "Duration"))
    raise SymError("Duration helper " + k)


@summary(r"^<(std::time::)?(Instant|SystemTime) as Sub<(std::time::)?Duration>>::sub$|^(std::time::)?(Instant|SystemTime)::(checked_sub|checked_add)$", "Instant -/+ Duration")
def _instant_sub(eng, st, args, dty, callee, m):
    a = deref(eng, st, args[0])
    d = deref(eng, st, args[1])
    ty = a.ty or "Instant"
    if callee.endswith("checked_add"):
        return some(time_add(a, d, ty))
    sub = time_sub(a, d, ty)
    if callee.endswith("checked_sub"):
        return option(time_le(d, a), sub)
    eng.oblige(st, "panic:Instant - Duration underflow", time_lt(a, d))
    return sub


@summary(r"^<(std::time::)?Instant as Sub>::sub$|^<(std::time::)?Instant as Sub<(std::time::)?Instant>>::sub$", "Instant - Instant (saturating, as duration_since)")
def _instant_minus_instant(eng, st, args, dty, callee, m):
    a = deref(eng, st, args[0])
    b = deref(eng, st, args[1])
    return merge(time_le(b, a), time_sub(a, b), ZERO_DUR)


@summary(r"^<(std::time::)?(Instant|SystemTime|Duration) as (AddAssign|SubAssign)(<(std::time::)?Duration>)?>::(add_assign|sub_assign)$", "Instant/Duration += / -= Duration (underflow is an obligation)")
def _time_op_assign(eng, st, args, dty, callee, m):
    a = eng.load(st, args[0])
    d = deref(eng, st, args[1])
    ty = m.group(2)
    if m.group(3) == "AddAssign":
        eng.store(st, args[0], time_add(a, d, ty))
    else:
        eng.oblige(st, "panic:time -= Duration underflow", time_lt(a, d))
        eng.store(st, args[0], time_sub(a, d, ty))
    return UNIT


@summary(r"^<(u8|u16|u32|u64|u128|usize|i8|i16|i32|i64|i128|isize|bool|f64) as Default>::default$", "Default for primitive numbers / bool: zero / false")
def _prim_default(eng, st, args, dty, callee, m):
    t = m.group(1)
    if t == "bool":
        return z3.BoolVal(False)
    if t == "f64":
        return z3.FPVal(0.0, z3.Float64())
    w = {"u8": 8, "i8": 8, "u16": 16, "i16": 16, "u32": 32, "i32": 32, "u64": 64, "i64": 64, "usize": 64, "isize": 64, "u128": 128, "i128": 128}[t]
    return bv(0, w)


@summary(r"^std::time::SystemTime::elapsed$", "SystemTime::elapsed -> Ok(now - self) if now >= self else Err(opaque)")
def _sys_elapsed(eng, st, args, dty, callee, m):
    now = _systime_now(eng, st, [], None, callee, m)
    a = deref(eng, st, args[0])
    ge = time_le(a, now)
    return VEnum(RESULT, z3.If(ge, bv(0, 8), bv(1, 8)), {0: (time_sub(now, a),), 1: (VOpaque("SystemTimeError"),)})


@summary(r"^hex::encode::<.*>$", "hex::encode: an abstract string with fresh identity (only used in messages)")
def _hex_encode(eng, st, args, dty, callee, m):
    return VStr(eng.fresh_bv("hexstr", 64))
