"""SMT back end: every obligation is exported as SMT-LIB2 and decided by a portfolio of cvc5, z3 4.8.12 and z3 5.1
(first definitive answer wins).  `unsat` = discharged, `sat` = counterexample (model returned), anything else = unknown.
"""
import concurrent.futures as cf
import os
import re
import signal
import subprocess
import tempfile
import threading
import time

import z3

SOLVERS = [
    ("cvc5", ["cvc5", "--lang", "smt2", "--produce-models"]),
    ("z3-4.8.12", ["/usr/bin/z3", "-smt2"]),
    ("z3-5.1", ["z3-new", "-smt2"]),
]

WORKDIR = os.environ.get("VERIF_SMT_DIR") or os.path.join(os.path.dirname(os.path.dirname(os.path.dirname(os.path.abspath(__file__)))), ".cache", "smt")


def to_smt2(formulas, logic="ALL"):
    s = z3.Solver()
    for f in formulas:
        s.add(f)
    txt = s.to_smt2()
    # z3 emits (set-info :status unknown) first; add logic and model request
    txt = f"(set-logic {logic})\n(set-option :produce-models true)\n" + txt
    txt = txt.replace("(check-sat)", "(check-sat)\n(get-model)")
    return txt


def _run_one(name, cmd, path, timeout, stop_evt, procs):
    t0 = time.time()
    try:
        p = subprocess.Popen(cmd + [path], stdout=subprocess.PIPE, stderr=subprocess.PIPE, text=True, start_new_session=True)
    except OSError as e:
        return name, "error", str(e), time.time() - t0
    procs.append(p)
    try:
        out, errs = p.communicate(timeout=timeout)
    except subprocess.TimeoutExpired:
        try:
            os.killpg(os.getpgid(p.pid), signal.SIGKILL)
        except Exception:
            pass
        p.communicate()
        return name, "timeout", "", time.time() - t0
    dt = time.time() - t0
    first = out.strip().split("\n", 1)[0].strip() if out.strip() else ""
    if "(error" in out and first not in ("unsat",):
        # an error line makes the answer untrustworthy (old z3 can drop an assertion it cannot parse)
        if first == "sat" and out.count("(error") == 0:
            pass
        else:
            em = re.search(r"\(error[^\n]*", out)
            return name, "error", em.group(0) if em else out[:200], dt
    if "(error" in out and first == "unsat":
        # errors before check-sat also poison unsat
        idx_err = out.find("(error")
        idx_unsat = out.find("unsat")
        if idx_err < idx_unsat:
            return name, "error", out[idx_err : idx_err + 200], dt
    if first in ("sat", "unsat"):
        return name, first, out, dt
    return name, "unknown", (out + errs)[:300], dt


def prepare(formulas, tag="q", quick_inproc_ms=1500):
    """main-thread half (z3's Python API is not thread-safe): quick in-process attempt, else write the SMT-LIB file.
    -> (final_result_dict or None, smt2_path or None)"""
    t0 = time.time()
    if quick_inproc_ms:
        s = z3.Solver()
        s.set("timeout", quick_inproc_ms)
        for f in formulas:
            s.add(f)
        r = s.check()
        if r == z3.unsat:
            return {"result": "unsat", "solver": "z3-5.1(in-process)", "time_s": time.time() - t0, "smt2_path": None}, None
        if r == z3.sat:
            m = s.model()
            return {"result": "sat", "solver": "z3-5.1(in-process)", "time_s": time.time() - t0, "model": model_to_dict(m), "smt2_path": None}, None
    os.makedirs(WORKDIR, exist_ok=True)
    path = os.path.join(WORKDIR, re.sub(r"[^A-Za-z0-9_.-]", "_", tag)[:120] + ".smt2")
    with open(path, "w") as f:
        f.write(to_smt2(formulas))
    return None, path


def decide_file(path, timeout=120, solvers=None):
    """thread-safe half: run the CLI portfolio on an SMT-LIB file"""
    t0 = time.time()
    procs = []
    answers = []
    use = solvers or SOLVERS
    with cf.ThreadPoolExecutor(max_workers=len(use)) as ex:
        futs = [ex.submit(_run_one, n, c, path, timeout, None, procs) for n, c in use]
        result = None
        for fu in cf.as_completed(futs):
            name, res, out, dt = fu.result()
            answers.append((name, res, round(dt, 2)))
            if res in ("sat", "unsat") and result is None:
                result = (name, res, out, dt)
                for p in procs:
                    if p.poll() is None:
                        try:
                            os.killpg(os.getpgid(p.pid), signal.SIGKILL)
                        except Exception:
                            pass
    if result is None:
        return {"result": "unknown", "solver": None, "time_s": time.time() - t0, "detail": str(answers), "smt2_path": path}
    name, res, out, dt = result
    d = {"result": res, "solver": name, "time_s": time.time() - t0, "answers": answers, "smt2_path": path}
    if res == "sat":
        d["model"] = parse_model(out)
    return d


def decide(formulas, timeout=120, tag="q", quick_inproc_ms=1500, solvers=None):
    """-> dict(result: 'unsat'|'sat'|'unknown', solver, time_s, model (dict name->value) if sat, detail, smt2_path)"""
    r, path = prepare(formulas, tag, quick_inproc_ms)
    if r is not None:
        return r
    return decide_file(path, timeout, solvers)


def cross_check(formulas, timeout=120, tag="x"):
    """run every solver to completion and report all answers (used once per encoding change / in thorough tier)"""
    os.makedirs(WORKDIR, exist_ok=True)
    path = os.path.join(WORKDIR, re.sub(r"[^A-Za-z0-9_.-]", "_", tag)[:120] + ".x.smt2")
    with open(path, "w") as f:
        f.write(to_smt2(formulas))
    out = {}
    with cf.ThreadPoolExecutor(max_workers=len(SOLVERS)) as ex:
        futs = [ex.submit(_run_one, n, c, path, timeout, None, []) for n, c in SOLVERS]
        for fu in futs:
            name, res, o, dt = fu.result()
            out[name] = (res, round(dt, 2))
    return out


def model_to_dict(m):
    d = {}
    for decl in m.decls():
        if decl.arity() != 0:
            continue
        v = m[decl]
        d[decl.name()] = _z3val(v)
    return d


def _z3val(v):
    if z3.is_bv_value(v):
        return v.as_long()
    if z3.is_true(v):
        return True
    if z3.is_false(v):
        return False
    if z3.is_fp_value(v) or z3.is_fp(v):
        try:
            if v.isNaN():
                return {"f64_bits": 0x7FF8000000000000}
            bits = z3.simplify(z3.fpToIEEEBV(v))
            if z3.is_bv_value(bits):
                return {"f64_bits": bits.as_long()}
        except Exception:
            pass
        return str(v)
    return str(v)


# --------------------------------------------------------------------------- s-expression model parsing (cvc5 / z3 CLI)

def _tokenize(s):
    return re.findall(r"\(|\)|\|[^|]*\||\"[^\"]*\"|[^\s()]+", s)


def _parse_sexprs(tokens):
    stack = [[]]
    for t in tokens:
        if t == "(":
            stack.append([])
        elif t == ")":
            x = stack.pop()
            stack[-1].append(x)
        else:
            stack[-1].append(t)
    return stack[0]


def _lit(x):
    if isinstance(x, str):
        if x.startswith("#b"):
            return int(x[2:], 2), len(x) - 2
        if x.startswith("#x"):
            return int(x[2:], 16), 4 * (len(x) - 2)
        if x in ("true", "false"):
            return x == "true", 0
        return x, 0
    if isinstance(x, list) and len(x) == 3 and x[0] == "_" and isinstance(x[1], str) and x[1].startswith("bv"):
        return int(x[1][2:]), int(x[2])
    return None, 0


def _value(sort, body):
    v, w = _lit(body)
    if isinstance(body, list) and body and body[0] == "fp":
        s, sw = _lit(body[1])
        e, ew = _lit(body[2])
        m, mw = _lit(body[3])
        return {"f64_bits": (s << (ew + mw)) | (e << mw) | m} if ew + mw + 1 == 64 else {"fp_bits": (s << (ew + mw)) | (e << mw) | m, "w": ew + mw + 1}
    if isinstance(body, list) and len(body) == 4 and body[0] == "_" and body[1] in ("+zero", "-zero", "+oo", "-oo", "NaN"):
        table = {"+zero": 0, "-zero": 1 << 63, "+oo": 0x7FF << 52, "-oo": (0xFFF << 52), "NaN": 0x7FF8 << 48}
        return {"f64_bits": table[body[1]]}
    if v is not None:
        return v
    return None


def parse_model(out):
    """dict name -> python value for 0-ary define-funs in a `(get-model)` answer"""
    i = out.find("(")
    if i < 0:
        return {}
    try:
        sx = _parse_sexprs(_tokenize(out[i:]))
    except Exception:
        return {}
    d = {}

    def walk(items):
        for it in items:
            if isinstance(it, list) and it and it[0] == "define-fun" and len(it) >= 5 and it[2] == []:
                name = it[1].strip("|")
                val = _value(it[3], it[4])
                if val is not None:
                    d[name] = val
            elif isinstance(it, list):
                if it and it[0] == "model":
                    walk(it[1:])
                elif it and isinstance(it[0], list):
                    walk(it)

    walk(sx)
    return d
