"""SMT back end: every obligation is exported as SMT-LIB2 and decided by a portfolio of cvc5, z3 4.8.12 and z3 5.1
(first definitive answer wins).  `unsat` = discharged, `sat` = counterexample (model returned), anything else = unknown.
"""
import concurrent.futures as cf
import os
import re
import signal
import subprocess
import tempfile
import threading
import time

import z3

SOLVERS = [
    ("cvc5", ["cvc5", "--lang", "smt2", "--produce-models"]),
    ("z3-4.8.12", ["/usr/bin/z3", "-smt2"]),
    ("z3-5.1", ["z3-new", "-smt2"]),
]

WORKDIR = os.environ.get("VERIF_SMT_DIR") or os.path.join(os.path.dirname(os.path.dirname(os.path.dirname(os.path.abspath(__file__)))), ".cache", "smt")


def to_smt2(formulas, logic="ALL"):
    s = z3.Solver()
    for f in formulas:
        s.add(f)
    txt = s.to_smt2()
    # z3 emits (set-info :status unknown) first; add logic and model request
    txt = f"(set-logic {logic})\n(set-option :produce-models true)\n" + txt
    txt = txt.replace("(check-sat)", "(check-sat)\n(get-model)")
    return txt


def _die_with_parent():
    # solver children must not outlive a killed check (PR_SET_PDEATHSIG = 1)
    try:
        import ctypes

        ctypes.CDLL("libc.so.6").prctl(1, signal.SIGKILL)
    except Exception:
        pass
    os.setsid()


def _run_one(name, cmd, path, timeout, stop_evt, procs):
    t0 = time.time()
    try:
        p = subprocess.Popen(["timeout", "-s", "KILL", str(int(timeout) + 30)] + cmd + [path], stdout=subprocess.PIPE, stderr=subprocess.PIPE, text=True,
                             preexec_fn=_die_with_parent)
    except OSError as e:
        return name, "error", str(e), time.time() - t0
    procs.append(p)
    try:
        out, errs = p.communicate(timeout=timeout)
    except subprocess.TimeoutExpired:
        try:
            os.killpg(os.getpgid(p.pid), signal.SIGKILL)
        except Exception:
            pass
        p.communicate()
        return name, "timeout", "", time.time() - t0
    dt = time.time() - t0
    first = out.strip().split("\n", 1)[0].strip() if out.strip() else ""
    if "(error" in out and first not in ("unsat",):
        # an error line makes the answer untrustworthy (old z3 can drop an assertion it cannot parse)
        if first == "sat" and out.count("(error") == 0:
            pass
        else:
            em = re.search(r"\(error[^\n]*", out)
            return name, "error", em.group(0) if em else out[:200], dt
    if "(error" in out and first == "unsat":
        # errors before check-sat also poison unsat
        idx_err = out.find("(error")
        idx_unsat = out.find("unsat")
        if idx_err < idx_unsat:
            return name, "error", out[idx_err : idx_err + 200], dt
    if first in ("sat", "unsat"):
        return name, first, out, dt
    return name, "unknown", (out + errs)[:300], dt


def prepare(formulas, tag="q", quick_inproc_ms=1500):
    """main-thread half (z3's Python API is not thread-safe): quick in-process attempt, else write the SMT-LIB file.
    -> (final_result_dict or None, smt2_path or None)"""
    t0 = time.time()
    if quick_inproc_ms:
        s = z3.Solver()
        s.set("timeout", quick_inproc_ms)
        for f in formulas:
            s.add(f)
        r = s.check()
        if r == z3.unsat:
            return {"result": "unsat", "solver": "z3-5.1(in-process)", "time_s": time.time() - t0, "smt2_path": None}, None
        if r == z3.sat:
            m = s.model()
            return {"result": "sat", "solver": "z3-5.1(in-process)", "time_s": time.time() - t0, "model": model_to_dict(m), "smt2_path": None}, None
    os.makedirs(WORKDIR, exist_ok=True)
    # the file name must be unique per tag: long tags are cut, so a digest of the whole tag is appended (two queries that share a
    # prefix -- e.g. a query and its "_euf" abstraction -- would otherwise overwrite each other's file before the solvers run)
    import hashlib
    path = os.path.join(WORKDIR, re.sub(r"[^A-Za-z0-9_.-]", "_", tag)[:100] + "-" + hashlib.sha1(tag.encode()).hexdigest()[:12] + ".smt2")
    with open(path, "w") as f:
        f.write(to_smt2(formulas))
    return None, path


def decide_file(path, timeout=120, solvers=None):
    """thread-safe half: run the CLI portfolio on an SMT-LIB file"""
    t0 = time.time()
    procs = []
    answers = []
    use = solvers or SOLVERS
    with cf.ThreadPoolExecutor(max_workers=len(use)) as ex:
        futs = [ex.submit(_run_one, n, c, path, timeout, None, procs) for n, c in use]
        result = None
        for fu in cf.as_completed(futs):
            name, res, out, dt = fu.result()
            answers.append((name, res, round(dt, 2)))
            if res in ("sat", "unsat") and result is None:
                result = (name, res, out, dt)
                for p in procs:
                    if p.poll() is None:
                        try:
                            os.killpg(os.getpgid(p.pid), signal.SIGKILL)
                        except Exception:
                            pass
    if result is None:
        return {"result": "unknown", "solver": None, "time_s": time.time() - t0, "detail": str(answers), "smt2_path": path}
    name, res, out, dt = result
    d = {"result": res, "solver": name, "time_s": time.time() - t0, "answers": answers, "smt2_path": path}
    if res == "sat":
        d["model"] = parse_model(out)
    return d


def decide(formulas, timeout=120, tag="q", quick_inproc_ms=1500, solvers=None):
    """-> dict(result: 'unsat'|'sat'|'unknown', solver, time_s, model (dict name->value) if sat, detail, smt2_path)"""
    r, path = prepare(formulas, tag, quick_inproc_ms)
    if r is not None:
        return r
    return decide_file(path, timeout, solvers)


def cross_check(formulas, timeout=120, tag="x"):
    """run every solver to completion and report all answers (used once per encoding change / in thorough tier)"""
    os.makedirs(WORKDIR, exist_ok=True)
    path = os.path.join(WORKDIR, re.sub(r"[^A-Za-z0-9_.-]", "_", tag)[:120] + ".x.smt2")
    with open(path, "w") as f:
        f.write(to_smt2(formulas))
    out = {}
    with cf.ThreadPoolExecutor(max_workers=len(SOLVERS)) as ex:
        futs = [ex.submit(_run_one, n, c, path, timeout, None, []) for n, c in SOLVERS]
        for fu in futs:
            name, res, o, dt = fu.result()
            out[name] = (res, round(dt, 2))
    return out


def model_to_dict(m):
    d = {}
    for decl in m.decls():
        if decl.arity() != 0:
            continue
        v = m[decl]
        d[decl.name()] = _z3val(v)
    return d


def _z3val(v):
    if z3.is_bv_value(v):
        return v.as_long()
    if z3.is_true(v):
        return True
    if z3.is_false(v):
        return False
    if z3.is_fp_value(v) or z3.is_fp(v):
        try:
            if v.isNaN():
                return {"f64_bits": 0x7FF8000000000000}
            bits = z3.simplify(z3.fpToIEEEBV(v))
            if z3.is_bv_value(bits):
                return {"f64_bits": bits.as_long()}
        except Exception:
            pass
        return str(v)
    return str(v)


# --------------------------------------------------------------------------- s-expression model parsing (cvc5 / z3 CLI)

def _tokenize(s):
    return re.findall(r"\(|\)|\|[^|]*\||\"[^\"]*\"|[^\s()]+", s)


def _parse_sexprs(tokens):
    stack = [[]]
    for t in tokens:
        if t == "(":
            stack.append([])
        elif t == ")":
            x = stack.pop()
            stack[-1].append(x)
        else:
            stack[-1].append(t)
    return stack[0]


def _lit(x):
    if isinstance(x, str):
        if x.startswith("#b"):
            return int(x[2:], 2), len(x) - 2
        if x.startswith("#x"):
            return int(x[2:], 16), 4 * (len(x) - 2)
        if x in ("true", "false"):
            return x == "true", 0
        return x, 0
    if isinstance(x, list) and len(x) == 3 and x[0] == "_" and isinstance(x[1], str) and x[1].startswith("bv"):
        return int(x[1][2:]), int(x[2])
    return None, 0


def _value(sort, body):
    v, w = _lit(body)
    if isinstance(body, list) and body and body[0] == "fp":
        s, sw = _lit(body[1])
        e, ew = _lit(body[2])
        m, mw = _lit(body[3])
        return {"f64_bits": (s << (ew + mw)) | (e << mw) | m} if ew + mw + 1 == 64 else {"fp_bits": (s << (ew + mw)) | (e << mw) | m, "w": ew + mw + 1}
    if isinstance(body, list) and len(body) == 4 and body[0] == "_" and body[1] in ("+zero", "-zero", "+oo", "-oo", "NaN"):
        table = {"+zero": 0, "-zero": 1 << 63, "+oo": 0x7FF << 52, "-oo": (0xFFF << 52), "NaN": 0x7FF8 << 48}
        return {"f64_bits": table[body[1]]}
    if v is not None:
        return v
    return None


def parse_model(out):
    """dict name -> python value for 0-ary define-funs in a `(get-model)` answer"""
    i = out.find("(")
    if i < 0:
        return {}
    try:
        sx = _parse_sexprs(_tokenize(out[i:]))
    except Exception:
        return {}
    d = {}

    def walk(items):
        for it in items:
            if isinstance(it, list) and it and it[0] == "define-fun" and len(it) >= 5 and it[2] == []:
                name = it[1].strip("|")
                val = _value(it[3], it[4])
                if val is not None:
                    d[name] = val
            elif isinstance(it, list):
                if it and it[0] == "model":
                    walk(it[1:])
                elif it and isinstance(it[0], list):
                    walk(it)

    walk(sx)
    return d


# --------------------------------------------------------------------------- EUF abstraction of floating-point arithmetic
_FP_ARITH = None


def _fp_arith_kinds():
    global _FP_ARITH
    if _FP_ARITH is None:
        names = ["Z3_OP_FPA_ADD", "Z3_OP_FPA_SUB", "Z3_OP_FPA_MUL", "Z3_OP_FPA_DIV", "Z3_OP_FPA_FMA", "Z3_OP_FPA_SQRT", "Z3_OP_FPA_REM",
                 "Z3_OP_FPA_ROUND_TO_INTEGRAL", "Z3_OP_FPA_TO_FP", "Z3_OP_FPA_TO_FP_UNSIGNED", "Z3_OP_FPA_TO_UBV", "Z3_OP_FPA_TO_SBV"]
        _FP_ARITH = {getattr(z3, n) for n in names if hasattr(z3, n)}
    return _FP_ARITH


def abstract_fp(formulas):
    """Replace every floating-point ARITHMETIC operator application by an uninterpreted function of the same signature
    (comparisons, constants and ite stay interpreted).  Sound for proving unsatisfiability: any model of the original
    formulas is a model of the abstraction.  Returns (abstracted formulas, number of abstracted applications)."""
    kinds = _fp_arith_kinds()
    cache = {}
    ufs = {}
    count = [0]

    def rec(e):
        k = e.get_id()
        r = cache.get(k)
        if r is not None:
            return r
        if not z3.is_app(e) or e.num_args() == 0:
            cache[k] = e
            return e
        args = [rec(e.arg(i)) for i in range(e.num_args())]
        d = e.decl()
        if d.kind() in kinds:
            sig = (d.name(), tuple(a.sort().sexpr() for a in args), e.sort().sexpr(), tuple(d.params()) if False else ())
            f = ufs.get(sig)
            if f is None:
                f = z3.Function(f"abs!{d.name()}!{len(ufs)}", *[a.sort() for a in args], e.sort())
                ufs[sig] = f
            r = f(*args)
            count[0] += 1
        else:
            same = all(a.eq(e.arg(i)) for i, a in enumerate(args))
            r = e if same else d(*args)
        cache[k] = r
        return r

    return [rec(f) for f in formulas], count[0]


def abstract_fp_with_lemmas(formulas):
    """abstract_fp + instances of IEEE-754 round-to-nearest monotonicity lemmas for the abstracted add / div applications:
         L1  0<=x1<=x2 & 0<=y1<=y2            =>  0 <= add(x1,y1) <= add(x2,y2)
         L2  0<=x & 0<=y                      =>  x <= add(x,y)  &  y <= add(x,y)
         L3  0<=x1<=x2 & 0<y                  =>  0 <= div(x1,y) <= div(x2,y)
         L4  0<=x<=y & 0<y                    =>  div(x,y) <= 1  ;   0<x => div(x,x) == 1
       (true of correctly rounded arithmetic on non-NaN operands; each is itself checked by the solver in the thorough tier)"""
    kinds = _fp_arith_kinds()
    cache = {}
    ufs = {}
    apps = {"add": [], "div": []}

    def rec(e):
        k = e.get_id()
        r = cache.get(k)
        if r is not None:
            return r
        if not z3.is_app(e) or e.num_args() == 0:
            cache[k] = e
            return e
        args = [rec(e.arg(i)) for i in range(e.num_args())]
        d = e.decl()
        if d.kind() in kinds:
            sig = (d.name(), tuple(a.sort().sexpr() for a in args), e.sort().sexpr())
            f = ufs.get(sig)
            if f is None:
                f = z3.Function(f"abs!{d.name()}!{len(ufs)}", *[a.sort() for a in args], e.sort())
                ufs[sig] = f
            r = f(*args)
            if d.kind() == z3.Z3_OP_FPA_ADD and len(args) == 3:
                apps["add"].append((args[1], args[2], r))
            elif d.kind() == z3.Z3_OP_FPA_DIV and len(args) == 3:
                apps["div"].append((args[1], args[2], r))
        else:
            same = all(a.eq(e.arg(i)) for i, a in enumerate(args))
            r = e if same else d(*args)
        cache[k] = r
        return r

    out = [rec(f) for f in formulas]
    lem = []
    seen = set()

    def uniq(lst):
        u = []
        for t in lst:
            key = t[2].get_id()
            if key not in seen:
                seen.add(key)
                u.append(t)
        return u

    adds = uniq(apps["add"])
    divs = uniq(apps["div"])
    if len(adds) > 60 or len(divs) > 30:
        return out, 0
    zero = lambda s: z3.FPVal(0.0, s)  # noqa: E731
    for (x, y, r) in adds:
        z = zero(x.sort())
        lem.append(z3.Implies(z3.And(z3.fpLEQ(z, x), z3.fpLEQ(z, y)), z3.And(z3.fpLEQ(x, r), z3.fpLEQ(y, r))))
    for i, (x1, y1, r1) in enumerate(adds):
        z = zero(x1.sort())
        for j, (x2, y2, r2) in enumerate(adds):
            if i == j:
                continue
            lem.append(z3.Implies(z3.And(z3.fpLEQ(z, x1), z3.fpLEQ(x1, x2), z3.fpLEQ(z, y1), z3.fpLEQ(y1, y2)), z3.fpLEQ(r1, r2)))
    for (x, y, r) in divs:
        z = zero(x.sort())
        one = z3.FPVal(1.0, x.sort())
        fin = z3.And(z3.Not(z3.fpIsInf(x)), z3.Not(z3.fpIsInf(y)))
        lem.append(z3.Implies(z3.And(z3.fpLEQ(z, x), z3.fpLT(z, y), fin), z3.fpLEQ(z, r)))
        lem.append(z3.Implies(z3.And(z3.fpLEQ(z, x), z3.fpLEQ(x, y), z3.fpLT(z, y), fin), z3.fpLEQ(r, one)))
        lem.append(z3.Implies(z3.And(z3.fpLT(z, x), z3.fpEQ(x, y), z3.Not(z3.fpIsInf(x))), z3.fpEQ(r, one)))
    for i, (x1, y1, r1) in enumerate(divs):
        z = zero(x1.sort())
        for j, (x2, y2, r2) in enumerate(divs):
            if i == j:
                continue
            lem.append(z3.Implies(z3.And(z3.fpLEQ(z, x1), z3.fpLEQ(x1, x2), z3.fpLT(z, y1), z3.fpEQ(y1, y2), z3.Not(z3.fpIsInf(x2)), z3.Not(z3.fpIsInf(y1))), z3.fpLEQ(r1, r2)))
    return out + lem, len(lem)


def lemma_self_check(timeout=300):
    """the lemmas above as stand-alone f64 queries (each must be unsat when negated)"""
    F = z3.Float64()
    x1, x2, y1, y2 = z3.FPs("x1 x2 y1 y2", F)
    rm = z3.RNE()
    z = z3.FPVal(0.0, F)
    one = z3.FPVal(1.0, F)
    L = {
        "add_monotone": z3.Implies(z3.And(z3.fpLEQ(z, x1), z3.fpLEQ(x1, x2), z3.fpLEQ(z, y1), z3.fpLEQ(y1, y2)), z3.fpLEQ(z3.fpAdd(rm, x1, y1), z3.fpAdd(rm, x2, y2))),
        "add_ge_operands": z3.Implies(z3.And(z3.fpLEQ(z, x1), z3.fpLEQ(z, y1)), z3.And(z3.fpLEQ(x1, z3.fpAdd(rm, x1, y1)), z3.fpLEQ(y1, z3.fpAdd(rm, x1, y1)))),
        "div_monotone_numerator": z3.Implies(z3.And(z3.fpLEQ(z, x1), z3.fpLEQ(x1, x2), z3.fpLT(z, y1), z3.Not(z3.fpIsInf(x2)), z3.Not(z3.fpIsInf(y1))), z3.And(z3.fpLEQ(z, z3.fpDiv(rm, x1, y1)), z3.fpLEQ(z3.fpDiv(rm, x1, y1), z3.fpDiv(rm, x2, y1)))),
        "div_le_one": z3.Implies(z3.And(z3.fpLEQ(z, x1), z3.fpLEQ(x1, y1), z3.fpLT(z, y1), z3.Not(z3.fpIsInf(y1))), z3.fpLEQ(z3.fpDiv(rm, x1, y1), one)),
        "div_self_is_one": z3.Implies(z3.And(z3.fpLT(z, x1), z3.Not(z3.fpIsInf(x1))), z3.fpEQ(z3.fpDiv(rm, x1, x1), one)),
    }
    res = {}
    for n, f in L.items():
        res[n] = decide([z3.Not(f)], timeout=timeout, tag="lemma_" + n, quick_inproc_ms=0)
    return res
