"""Glue between check scripts and engine M: load MIR of the current tree, build engines, queue solver queries,
run them in parallel, hand counterexamples to the check's native replay, fill the Outcome."""
import concurrent.futures as cf
import os
import re
import sys
import time

import z3

HERE = os.path.dirname(os.path.abspath(__file__))
sys.path.insert(0, HERE)
sys.path.insert(0, os.path.dirname(HERE))

import engine as _engine  # noqa: E402
import mir  # noqa: E402
import mirdump  # noqa: E402
import solve  # noqa: E402
from common import Outcome, log  # noqa: E402
from values import SymError, VMap, VStruct, bv, vmap  # noqa: E402

_crate_cache = {}


def load_crate():
    path, h, secs, cached = mirdump.ensure_mir()
    if path not in _crate_cache:
        _crate_cache[path] = mir.Crate(path)
    return _crate_cache[path], h, secs, cached


class Query:
    def __init__(self, name, kind, formulas, expect, meta=None, timeout=120, on_sat=None, eng=None):
        self.name = name
        self.kind = kind  # 'prove' (expect unsat) | 'reach' (expect sat) | 'side' (assert/panic/unwind obligation, expect unsat)
        self.formulas = formulas
        self.expect = expect
        self.meta = meta or {}
        self.timeout = timeout
        self.on_sat = on_sat
        self.eng = eng
        self.result = None


class MirCheck:
    def __init__(self, pid, tier):
        self.pid = pid
        self.tier = tier
        self.out = Outcome(pid, tier)
        t0 = time.time()
        self.crate, self.tree_hash, secs, cached = load_crate()
        self.out.notes.append(f"MIR of /repo tree {self.tree_hash}: {'cached' if cached else f'regenerated in {secs:.0f}s'}; parse {time.time() - t0 - secs:.1f}s")
        self.queries = []
        self.engines = []
        self.timeout = 300 if tier == "quick" else 1500
        self.errors = []
        self._src_for = {}
        self._meta_engine = None

    def register_src(self, driver, params, src):
        import json as _json

        self._src_for[(driver, _json.dumps(params, sort_keys=True))] = src

    def meta_engine(self):
        """engine used only for type metadata while rebuilding goals in concrete mode (not counted as coverage)"""
        if self._meta_engine is None:
            self._meta_engine = _engine.Engine(self.crate, os.environ.get("VERIF_REPO", "/repo"))
        return self._meta_engine

    def engine(self, unwind=8):
        e = _engine.Engine(self.crate, os.environ.get("VERIF_REPO", "/repo"), unwind=unwind)
        self.engines.append(e)
        return e

    def fn(self, pattern, which=None):
        """unique item name matching regex (fails closed)"""
        names = [n for n in self.crate.find(pattern) if self.crate.items[n][0][0] == "fn"]
        if len(names) != 1:
            raise SymError(f"function pattern {pattern!r} matches {len(names)} items: {names[:5]}")
        return names[0]

    def fn_in(self, type_name, method):
        """the method `method` of the inherent/trait impl block for `type_name` (robust against line shifts)"""
        eng = self.meta_engine()
        names = [n for n in self.crate.by_method.get(method, []) if self.crate.items[n][0][0] == "fn" and (eng.impl_info(n) or (None, None))[1] == type_name]
        if len(names) != 1:
            raise SymError(f"{type_name}::{method} matches {len(names)} items: {names[:4]}")
        return names[0]

    # ---- query construction
    def prove(self, name, eng, hyps, goal, on_sat=None, timeout=None, meta=None):
        f = list(eng.assumptions) + list(hyps) + [z3.Not(goal)]
        self.queries.append(Query(name, "prove", f, "unsat", meta, timeout or self.timeout, on_sat, eng))

    def reach(self, name, eng, hyps, cond, timeout=None):
        f = list(eng.assumptions) + list(hyps) + [cond]
        self.queries.append(Query(name, "reach", f, "sat", None, timeout or self.timeout, None, eng))

    def side(self, prefix, eng, hyps, on_sat=None, skip=None, timeout=None):
        """one query per assert/panic/unwind obligation the engine collected"""
        seen = set()
        for i, o in enumerate(eng.obligations):
            if skip and skip(o):
                continue
            key = o["formula"].hash()
            if (o["name"], key) in seen:
                continue
            seen.add((o["name"], key))
            f = list(eng.assumptions) + list(hyps) + [o["formula"]]
            q = Query(f"{prefix}/{o['kind']}#{i}:{o['name']}", "side", f, "unsat", {"side_kind": o["kind"]}, timeout or self.timeout, on_sat, eng)
            self.queries.append(q)

    def single_critical_section(self, prefix, eng, hyps, on_sat=None):
        """structural atomicity obligation: on no path is the same lock acquired twice within the call (the protected
        read-modify-write then sits in ONE critical section); single-threaded semantics cannot see the race itself"""
        acq = getattr(eng, "lock_acquisitions", [])
        n = 0
        for i in range(len(acq)):
            for j in range(i):
                if acq[i]["lock"] != acq[j]["lock"]:
                    continue
                n += 1
                f = list(eng.assumptions) + list(hyps) + [acq[i]["pc"], acq[j]["pc"]]
                self.queries.append(Query(f"{prefix}/lock_acquired_once_per_call#{n}:{acq[i]['callee'].split('::')[-1]}", "side", f, "unsat",
                                          {"side_kind": "atomicity"}, self.timeout, on_sat, eng))
        if n == 0:
            self.out.notes.append(f"{prefix}: every lock is acquired at most once per call syntactically ({len(acq)} acquisition site(s) executed)")

    def guarded(self, name, f):
        """run a piece of check construction; engine errors make that obligation inconclusive, not the whole run"""
        try:
            f()
        except (SymError, mir.MirError, KeyError, IndexError, AttributeError, TypeError, z3.Z3Exception) as e:
            msg = f"{type(e).__name__}: {e}"
            self.errors.append((name, msg))
            self.out.add(name, "inconclusive", "engine could not encode: " + msg[:500], engine="mirsym")

    # ---- run
    def run_queries(self, workers=5):
        import random

        order = list(self.queries)
        random.Random(int(os.environ.get("VERIF_SEED", "0") or 0)).shuffle(order)
        pending = []
        for q in order:  # main thread: z3 API use
            r, path = solve.prepare(q.formulas, tag=f"{self.pid}_{q.name}")
            if r is not None:
                q.result = r
                continue
            if q.kind in ("prove", "side"):
                # cheap sound pre-pass: floating-point arithmetic as uninterpreted functions (shared sub-terms stay shared)
                try:
                    af, n = solve.abstract_fp(q.formulas)
                except Exception:
                    af, n = None, 0
                if n:
                    ra, pa = solve.prepare(af, tag=f"{self.pid}_{q.name}_euf", quick_inproc_ms=4000)
                    if ra is not None and ra["result"] == "unsat":
                        ra["solver"] = ra["solver"] + " [f64 arithmetic abstracted to uninterpreted functions]"
                        q.result = ra
                        continue
                    if q.meta.get("fp_lemmas"):
                        try:
                            al, nl = solve.abstract_fp_with_lemmas(q.formulas)
                        except Exception:
                            al, nl = None, 0
                        if nl:
                            rl, pl = solve.prepare(al, tag=f"{self.pid}_{q.name}_euf_lemmas", quick_inproc_ms=20000)
                            if rl is not None and rl["result"] == "unsat":
                                rl["solver"] = rl["solver"] + f" [f64 arithmetic abstracted + {nl} IEEE monotonicity lemma instances]"
                                q.result = rl
                                self.used_fp_lemmas = True
                                continue
            pending.append((q, path))

        def work(item):
            q, path = item
            return q, solve.decide_file(path, timeout=q.timeout)

        with cf.ThreadPoolExecutor(max_workers=workers) as ex:
            for q, r in ex.map(work, pending):
                q.result = r
        for q in self.queries:
            r = q.result
            res = r["result"]
            eng_name = f"mirsym+{r.get('solver')}"
            extra = {"kind": q.kind, "smt2": r.get("smt2_path")}
            if q.kind == "reach":
                if res == "sat":
                    self.out.vacuity.append(f"{q.name}: reachable ({r.get('solver')}, {r['time_s']:.1f}s)")
                    self.out.add(q.name, "discharged", "vacuity witness: satisfiable as required", r["time_s"], eng_name, extra)
                elif res == "unsat":
                    self.out.add(q.name, "inconclusive", "vacuity guard failed: target unreachable under the harness assumptions", r["time_s"], eng_name, extra)
                else:
                    self.out.add(q.name, "inconclusive", "solver gave no answer: " + str(r.get("detail", ""))[:200], r["time_s"], eng_name, extra)
                continue
            if res == "unsat":
                self.out.add(q.name, "discharged", "", r["time_s"], eng_name, extra)
            elif res == "sat":
                if q.meta.get("side_kind") == "unwind":
                    self.out.add(q.name, "inconclusive", "unwinding assertion: loop bound too small for this input space", r["time_s"], eng_name, extra)
                    continue
                model = r.get("model") or {}
                prefs = q.meta.get("prefer") or []
                if prefs and q.on_sat is not None:
                    # replay-friendlier counterexample (e.g. clock frozen during the call), if one exists
                    r2 = solve.decide(q.formulas + list(prefs), timeout=min(60, q.timeout), tag=f"{self.pid}_{q.name}_pref")
                    if r2["result"] == "sat" and r2.get("model"):
                        model = r2["model"]
                        extra["preferred_model"] = True
                if q.on_sat is None:
                    extra["model"] = _trim_model(model)
                    self.out.add(q.name, "inconclusive", "counterexample found but this obligation has no native replay", r["time_s"], eng_name, extra)
                    continue
                try:
                    verdict, detail, replay_path = q.on_sat(q, model)
                except Exception as e:  # replay machinery failure is never a pass
                    verdict, detail, replay_path = None, f"replay failed: {type(e).__name__}: {e}", None
                extra["replay"] = replay_path
                extra["model"] = _trim_model(model)
                if verdict is not True and q.meta.get("refine") is not None:
                    # the query used a proved CONTRACT for a callee: its counterexample may pick a callee behaviour the real body never shows.
                    # Re-decide the same obligation with the callee's real body inlined; only that answer counts.
                    try:
                        rf = q.meta["refine"]()
                        rprefs = []
                        if isinstance(rf, dict):
                            rf, rprefs = rf["formulas"], list(rf.get("prefer") or [])
                        r3 = solve.decide(rf, timeout=max(q.timeout, 900), tag=f"{self.pid}_{q.name}_refined")
                        if r3["result"] == "sat" and rprefs:
                            r4 = solve.decide(rf + rprefs, timeout=120, tag=f"{self.pid}_{q.name}_refined_pref")
                            if r4["result"] == "sat" and r4.get("model"):
                                r3 = r4
                    except Exception as e:
                        r3 = {"result": "unknown", "detail": f"refinement failed: {type(e).__name__}: {e}", "time_s": 0.0}
                    extra["refined"] = {"result": r3["result"], "solver": r3.get("solver"), "time_s": round(r3.get("time_s", 0.0), 1)}
                    if r3["result"] == "unsat":
                        self.out.add(q.name, "discharged", "contract-level counterexample refuted on the callee's real body (precise encoding unsat)", r["time_s"] + r3["time_s"],
                                     f"mirsym+{r3.get('solver')}", extra)
                        continue
                    if r3["result"] == "sat" and r3.get("model"):
                        try:
                            verdict, detail, replay_path = q.on_sat(q, r3["model"])
                        except Exception as e:
                            verdict, detail, replay_path = None, f"replay failed: {type(e).__name__}: {e}", None
                        extra["replay"] = replay_path
                        extra["model"] = _trim_model(r3["model"])
                        detail = "(after refinement on the real body) " + str(detail)
                    else:
                        verdict, detail = None, "contract-level counterexample did not reproduce and the precise encoding gave no answer: " + str(r3.get("detail", ""))[:200]
                if verdict is True:
                    self.out.add(q.name, "violated", "reproduced natively: " + detail, r["time_s"], eng_name, extra)
                elif verdict is False:
                    self.out.add(q.name, "inconclusive", "counterexample did not reproduce natively (encoder or summary suspect): " + detail, r["time_s"], eng_name, extra)
                else:
                    self.out.add(q.name, "inconclusive", "native replay could not run: " + str(detail)[:300], r["time_s"], eng_name, extra)
            else:
                self.out.add(q.name, "inconclusive", "solver gave no answer within the cap: " + str(r.get("detail", ""))[:200], r["time_s"], eng_name, extra)

    def finish(self, checker_cmd):
        fns = {}
        sums = {}
        for e in self.engines:
            fns.update(e.executed)
            for k, v in e.summaries_used.items():
                sums[k] = sums.get(k, 0) + v
        self.out.functions = [f"{_engine._short(n)} [mir {h}]" for n, h in sorted(fns.items())]
        self.out.trusted = self.out.trusted + ["summary: " + k for k in sorted(sums)]
        return self.out.finish(level="proof", checker_cmd=checker_cmd)


def _trim_model(m):
    return {k: v for k, v in list(m.items())[:60]}


# ------------------------------------------------------------------------------------------- symbolic input helpers

def mk_map(eng, name, key_width, template, cap=None):
    """arbitrary map: fresh `present` array, fresh arrays for every scalar leaf of `template`, fresh ghost count"""
    ks = z3.BitVecSort(key_width)
    present = z3.Const(f"{name}.present", z3.ArraySort(ks, z3.BoolSort()))
    cnt = [0]

    def leaf(l):
        cnt[0] += 1
        return z3.Const(f"{name}.v{cnt[0]}", z3.ArraySort(ks, l.sort()))

    val = vmap(template, leaf)
    count = z3.BitVec(f"{name}.count", 64)
    return VMap(ks, present, val, count, bv(cap, 64) if cap is not None else None)


def fp_of_uint(x):
    return z3.fpUnsignedToFP(z3.RNE(), x, z3.Float64())


def f64(name):
    return z3.FP(name, z3.Float64())


def fpv(x):
    return z3.FPVal(x, z3.Float64())


# ------------------------------------------------------------------------------------------- named inputs: symbolic or concrete

F64S = z3.Float64()


class Src:
    """Source of named check inputs.  model=None: fresh symbolic constants.  model=dict: the solver's values (concrete
    replay: the same check-construction code is evaluated on the natively observed post-state)."""

    def __init__(self, model=None):
        self.model = model
        self.hyps = []
        self.decl = {}

    @property
    def concrete(self):
        return self.model is not None

    def bv(self, name, w):
        self.decl[name] = ("bv", w)
        if self.concrete:
            v = self.model.get(name, 0)
            if isinstance(v, bool):
                v = int(v)
            if not isinstance(v, int):
                v = 0
            return z3.BitVecVal(v & ((1 << w) - 1), w)
        return z3.BitVec(name, w)

    def bool(self, name):
        self.decl[name] = ("bool", 1)
        if self.concrete:
            return z3.BoolVal(bool(self.model.get(name, False)))
        return z3.Bool(name)

    def f64(self, name):
        self.decl[name] = ("f64", 64)
        if self.concrete:
            v = self.model.get(name, {"f64_bits": 0})
            bits = v["f64_bits"] if isinstance(v, dict) and "f64_bits" in v else 0
            return z3.simplify(z3.fpBVToFP(z3.BitVecVal(bits, 64), F64S))
        return z3.FP(name, F64S)

    def bytes(self, name, n):
        from values import VArr

        return VArr([self.bv(f"{name}.{i}", 8) for i in range(n)])

    def instant(self, name, ty="Instant"):
        s = self.bv(name + ".s", 64)
        ns = self.bv(name + ".ns", 32)
        self.hyps.append(z3.ULT(ns, bv(10**9, 32)))
        self.hyps.append(z3.ULT(s, bv(1 << 40, 64)))
        return VStruct([s, ns], ty)

    def short_string(self, name, cap=4):
        """string of at most `cap` printable ASCII bytes, modelled byte by byte; its identity is a canonical function of (len, bytes)"""
        from values import VSeq, VStr

        ln = self.bv(name + ".len", 8)
        bs = [self.bv(f"{name}.b{i}", 8) for i in range(cap)]
        self.hyps.append(z3.ULE(ln, bv(cap, 8)))
        masked = []
        for i, b in enumerate(bs):
            inside = z3.ULT(bv(i, 8), ln)
            self.hyps.append(z3.Implies(inside, z3.And(z3.UGE(b, bv(0x21, 8)), z3.ULE(b, bv(0x7E, 8)))))
            masked.append(z3.If(inside, b, bv(0, 8)))
        ident = z3.ZeroExt(64 - 8 * (cap + 1), z3.Concat(ln, *masked))
        return VStr(z3.simplify(ident), None, VSeq(masked, z3.ZeroExt(56, ln)))

    def pin(self, name, term):
        """named scalar equal to `term` (so that the model reports e.g. array reads)"""
        if z3.is_bool(term):
            c = self.bool(name)
        elif z3.is_bv(term):
            c = self.bv(name, term.size())
        elif z3.is_fp(term):
            c = self.f64(name)
        else:
            raise SymError("pin of non-scalar")
        if not self.concrete:
            self.hyps.append(c == term)
        return c

    def map(self, name, key_width, template, probes, cap=None, finite=None):
        """arbitrary map probed at the given keys: symbolic = fresh arrays + pinned reads; concrete = stores of the pinned values"""
        from values import flatten

        ks = z3.BitVecSort(key_width)
        leaves_t = flatten(template)
        if not self.concrete:
            m = mk_map(None, name, key_width, template, cap)
            arrs = flatten(m.val)
            for label, k in probes.items():
                self.pin(f"{name}@{label}.present", z3.Select(m.present, k))
                for i, a in enumerate(arrs):
                    self.pin(f"{name}@{label}.v{i}", z3.Select(a, k))
            self.bv(f"{name}.count", 64)
            if finite is not None:
                # finite map: only the probed keys can be present (iteration / retain are then modelled)
                m.enum = tuple((probes[l], finite[l]) for l in probes)
            return m
        present = z3.K(ks, z3.BoolVal(False))
        arrs = [z3.K(ks, _zero_like(l)) for l in leaves_t]
        for label, k in probes.items():
            present = z3.Store(present, k, self.pin(f"{name}@{label}.present", z3.BoolVal(False)))
            for i, l in enumerate(leaves_t):
                arrs[i] = z3.Store(arrs[i], k, self.pin(f"{name}@{label}.v{i}", l))
        it = iter(arrs)
        val = vmap(template, lambda l: next(it))
        return VMap(ks, present, val, self.bv(f"{name}.count", 64), bv(cap, 64) if cap is not None else None,
                    tuple((probes[l], finite[l]) for l in probes) if finite is not None else None)

    def case(self):
        """flat JSON-able dict of every declared input under the model (f64 as raw bits)"""
        out = {}
        for name, (kind, w) in self.decl.items():
            v = self.model.get(name) if self.model else None
            if kind == "bool":
                out[name] = bool(v) if v is not None else False
            elif kind == "f64":
                out[name] = v["f64_bits"] if isinstance(v, dict) and "f64_bits" in v else 0
            else:
                out[name] = int(v) if isinstance(v, (int, bool)) else 0
        return out


def _zero_like(l):
    if z3.is_bool(l):
        return z3.BoolVal(False)
    if z3.is_fp(l):
        return z3.FPVal(0.0, l.sort())
    return z3.BitVecVal(0, l.size())


def concrete_truth(f):
    """evaluate a closed formula; returns True/False/None"""
    g = z3.simplify(f)
    if z3.is_true(g):
        return True
    if z3.is_false(g):
        return False
    s = z3.Solver()
    s.set("timeout", 20000)
    s.add(z3.Not(g))
    r = s.check()
    if r == z3.unsat:
        return True
    s2 = z3.Solver()
    s2.set("timeout", 20000)
    s2.add(g)
    if s2.check() == z3.unsat:
        return False
    return None


def obs_map(obs, name, key_width, template, probes):
    """concrete VMap from a native observation: obs[f"{name}@{label}"] = null | [leaf values...]"""
    from values import flatten

    ks = z3.BitVecSort(key_width)
    leaves_t = flatten(template)
    present = z3.K(ks, z3.BoolVal(False))
    arrs = [z3.K(ks, _zero_like(l)) for l in leaves_t]
    for label, k in probes.items():
        o = obs.get(f"{name}@{label}")
        present = z3.Store(present, k, z3.BoolVal(o is not None))
        if o is not None:
            if not isinstance(o, list):
                o = [o]
            for i, l in enumerate(leaves_t):
                arrs[i] = z3.Store(arrs[i], k, _const_like(l, o[i]))
    it = iter(arrs)
    val = vmap(template, lambda l: next(it))
    return VMap(ks, present, val, bv(0, 64), None)


def _const_like(l, v):
    if z3.is_bool(l):
        return z3.BoolVal(bool(v))
    if z3.is_fp(l):
        return z3.simplify(z3.fpBVToFP(z3.BitVecVal(int(v), 64), l.sort()))
    return z3.BitVecVal(int(v) & ((1 << l.size()) - 1), l.size())


def make_replayer(ck, modname, driver, build, params=None, race_driver=None):
    """on_sat handler: run the native driver on the model's inputs, rebuild the goals on the observed post-state."""
    import json as _json

    import kanicheck
    from common import write_replay

    def on_sat(q, model):
        src = Src(model)
        # first pass only to learn the declared inputs (the symbolic build already did, but keep it self-contained)
        sym = ck._src_for.get((driver, _json.dumps(params, sort_keys=True)))
        if sym is not None:
            src.decl = dict(sym.decl)
        case = src.case()
        case["__params"] = params or {}
        case["__driver"] = driver
        payload = {"property": ck.pid, "engine": "mirsym", "module": modname, "driver": driver, "params": params, "obligation": q.name, "case": case,
                   "model": {k: v for k, v in model.items() if k in src.decl}}
        use_driver = driver
        if q.meta.get("side_kind") == "atomicity":
            if race_driver is None:
                return None, "no native stress driver for this atomicity obligation", None
            use_driver = race_driver
            payload["driver"] = race_driver
        obs, transcript = kanicheck.native_driver(modname, use_driver, case)
        payload["observed"] = obs
        payload["transcript_tail"] = transcript[-1500:]
        import hashlib as _hl

        rp = write_replay(ck.pid, q.name.replace("/", "_")[:100] + "-" + _hl.sha1(q.name.encode()).hexdigest()[:8], payload)
        if obs is None:
            return None, "driver produced no observation: " + transcript[-400:], rp
        if q.meta.get("side_kind") == "atomicity":
            if obs.get("race_observed"):
                return True, "native multi-threaded stress run observed the race: " + str(obs.get("detail", ""))[:200], rp
            return False, "native stress run did not observe a race", rp
        if q.kind == "side":
            if obs.get("panicked"):
                return True, "native run panicked: " + obs.get("panic_text", "")[-300:], rp
            return False, "native run did not panic", rp
        if obs.get("panicked"):
            return True, "native run panicked: " + obs.get("panic_text", "")[-300:], rp
        goals = build(Src(model), obs)
        if isinstance(goals, dict) and "goals" in goals and "hyps" in goals:
            # defensive: the counterexample must satisfy the input assumptions of the obligation
            bad = [h for h in goals["hyps"] if concrete_truth(h) is False]
            if bad:
                return None, "model violates an input assumption of the obligation (check construction bug?): " + str(bad[0])[:200], rp
            goals = goals["goals"]
        gname = q.meta.get("goal")
        if gname not in goals:
            return None, f"goal {gname} not rebuilt in concrete mode", rp
        t = concrete_truth(goals[gname])
        if t is False:
            return True, f"goal {gname} is false on the natively observed post-state", rp
        if t is True:
            return False, f"goal {gname} holds on the natively observed post-state", rp
        return None, "could not evaluate the goal concretely", rp

    return on_sat


def replay_file(path, rebuild):
    """./check Cxx --replay <file> for engine-M counterexamples: re-run the native driver and re-evaluate the goal"""
    import json as _json

    import kanicheck

    d = _json.load(open(path))
    if d.get("engine") == "kani":
        return kanicheck.replay_file(path)
    ck = MirCheck(d["property"], "quick")
    obs, transcript = kanicheck.native_driver(d["module"], d["driver"], d["case"])
    print("observed:", _json.dumps(obs)[:2000])
    if obs is None:
        print(transcript[-1500:])
        return 2
    if obs.get("panicked"):
        print(f"VIOLATION property={d['property']} replay={path}")
        return 1
    build = rebuild(ck, d["driver"], d.get("params") or {})
    goals = build(Src(d["model"]), obs)
    if isinstance(goals, dict) and "goals" in goals and "hyps" in goals:
        goals = goals["goals"]
    gname = d["obligation"].split("/", 1)[1] if d["obligation"].split("/", 1)[1] in goals else None
    for g in goals:
        if d["obligation"].endswith(g):
            gname = g
    t = concrete_truth(goals[gname]) if gname else None
    print("goal", gname, "->", t)
    if t is False:
        print(f"VIOLATION property={d['property']} replay={path}")
        return 1
    return 0 if t is True else 2


def run_async(eng, fn_name, args, st):
    """execute an `async fn` to completion: build its state machine, poll it once, require Ready (a suspension is an error:
    the modelled awaits -- uncontended locks, nested async fns -- never suspend).  -> (state, output value)"""
    from values import VCoroutine, VOpaque as _VO

    r = eng.call(fn_name, args, st)
    if r is None:
        raise SymError("async fn diverges before creating its future")
    st1, co = r
    if not isinstance(co, VCoroutine):
        raise SymError(f"{fn_name} did not return an async state machine: {co!r}")
    ref = eng.alloc(st1, co)
    pin = VStruct([ref], "Pin")
    cx = eng.alloc(st1, _VO("task::Context"))
    body = eng.crate.body(fn_name + "::{closure#0}")
    r2 = eng.run_body(body, [pin, cx], st1)
    if r2 is None:
        raise SymError("async body diverges")
    st2, poll = r2
    eng.oblige(st2, "suspension:" + fn_name.split("::")[-1] + " returned Pending", poll.idx != bv(0, 8), kind="assert")
    if 0 not in poll.pay:
        raise SymError("async body never completes")
    st2.pc = z3.simplify(z3.And(st2.pc, poll.idx == bv(0, 8)))
    return st2, poll.pay[0][0]
