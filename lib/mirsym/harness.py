"""Glue between check scripts and engine M: load MIR of the current tree, build engines, queue solver queries,
run them in parallel, hand counterexamples to the check's native replay, fill the Outcome."""
import concurrent.futures as cf
import os
import re
import sys
import time

import z3

HERE = os.path.dirname(os.path.abspath(__file__))
sys.path.insert(0, HERE)
sys.path.insert(0, os.path.dirname(HERE))

import engine as _engine  # noqa: E402
import mir  # noqa: E402
import mirdump  # noqa: E402
import solve  # noqa: E402
from common import Outcome, log  # noqa: E402
from values import SymError, VMap, VStruct, bv, vmap  # noqa: E402

_crate_cache = {}


def load_crate():
    path, h, secs, cached = mirdump.ensure_mir()
    if path not in _crate_cache:
        _crate_cache[path] = mir.Crate(path)
    return _crate_cache[path], h, secs, cached


class Query:
    def __init__(self, name, kind, formulas, expect, meta=None, timeout=120, on_sat=None, eng=None):
        self.name = name
        self.kind = kind  # 'prove' (expect unsat) | 'reach' (expect sat) | 'side' (assert/panic/unwind obligation, expect unsat)
        self.formulas = formulas
        self.expect = expect
        self.meta = meta or {}
        self.timeout = timeout
        self.on_sat = on_sat
        self.eng = eng
        self.result = None


class MirCheck:
    def __init__(self, pid, tier):
        self.pid = pid
        self.tier = tier
        self.out = Outcome(pid, tier)
        t0 = time.time()
        self.crate, self.tree_hash, secs, cached = load_crate()
        self.out.notes.append(f"MIR of /repo tree {self.tree_hash}: {'cached' if cached else f'regenerated in {secs:.0f}s'}; parse {time.time() - t0 - secs:.1f}s")
        self.queries = []
        self.engines = []
        self.timeout = 120 if tier == "quick" else 900
        self.errors = []

    def engine(self, unwind=8):
        e = _engine.Engine(self.crate, os.environ.get("VERIF_REPO", "/repo"), unwind=unwind)
        self.engines.append(e)
        return e

    def fn(self, pattern, which=None):
        """unique item name matching regex (fails closed)"""
        names = [n for n in self.crate.find(pattern) if self.crate.items[n][0][0] == "fn"]
        if len(names) != 1:
            raise SymError(f"function pattern {pattern!r} matches {len(names)} items: {names[:5]}")
        return names[0]

    # ---- query construction
    def prove(self, name, eng, hyps, goal, on_sat=None, timeout=None, meta=None):
        f = list(eng.assumptions) + list(hyps) + [z3.Not(goal)]
        self.queries.append(Query(name, "prove", f, "unsat", meta, timeout or self.timeout, on_sat, eng))

    def reach(self, name, eng, hyps, cond, timeout=None):
        f = list(eng.assumptions) + list(hyps) + [cond]
        self.queries.append(Query(name, "reach", f, "sat", None, timeout or self.timeout, None, eng))

    def side(self, prefix, eng, hyps, on_sat=None, skip=None, timeout=None):
        """one query per assert/panic/unwind obligation the engine collected"""
        seen = set()
        for i, o in enumerate(eng.obligations):
            if skip and skip(o):
                continue
            key = o["formula"].hash()
            if (o["name"], key) in seen:
                continue
            seen.add((o["name"], key))
            f = list(eng.assumptions) + list(hyps) + [o["formula"]]
            q = Query(f"{prefix}/{o['kind']}#{i}:{o['name']}", "side", f, "unsat", {"side_kind": o["kind"]}, timeout or self.timeout, on_sat, eng)
            self.queries.append(q)

    def guarded(self, name, f):
        """run a piece of check construction; engine errors make that obligation inconclusive, not the whole run"""
        try:
            f()
        except (SymError, mir.MirError, KeyError, IndexError, AttributeError, TypeError, z3.Z3Exception) as e:
            msg = f"{type(e).__name__}: {e}"
            self.errors.append((name, msg))
            self.out.add(name, "inconclusive", "engine could not encode: " + msg[:500], engine="mirsym")

    # ---- run
    def run_queries(self, workers=5):
        import random

        order = list(self.queries)
        random.Random(int(os.environ.get("VERIF_SEED", "0") or 0)).shuffle(order)
        pending = []
        for q in order:  # main thread: z3 API use
            r, path = solve.prepare(q.formulas, tag=f"{self.pid}_{q.name}")
            if r is not None:
                q.result = r
            else:
                pending.append((q, path))

        def work(item):
            q, path = item
            return q, solve.decide_file(path, timeout=q.timeout)

        with cf.ThreadPoolExecutor(max_workers=workers) as ex:
            for q, r in ex.map(work, pending):
                q.result = r
        for q in self.queries:
            r = q.result
            res = r["result"]
            eng_name = f"mirsym+{r.get('solver')}"
            extra = {"kind": q.kind, "smt2": r.get("smt2_path")}
            if q.kind == "reach":
                if res == "sat":
                    self.out.vacuity.append(f"{q.name}: reachable ({r.get('solver')}, {r['time_s']:.1f}s)")
                    self.out.add(q.name, "discharged", "vacuity witness: satisfiable as required", r["time_s"], eng_name, extra)
                elif res == "unsat":
                    self.out.add(q.name, "inconclusive", "vacuity guard failed: target unreachable under the harness assumptions", r["time_s"], eng_name, extra)
                else:
                    self.out.add(q.name, "inconclusive", "solver gave no answer: " + str(r.get("detail", ""))[:200], r["time_s"], eng_name, extra)
                continue
            if res == "unsat":
                self.out.add(q.name, "discharged", "", r["time_s"], eng_name, extra)
            elif res == "sat":
                if q.meta.get("side_kind") == "unwind":
                    self.out.add(q.name, "inconclusive", "unwinding assertion: loop bound too small for this input space", r["time_s"], eng_name, extra)
                    continue
                model = r.get("model") or {}
                if q.on_sat is None:
                    extra["model"] = _trim_model(model)
                    self.out.add(q.name, "inconclusive", "counterexample found but this obligation has no native replay", r["time_s"], eng_name, extra)
                    continue
                try:
                    verdict, detail, replay_path = q.on_sat(q, model)
                except Exception as e:  # replay machinery failure is never a pass
                    verdict, detail, replay_path = None, f"replay failed: {type(e).__name__}: {e}", None
                extra["replay"] = replay_path
                extra["model"] = _trim_model(model)
                if verdict is True:
                    self.out.add(q.name, "violated", "reproduced natively: " + detail, r["time_s"], eng_name, extra)
                elif verdict is False:
                    self.out.add(q.name, "inconclusive", "counterexample did not reproduce natively (encoder or summary suspect): " + detail, r["time_s"], eng_name, extra)
                else:
                    self.out.add(q.name, "inconclusive", "native replay could not run: " + str(detail)[:300], r["time_s"], eng_name, extra)
            else:
                self.out.add(q.name, "inconclusive", "solver gave no answer within the cap: " + str(r.get("detail", ""))[:200], r["time_s"], eng_name, extra)

    def finish(self, checker_cmd):
        fns = {}
        sums = {}
        for e in self.engines:
            fns.update(e.executed)
            for k, v in e.summaries_used.items():
                sums[k] = sums.get(k, 0) + v
        self.out.functions = [f"{_engine._short(n)} [mir {h}]" for n, h in sorted(fns.items())]
        self.out.trusted = self.out.trusted + ["summary: " + k for k in sorted(sums)]
        return self.out.finish(level="proof", checker_cmd=checker_cmd)


def _trim_model(m):
    return {k: v for k, v in list(m.items())[:60]}


# ------------------------------------------------------------------------------------------- symbolic input helpers

def mk_map(eng, name, key_width, template, cap=None):
    """arbitrary map: fresh `present` array, fresh arrays for every scalar leaf of `template`, fresh ghost count"""
    ks = z3.BitVecSort(key_width)
    present = z3.Const(f"{name}.present", z3.ArraySort(ks, z3.BoolSort()))
    cnt = [0]

    def leaf(l):
        cnt[0] += 1
        return z3.Const(f"{name}.v{cnt[0]}", z3.ArraySort(ks, l.sort()))

    val = vmap(template, leaf)
    count = z3.BitVec(f"{name}.count", 64)
    return VMap(ks, present, val, count, bv(cap, 64) if cap is not None else None)


def fp_of_uint(x):
    return z3.fpUnsignedToFP(z3.RNE(), x, z3.Float64())


def f64(name):
    return z3.FP(name, z3.Float64())


def fpv(x):
    return z3.FPVal(x, z3.Float64())
