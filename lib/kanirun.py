"""Engine K: run Kani (CBMC) harnesses compiled in-crate in a scratch copy of /repo.

Harness sources live in /verif/kani/<name>.rs and are attached to the module they need private access
to by appending `#[cfg(kani)] #[path = "..."] mod verif_kani_<name>;` to that module's file *in the
scratch copy only* (cfg(kani) is only set by the Kani compiler).  /repo itself is never touched.
"""
import os
import re
import signal
import subprocess
import time

from common import CACHE, VERIF, Lock, env_offline, inject_hook, log, scratch_copy

KANI_TARGET = os.path.join(CACHE, "kani-target")

# harness file -> module source file it is attached to
ATTACH = {
    "monotonic_counter": "src/monotonic_counter.rs",
    "rate_limit": "src/rate_limit.rs",
    "security": "src/security.rs",
    "core_engine": "src/dht/core_engine.rs",
    "liveness": "src/dht/routing_maintenance/liveness.rs",
    "eviction": "src/dht/routing_maintenance/eviction.rs",
    "trust_peer_selector": "src/dht/trust_peer_selector.rs",
    "close_group_validator": "src/dht/routing_maintenance/close_group_validator.rs",
    "network": "src/network.rs",
    "peer_record": "src/peer_record.rs",
    "bootstrap_manager": "src/bootstrap/manager.rs",
    "dht_network_manager": "src/dht_network_manager.rs",
    "transport_handle": "src/transport_handle.rs",
    "validation": "src/validation.rs",
    "dht_records": "src/placement/dht_records.rs",
}


def prepare_scratch():
    """Caller must hold Lock('kani')."""
    scratch = scratch_copy("kani")
    for name, rel in ATTACH.items():
        hf = os.path.join(VERIF, "kani", name + ".rs")
        if os.path.exists(hf) and os.path.exists(os.path.join(scratch, rel)):
            inject_hook(scratch, rel, f'#[cfg(any(kani, verif_replay))]\n#[path = "{hf}"]\npub(crate) mod verif_kani_{name};')
    return scratch


def _kill_tree(p):
    try:
        os.killpg(os.getpgid(p.pid), signal.SIGKILL)
    except Exception:
        pass


def modpath(name):
    rel = ATTACH[name]
    p = rel[len("src/"):-len(".rs")]
    if p.endswith("/mod"):
        p = p[:-4]
    return p.replace("/", "::")


def full_name(h, modname):
    return f"{modpath(modname)}::verif_kani_{modname}::{h}"


def run_harnesses(modname, harnesses, timeout_s, extra_args=(), mem_gb=24, logname="kani"):
    """Run the named harnesses (exact names) in one cargo-kani invocation.
    Returns (results: {harness: dict}, raw_log_path, wall_s)."""
    os.makedirs(os.path.join(CACHE, "logs"), exist_ok=True)
    logp = os.path.join(CACHE, "logs", f"{logname}.log")
    with Lock("kani"):
        scratch = prepare_scratch()
        cmd = ["cargo", "kani", "--target-dir", KANI_TARGET, "-Z", "stubbing", "-Z", "unstable-options", "--exact"]
        for h in harnesses:
            cmd += ["--harness", full_name(h, modname)]
        cmd += list(extra_args)
        shell = f"ulimit -v {mem_gb * 1024 * 1024}; exec " + " ".join(cmd)
        t0 = time.time()
        with open(logp, "w") as lf:
            p = subprocess.Popen(["bash", "-c", shell], cwd=scratch, env=env_offline(), stdout=lf, stderr=subprocess.STDOUT,
                                 start_new_session=True)
            try:
                p.wait(timeout=timeout_s)
                timed_out = False
            except subprocess.TimeoutExpired:
                timed_out = True
                _kill_tree(p)
                p.wait()
        wall = time.time() - t0
    text = open(logp, errors="replace").read()
    res = parse_log(text, harnesses)
    for h in harnesses:
        if h not in res:
            res[h] = {"status": "inconclusive", "detail": "timeout" if timed_out else "no result in kani output (build failure?)", "time_s": 0.0}
    if timed_out:
        for h, r in res.items():
            if r["status"] == "running":
                r["status"] = "inconclusive"
                r["detail"] = "timeout"
    return res, logp, wall


_H = re.compile(r"^Checking harness (\S+?)\.\.\.$", re.M)


def parse_log(text, harnesses):
    res = {}
    parts = _H.split(text)
    # parts = [pre, name1, body1, name2, body2...]
    for i in range(1, len(parts), 2):
        full = parts[i]
        body = parts[i + 1]
        short = None
        for h in harnesses:
            if full == h or full.endswith("::" + h):
                short = h
        if short is None:
            short = full
        r = {"status": "running", "detail": "", "time_s": 0.0, "full_name": full}
        m = re.search(r"Verification Time: ([0-9.]+)s", body)
        if m:
            r["time_s"] = float(m.group(1))
        cov = re.search(r"\*\* (\d+) of (\d+) cover properties satisfied", body)
        if cov:
            r["covers_sat"] = int(cov.group(1))
            r["covers_total"] = int(cov.group(2))
        tot = re.search(r"\*\* (\d+) of (\d+) failed", body)
        if tot:
            r["checks_failed"] = int(tot.group(1))
            r["checks_total"] = int(tot.group(2))
        if "VERIFICATION:- SUCCESSFUL" in body:
            r["status"] = "discharged"
        elif "VERIFICATION:- FAILED" in body:
            fails = re.findall(r"Failed Checks: (.*)\n\s*File: \"([^\"]*)\", line (\d+)", body)
            r["failed_checks"] = [f"{a} @ {os.path.basename(b)}:{c}" for a, b, c in fails][:10]
            if "Status: ERROR" in body or "out of memory" in body.lower() or "CBMC failed" in body:
                r["status"] = "inconclusive"
                r["detail"] = "CBMC error / out of memory"
            elif any("unwinding assertion" in f for f in r["failed_checks"]) and all(
                "unwinding assertion" in f for f in r["failed_checks"]
            ):
                r["status"] = "inconclusive"
                r["detail"] = "unwinding assertion failed: bound too small: " + "; ".join(r["failed_checks"])
            elif not fails:
                r["status"] = "inconclusive"
                r["detail"] = "FAILED without failed checks (unsupported construct reachable?)"
                un = re.findall(r"Status: (UNDETERMINED|UNREACHABLE|UNSUPPORTED)[^\n]*\n[^\n]*Description: \"([^\"]*)\"", body)
                if un:
                    r["detail"] += " " + "; ".join(d for _, d in un[:3])
            else:
                r["status"] = "violated"
                r["detail"] = "; ".join(r["failed_checks"])
        res[short] = r
    return res
