#!/bin/bash
# usage: seed_eval.sh <Cxx> <patchfile> <label> : apply a seeded change to /repo, run the check, undo
id=$1; patch=$2; label=$3
cd /repo && git apply "$patch" || { echo "EVAL $label PATCH-FAILED"; exit 1; }
cd /verif && s=$(date +%s) && ./check $id --tier quick > /tmp/seed-eval-$label.log 2>&1; rc=$?
cd /repo && git checkout -- .
echo "EVAL $label rc=$rc wall=$(( $(date +%s) - s ))s $(grep -c '^VIOLATION' /tmp/seed-eval-$label.log) violations; $(grep -m1 '^VIOLATION\|^INCONCLUSIVE' /tmp/seed-eval-$label.log | cut -c1-160)"
