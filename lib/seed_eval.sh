#!/bin/bash
# usage: seed_eval.sh <Cxx> <patchfile> <label> : apply a seeded change to a scratch worktree of /repo's HEAD, run the check against it, undo
# (the checks honour VERIF_REPO; evidence/replays of these runs go to /tmp so that /verif/evidence keeps the clean-tree records)
id=$1; patch=$2; label=$3
W=${EVAL_WT:-/tmp/repo-eval}
cd $W && git checkout -q --detach $(git -C /repo rev-parse HEAD) && git checkout -q -- . && git apply "$patch" || { echo "EVAL $label PATCH-FAILED"; exit 1; }
cd /verif && s=$(date +%s) && VERIF_REPO=$W VERIF_EVIDENCE_DIR=/tmp/eval-evidence VERIF_REPLAY_DIR=/tmp/eval-replays VERIF_SMT_DIR=/tmp/eval-smt ./check $id --tier quick > /tmp/seed-eval-$label.log 2>&1; rc=$?
cd $W && git checkout -q -- .
echo "EVAL $label rc=$rc wall=$(( $(date +%s) - s ))s $(grep -c '^VIOLATION' /tmp/seed-eval-$label.log) violations; $(grep -m1 '^VIOLATION\|^INCONCLUSIVE' /tmp/seed-eval-$label.log | cut -c1-260)"
