#!/bin/bash
# usage: seed_confirm.sh <Cxx> <i> <lib-test-filter>
# confirms in the scratch worktree /tmp/wt-<Cxx>: patch applies + compiles, module tests pass with it, demo fails with it and passes without it
id=$1; i=$2; filt=$3
wt=/tmp/wt-$id; sd=/tmp/seed-$id/$i
export CARGO_NET_OFFLINE=true
cd $wt || exit 9
git checkout -q -- . ; rm -f tests/verif_seed_demo.rs
out=/tmp/seed-$id/$i/confirm.log; : > $out
demo=$(ls $sd/demo*.rs 2>/dev/null | head -1)
[ -z "$demo" ] && { echo "NO-DEMO-RS" | tee -a $out; exit 3; }
cp $demo tests/verif_seed_demo.rs
# 1. without the change: demo passes
cargo test --offline --test verif_seed_demo >> $out 2>&1; rc_clean=$?
# 2. with the change
git apply $sd/patch.diff >> $out 2>&1 || { echo "PATCH-DOES-NOT-APPLY" | tee -a $out; exit 4; }
cargo test --offline --test verif_seed_demo >> $out 2>&1; rc_patched=$?
cargo test --offline --lib $filt >> $out 2>&1; rc_lib=$?
git checkout -q -- . ; rm -f tests/verif_seed_demo.rs
echo "SEED $id/$i demo_clean_rc=$rc_clean demo_patched_rc=$rc_patched lib_tests_patched_rc=$rc_lib" | tee -a $out
