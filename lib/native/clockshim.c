// LD_PRELOAD shim used only by /verif's native replay drivers: lets a driver dictate what
// clock_gettime() returns (Instant::now / SystemTime::now) so that a solver counterexample that
// depends on clock readings can be replayed exactly against the natively compiled crate.
#define _GNU_SOURCE
#include <dlfcn.h>
#include <stddef.h>
#include <time.h>

#define QMAX 64
static volatile int armed = 0;
static struct timespec q[2][QMAX];
static int qlen[2] = {0, 0};
static int qpos[2] = {0, 0};

static int (*orig_fn)(clockid_t, struct timespec *) = NULL;

static int pop(int which, struct timespec *ts) {
    if (qlen[which] == 0) return 0;
    int i = qpos[which];
    if (i >= qlen[which]) i = qlen[which] - 1;  // last reading repeats
    *ts = q[which][i];
    if (qpos[which] < qlen[which]) qpos[which]++;
    return 1;
}

int clock_gettime(clockid_t id, struct timespec *ts) {
    if (!orig_fn) orig_fn = (int (*)(clockid_t, struct timespec *))dlsym(RTLD_NEXT, "clock_gettime");
    if (armed) {
        if ((id == CLOCK_MONOTONIC || id == CLOCK_MONOTONIC_RAW || id == CLOCK_BOOTTIME || id == CLOCK_MONOTONIC_COARSE) && pop(0, ts)) return 0;
        if ((id == CLOCK_REALTIME || id == CLOCK_REALTIME_COARSE) && pop(1, ts)) return 0;
    }
    return orig_fn(id, ts);
}

// which: 0 = monotonic (Instant), 1 = realtime (SystemTime)
void verif_clock_push(int which, long secs, long nanos) {
    if (which < 0 || which > 1 || qlen[which] >= QMAX) return;
    q[which][qlen[which]].tv_sec = secs;
    q[which][qlen[which]].tv_nsec = nanos;
    qlen[which]++;
}
void verif_clock_reset(void) {
    qlen[0] = qlen[1] = 0;
    qpos[0] = qpos[1] = 0;
    armed = 0;
}
void verif_clock_arm(int on) { armed = on; }
int verif_clock_calls(int which) { return qpos[which]; }
