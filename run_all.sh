#!/bin/bash
# run every claimed check (quick by default) on /repo's current tree, sequentially; prints one summary line per check
cd "$(dirname "$0")"
tier=${1:-quick}
ids=$(python3 -c "import json;print(' '.join(c['property_id'] for c in json.load(open('MANIFEST.json'))['checks']))")
for id in $ids; do
  s=$(date +%s)
  ./check $id --tier $tier > .cache/logs/run_all_$id.log 2>&1
  rc=$?
  echo "$id rc=$rc wall=$(( $(date +%s) - s ))s $(tail -1 .cache/logs/run_all_$id.log | cut -c1-150)"
done
