use super::*;

static mut NOW: u64 = 0;
fn stub_ts() -> u64 { unsafe { NOW } }

fn rs_new() -> std::collections::hash_map::RandomState { unsafe { std::mem::zeroed() } }

fn sys() -> MonotonicCounterSystem {
    MonotonicCounterSystem {
        counters: Arc::new(RwLock::new(HashMap::new())),
        storage_path: PathBuf::new(),
        sync_interval: Duration::from_secs(30),
        sync_task: None,
        stats: Arc::new(Mutex::new(CounterStats::default())),
    }
}

#[kani::proof]
#[kani::unwind(40)]
#[kani::stub(super::current_timestamp, stub_ts)]
#[kani::stub(std::collections::hash_map::RandomState::new, rs_new)]
fn seq_step() {
    let now: u64 = kani::any();
    kani::assume(now < (1u64 << 40));
    unsafe { NOW = now; }
    let s = sys();
    let last: u64 = kani::any();
    kani::assume(last < u64::MAX);
    let pc = pc_with::<2>(last);
    let seq: u64 = kani::any();
    let h: [u8; 32] = kani::any();
    let ts: u64 = kani::any();
    let r = s.validate_sequence_internal(&pc, seq, h, ts);
    if r == SequenceValidationResult::Valid {
        assert!(seq == last + 1);
        assert!(ts <= now + 60 && ts + 3600 >= now);
    }
    if seq == last + 1 && ts <= now + 60 && ts >= now.saturating_sub(3600) {
        assert!(r == SequenceValidationResult::Valid);
    }
    std::mem::forget(s);
}

#[kani::proof]
#[kani::unwind(5)]
#[kani::stub(std::collections::hash_map::RandomState::new, rs_new)]
fn only_sys() {
    let s = sys();
    std::mem::forget(s);
}

fn pc_with<const N: usize>(last: u64) -> PeerCounter {
    let mut hist = Vec::with_capacity(N + 1);
    let mut i = 0;
    while i < N {
        let sq: u64 = kani::any();
        kani::assume(sq <= last && sq >= 1);
        hist.push(SequenceEntry { sequence: sq, timestamp: kani::any(), message_hash: kani::any() });
        i += 1;
    }
    PeerCounter { current_sequence: last, last_valid_sequence: last, sequence_history: hist, last_updated: 0, replay_attempts: 0, sequence_gaps: 0 }
}

#[kani::proof]
#[kani::unwind(34)]
fn seq_pc_only() {
    let last: u64 = kani::any();
    kani::assume(last < u64::MAX);
    let mut pc = pc_with::<2>(last);
    let seq: u64 = kani::any();
    let h: [u8; 32] = kani::any();
    let seen = pc.has_seen_sequence(seq, h);
    if seq > last { assert!(!seen); }
    pc.apply_sequence_update(seq, h, 5);
    assert!(pc.last_valid_sequence == seq);
    assert!(pc.has_seen_sequence(seq, h));
    std::mem::forget(pc);
}
