#!/bin/bash
# usage: run.sh <target-dir> <timeout-s> harness...
T=$1; shift; TO=$1; shift
cd /tmp/rp
for h in "$@"; do
  s=$(date +%s)
  CARGO_NET_OFFLINE=true timeout $TO cargo kani --target-dir $T -Z stubbing -Z unstable-options $KFLAGS --harness $h --output-format terse > /tmp/rp-h/$h.log 2>&1
  rc=$?
  e=$(( $(date +%s) - s ))
  echo "== $h rc=$rc wall=${e}s $(grep -E 'VERIFICATION:|Verification Time|failed|Failed Checks' /tmp/rp-h/$h.log | tr '\n' ' ' | cut -c1-400)"
done
