use super::*;
use crate::dht::core_engine::NodeCapacity;

struct TP { ids: [[u8; 32]; 2], t: [f64; 2] }
impl TrustProvider for TP {
    fn get_trust(&self, node: &AdaptiveNodeId) -> f64 {
        if node.hash == self.ids[0] { self.t[0] } else if node.hash == self.ids[1] { self.t[1] } else { 0.0 }
    }
    fn update_trust(&self, _f: &AdaptiveNodeId, _t: &AdaptiveNodeId, _s: bool) {}
    fn get_global_trust(&self) -> std::collections::HashMap<AdaptiveNodeId, f64> { unreachable!() }
    fn remove_node(&self, _n: &AdaptiveNodeId) {}
}
fn mk(id: [u8; 32]) -> NodeInfo {
    NodeInfo { id: NodeId::from_bytes(id), address: String::new(), last_seen: std::time::SystemTime::UNIX_EPOCH,
        capacity: NodeCapacity { storage_available: 0, bandwidth_available: 0, reliability_score: 1.0 } }
}

#[kani::proof]
#[kani::unwind(34)]
fn sel_pair_order() {
    let mut a = [0u8; 32]; let mut b = [0u8; 32];
    a[0] = kani::any(); a[15] = kani::any(); a[16] = kani::any();
    b[0] = kani::any(); b[15] = kani::any(); b[16] = kani::any();
    kani::assume(a != b);
    let t: f64 = kani::any();
    kani::assume(t >= 0.0 && t <= 1.0);
    let tp = Arc::new(TP { ids: [a, b], t: [t, t] });
    let sel = TrustAwarePeerSelector::new(tp, TrustSelectionConfig::default());
    let key = DhtKey::from_bytes([0u8; 32]);
    let c = [mk(a), mk(b)];
    let r = sel.select_peers(&key, &c, 2);
    assert!(r.len() == 2);
    // equal trust: closer first
    let d0 = r[0].id.as_bytes(); let d1 = r[1].id.as_bytes();
    let mut i = 0; let mut ok = true;
    while i < 32 { if d0[i] != d1[i] { ok = d0[i] < d1[i]; break; } i += 1; }
    assert!(ok, "closer-first");
}
