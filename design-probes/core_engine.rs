use super::*;

fn mk(id: [u8; 32]) -> NodeInfo {
    NodeInfo {
        id: NodeId::from_bytes(id),
        address: String::new(),
        last_seen: SystemTime::UNIX_EPOCH,
        capacity: NodeCapacity { storage_available: 0, bandwidth_available: 0, reliability_score: 1.0 },
    }
}

fn lt(a: &[u8; 32], b: &[u8; 32]) -> bool {
    let mut i = 0;
    while i < 32 {
        if a[i] != b[i] { return a[i] < b[i]; }
        i += 1;
    }
    false
}

// two nodes, ids symbolic in first 2 bytes
#[kani::proof]
#[kani::unwind(258)]
fn rt_closest_2() {
    let local = NodeId::from_bytes([0u8; 32]);
    let mut rt = KademliaRoutingTable::new(local, 8);
    let mut a = [0u8; 32];
    let mut b = [0u8; 32];
    a[0] = kani::any(); a[1] = kani::any();
    b[0] = kani::any(); b[1] = kani::any();
    kani::assume(a != [0u8; 32] && b != [0u8; 32] && a != b);
    let _ = rt.add_node(mk(a));
    let _ = rt.add_node(mk(b));
    let mut k = [0u8; 32];
    k[0] = kani::any(); k[1] = kani::any();
    let key = DhtKey::from_bytes(k);
    let count: usize = kani::any();
    kani::assume(count <= 3);
    let r = rt.find_closest_nodes(&key, count);
    let want = if count < 2 { count } else { 2 };
    assert!(r.len() == want, "len");
    if r.len() == 2 {
        let d0 = r[0].id.0.distance(&key);
        let d1 = r[1].id.0.distance(&key);
        assert!(lt(&d0, &d1), "sorted-distinct");
    }
    if r.len() == 1 {
        let da = DhtKey::from_bytes(a).distance(&key);
        let db = DhtKey::from_bytes(b).distance(&key);
        let d0 = r[0].id.0.distance(&key);
        assert!(!lt(&da, &d0) && !lt(&db, &d0), "closest");
    }
}

use std::future::Future;
use std::pin::pin;
use std::task::{Context, Poll, Waker};
fn block_on<F: Future>(f: F) -> F::Output {
    let mut f = pin!(f);
    let mut cx = Context::from_waker(Waker::noop());
    loop {
        if let Poll::Ready(v) = f.as_mut().poll(&mut cx) { return v; }
    }
}
fn rs_new() -> std::collections::hash_map::RandomState { unsafe { std::mem::zeroed() } }
fn stub_inow() -> std::time::Instant { unsafe { std::mem::zeroed() } }
fn stub_snow() -> SystemTime { SystemTime::UNIX_EPOCH }

#[kani::proof]
#[kani::unwind(258)]
#[kani::stub(std::collections::hash_map::RandomState::new, rs_new)]
#[kani::stub(std::time::Instant::now, stub_inow)]
#[kani::stub(std::time::SystemTime::now, stub_snow)]
fn engine_new_only() {
    let e = DhtCoreEngine::new_with_validation_mode(NodeId::from_bytes([0u8; 32]), CloseGroupEnforcementMode::LogOnly);
    assert!(e.is_ok());
    std::mem::forget(e);
}

#[kani::proof]
#[kani::unwind(258)]
fn bucket_index_ref() {
    let local: [u8; 32] = kani::any();
    let other: [u8; 32] = kani::any();
    let rt = KademliaRoutingTable { buckets: Vec::new(), node_id: NodeId::from_bytes(local), _k_value: 8 };
    let idx = rt.get_bucket_index(&NodeId::from_bytes(other));
    assert!(idx < 256);
    let mut i = 0usize;
    while i < 256 {
        if i < idx && !(idx == 255 && local == other) {
            let bl = (local[i / 8] >> (7 - (i % 8))) & 1;
            let bo = (other[i / 8] >> (7 - (i % 8))) & 1;
            assert!(bl == bo);
        }
        i += 1;
    }
    std::mem::forget(rt);
}
