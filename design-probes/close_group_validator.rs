use super::*;

fn stub_inow() -> Instant { unsafe { std::mem::zeroed() } }
fn stub_snow() -> SystemTime { SystemTime::UNIX_EPOCH }

const N: usize = 5;

fn trust_of(c: u8) -> Option<f64> {
    match c { 0 => None, 1 => Some(0.1), 2 => Some(0.29), 3 => Some(0.3), _ => Some(0.9) }
}

#[kani::proof]
#[kani::unwind(12)]
#[kani::stub(std::time::Instant::now, stub_inow)]
#[kani::stub(std::time::SystemTime::now, stub_snow)]
fn bft_f_liars() {
    let v = CloseGroupValidator::new(CloseGroupValidatorConfig::default());
    v.set_attack_mode(true);
    let mut rs: Vec<CloseGroupResponse> = Vec::new();
    let mut confirms = 0usize;
    let mut trusted = 0usize;
    for i in 0..N {
        let c: bool = kani::any();
        let tc: u8 = kani::any();
        kani::assume(tc <= 4);
        let lat: u64 = kani::any();
        kani::assume(lat < 1000);
        let t = trust_of(tc);
        if t.unwrap_or(0.0) >= 0.3 { trusted += 1; if c { confirms += 1; } }
        rs.push(CloseGroupResponse {
            peer_id: DhtNodeId::from_bytes([i as u8; 32]),
            confirms_membership: c,
            peer_trust_score: t,
            peer_region: None,
            response_latency: Duration::from_millis(lat),
            received_at: stub_inow(),
        });
    }
    let r = v.validate_membership(&DhtNodeId::from_bytes([9u8; 32]), &rs, None);
    if r.is_valid {
        assert!(trusted >= 5);
        assert!(confirms * 100 >= trusted * 71);
    }
}

fn rs_new() -> std::collections::hash_map::RandomState { unsafe { std::mem::zeroed() } }

fn run_bft<const M: usize>(sym_lat: bool) {
    let mut cfg = CloseGroupValidatorConfig::default();
    cfg.min_peers_to_query = M;
    cfg.min_regions = 0;
    let v = CloseGroupValidator::new(cfg);
    v.set_attack_mode(true);
    let mut rs: Vec<CloseGroupResponse> = Vec::with_capacity(M);
    let mut confirms = 0usize;
    let mut trusted = 0usize;
    let mut i = 0;
    while i < M {
        let c: bool = kani::any();
        let tc: u8 = kani::any();
        kani::assume(tc <= 4);
        let lat: u64 = if sym_lat { let l: u8 = kani::any(); (l as u64) * 5 } else { (i as u64) * 100 };
        let t = trust_of(tc);
        if t.unwrap_or(0.0) >= 0.3 { trusted += 1; if c { confirms += 1; } }
        rs.push(CloseGroupResponse {
            peer_id: DhtNodeId::from_bytes([i as u8; 32]),
            confirms_membership: c,
            peer_trust_score: t,
            peer_region: None,
            response_latency: Duration::from_millis(lat),
            received_at: stub_inow(),
        });
        i += 1;
    }
    let r = v.validate_membership(&DhtNodeId::from_bytes([9u8; 32]), &rs, None);
    if r.is_valid {
        assert!(trusted >= M);
        assert!(confirms * 100 >= trusted * 71);
    }
    kani::cover!(r.is_valid);
    std::mem::forget(r); std::mem::forget(rs); std::mem::forget(v);
}

#[kani::proof]
#[kani::unwind(8)]
#[kani::stub(std::time::Instant::now, stub_inow)]
#[kani::stub(std::time::SystemTime::now, stub_snow)]
#[kani::stub(std::collections::hash_map::RandomState::new, rs_new)]
fn bft_m3_conclat() { run_bft::<3>(false); }

#[kani::proof]
#[kani::unwind(8)]
#[kani::stub(std::time::Instant::now, stub_inow)]
#[kani::stub(std::time::SystemTime::now, stub_snow)]
#[kani::stub(std::collections::hash_map::RandomState::new, rs_new)]
fn bft_m3_symlat() { run_bft::<3>(true); }

#[kani::proof]
#[kani::unwind(8)]
#[kani::stub(std::time::Instant::now, stub_inow)]
#[kani::stub(std::time::SystemTime::now, stub_snow)]
#[kani::stub(std::collections::hash_map::RandomState::new, rs_new)]
fn bft_m5_conclat() { run_bft::<5>(false); }
