#!/usr/bin/env python3
"""Spike: parse MIR of Bucket::try_consume and decide the step invariant with z3 (path-forking, no merging)."""
import re, sys, time
from z3 import *

src = open(sys.argv[1]).read()
F64 = Float64(); RM = RNE()

# ---- parse -------------------------------------------------------------
blocks = {}
for m in re.finditer(r'^    (bb\d+): \{\n(.*?)^    \}', src, re.S | re.M):
    lines = [l.strip() for l in m.group(2).strip().split('\n') if l.strip()]
    blocks[m.group(1)] = lines
ltypes = dict(re.findall(r'let (?:mut )?(_\d+): ([^;]+);', src))
ltypes['_1'] = '&mut Bucket'; ltypes['_2'] = '&EngineConfig'

def split_args(s):
    out, depth, cur = [], 0, ''
    for ch in s:
        if ch in '([<': depth += 1
        if ch in ')]>': depth -= 1
        if ch == ',' and depth == 0: out.append(cur.strip()); cur = ''
        else: cur += ch
    if cur.strip(): out.append(cur.strip())
    return out

# ---- values ------------------------------------------------------------
class Ref:
    def __init__(s, root, path): s.root, s.path = root, path
def parse_place(p):
    """returns (root_local, [proj...]) where proj is 'deref' or int field"""
    p = p.strip()
    m = re.fullmatch(r'_\d+', p)
    if m: return (p, [])
    m = re.fullmatch(r'\(\*(.+)\)', p)
    if m:
        r, pr = parse_place(m.group(1)); return (r, pr + ['deref'])
    m = re.fullmatch(r'\((.+)\.(\d+): [^()]*(?:\([^()]*\))?[^()]*\)', p)
    if m:
        r, pr = parse_place(m.group(1)); return (r, pr + [int(m.group(2))])
    raise Exception('place? ' + p)

class State:
    def __init__(s): s.loc = {}; s.heap = {}; s.pc = []; s.obl = []
    def clone(s):
        import copy
        n = State(); n.loc = copy.deepcopy_dict(s.loc) if False else {k: cp(v) for k, v in s.loc.items()}
        n.heap = {k: cp(v) for k, v in s.heap.items()}; n.pc = list(s.pc); n.obl = list(s.obl); return n
def cp(v):
    if isinstance(v, list): return [cp(x) for x in v]
    return v

def resolve(st, place):
    root, proj = parse_place(place)
    cont, key = st.loc, root
    for pr in proj:
        cur = cont[key]
        if pr == 'deref':
            assert isinstance(cur, Ref), (place, cur)
            cont, key = (st.heap if cur.root.startswith('h') else st.loc), cur.root
            for q in cur.path: cont, key = cont[key], q
        else:
            cont, key = cur, pr
    return cont, key
def read(st, place): c, k = resolve(st, place); return c[k]
def write(st, place, v): c, k = resolve(st, place); c[k] = v
def operand(st, o):
    o = o.strip()
    if o.startswith('copy ') or o.startswith('move '): return read(st, o[5:])
    m = re.fullmatch(r'const (\d+)_u32', o)
    if m: return BitVecVal(int(m.group(1)), 32)
    m = re.fullmatch(r'const (\d+)f64', o)
    if m: return FPVal(float(m.group(1)), F64)
    if o == 'const true': return BoolVal(True)
    if o == 'const false': return BoolVal(False)
    raise Exception('operand? ' + o)

clock = []
def summary(st, callee, args):
    if callee == 'std::time::Instant::now':
        t = BitVec('now%d' % len(clock), 64)
        if clock: st.pc.append(UGE(t, clock[-1]))
        st.pc.append(ULT(t, BitVecVal(1 << 50, 64))); clock.append(t); return t
    if callee == 'std::time::Instant::duration_since':      # saturating
        a = read_ref(st, args[0]); b = args[1]
        return If(UGE(a, b), a - b, BitVecVal(0, 64))
    if callee == '<Duration as PartialOrd>::gt':
        return UGT(read_ref(st, args[0]), read_ref(st, args[1]))
    if callee == 'Duration::as_secs_f64':
        d = read_ref(st, args[0]); ns = BitVecVal(10**9, 64)
        return fpAdd(RM, fpToFPUnsigned(RM, UDiv(d, ns), F64), fpDiv(RM, fpToFPUnsigned(RM, URem(d, ns), F64), FPVal(1e9, F64)))
    if callee == 'core::f64::<impl f64>::min':
        a, b = args
        return If(fpIsNaN(a), b, If(fpIsNaN(b), a, If(fpLT(a, b), a, b)))
    raise Exception('UNSUPPORTED callee ' + callee)
def read_ref(st, r):
    cont, key = (st.heap if r.root.startswith('h') else st.loc), r.root
    for q in r.path: cont, key = cont[key], q
    return cont[key]

BIN = {'Div': lambda a, b: fpDiv(RM, a, b), 'Mul': lambda a, b: fpMul(RM, a, b), 'Add': lambda a, b: fpAdd(RM, a, b),
       'Sub': lambda a, b: fpSub(RM, a, b), 'Ge': lambda a, b: fpGEQ(a, b) if is_fp(a) else UGE(a, b),
       'Lt': lambda a, b: fpLT(a, b) if is_fp(a) else ULT(a, b)}

def rvalue(st, rv):
    rv = rv.strip()
    m = re.fullmatch(r'&(?:mut )?(.+)', rv)
    if m:
        root, proj = parse_place(m.group(1))
        # normalise through derefs
        if 'deref' in proj:
            i = len(proj) - 1 - proj[::-1].index('deref')
            base = read(st, rebuild(root, proj[:i]))
            return Ref(base.root, base.path + proj[i + 1:])
        return Ref(root, proj)
    m = re.fullmatch(r'(\w+)\((.+)\)', rv)
    if m and m.group(1) in BIN:
        a, b = [operand(st, x) for x in split_args(m.group(2))]; return BIN[m.group(1)](a, b)
    if m and m.group(1) == 'AddWithOverflow':
        a, b = [operand(st, x) for x in split_args(m.group(2))]
        return [a + b, Not(BVAddNoOverflow(a, b, False))]
    m = re.fullmatch(r'(.+) as f64 \(IntToFloat\)', rv)
    if m: return fpToFPUnsigned(RM, operand(st, m.group(1)), F64)
    return operand(st, rv)
def rebuild(root, proj):
    p = root
    for q in proj: p = '(*%s)' % p if q == 'deref' else '(%s.%d: T)' % (p, q)
    return p

results = []
def run(st, bb, depth=0):
    for line in blocks[bb]:
        line = line.rstrip(';')
        if line == 'return': results.append(st); return
        m = re.fullmatch(r'goto -> (bb\d+)', line)
        if m: return run(st, m.group(1), depth + 1)
        m = re.fullmatch(r'switchInt\((.+)\) -> \[0: (bb\d+), otherwise: (bb\d+)\]', line)
        if m:
            c = operand(st, m.group(1))
            for cond, tgt in ((Not(c), m.group(2)), (c, m.group(3))):
                s2 = st.clone(); s2.pc.append(cond)
                run(s2, tgt, depth + 1)
            return
        m = re.fullmatch(r'assert\(!(.+?), ".*\) -> \[success: (bb\d+), unwind continue\]', line)
        if m:
            c = operand(st, m.group(1)); st.obl.append(('overflow@' + bb, list(st.pc), Not(c))); st.pc.append(Not(c))
            return run(st, m.group(2), depth + 1)
        m = re.fullmatch(r'(.+?) = ([\w:<> ]+?(?:::<impl f64>)?(?:::\w+)*)\((.*)\) -> \[return: (bb\d+), unwind.*\]', line)
        if m and not re.match(r'(Div|Mul|Add|Sub|Ge|Lt|AddWithOverflow)$', m.group(2)):
            args = [operand(st, a) for a in split_args(m.group(3))]
            write(st, m.group(1), summary(st, m.group(2).strip(), args)); return run(st, m.group(4), depth + 1)
        m = re.fullmatch(r'(.+?) = (.+)', line)
        if m: write(st, m.group(1), rvalue(st, m.group(2))); continue
        raise Exception('stmt? ' + line)

# ---- harness: arbitrary valid pre-state -----------------------------------
t0 = time.time()
st = State()
tokens = FP('tokens', F64); lu = BitVec('last_update', 64); riw = BitVec('riw', 32); ws = BitVec('window_start', 64)
win = BitVecVal(3600 * 10**9, 64); maxr = BitVec('max', 32); burst = BitVec('burst', 32)
st.heap['hB'] = [tokens, lu, riw, ws]
st.heap['hC'] = [win, maxr, burst]
for l in ltypes: st.loc[l] = None
st.loc['_1'] = Ref('hB', []); st.loc['_2'] = Ref('hC', [])
burstf = fpToFPUnsigned(RM, burst, F64)
st.pc += [UGE(maxr, 1), ULE(maxr, 1000), UGE(burst, 1), ULE(burst, 1000), fpGEQ(tokens, FPVal(0.0, F64)), fpLEQ(tokens, burstf),
          ULE(riw, maxr), ULT(lu, 1 << 50), ULT(ws, 1 << 50)]
# clock contract: now >= last_update, window_start (they were earlier readings of the same clock)
run_pre = list(st.pc)
run(st, 'bb0')
print('paths:', len(results))
bad = 0
for i, r in enumerate(results):
    ret = r.loc['_0']; t2, _, riw2, _ = r.heap['hB']
    post = And(fpGEQ(t2, FPVal(0.0, F64)), fpLEQ(t2, burstf), ULE(riw2, maxr), Implies(ret, UGE(riw2, 1)))
    s = Solver(); s.add(*r.pc); s.add(Not(post)); res = s.check()
    print(' path', i, 'ret=', simplify(ret), 'post:', 'HOLDS' if res == unsat else res)
    bad += res != unsat
    for name, pc, ob in r.obl:
        s = Solver(); s.add(*pc); s.add(Not(ob)); print('   obligation', name, 'HOLDS' if s.check() == unsat else 'VIOLATED?')
print('wall %.1fs' % (time.time() - t0), 'violations', bad)
