use super::*;

#[kani::proof]
#[kani::unwind(20)]
fn ipdiv_new_only() {
    let e = IPDiversityEnforcer::new(IPDiversityConfig::default());
    std::mem::forget(e);
}

#[kani::proof]
#[kani::unwind(20)]
fn ipdiv_v6_two_adds() {
    let mut cfg = IPDiversityConfig::default();
    let c64: usize = kani::any();
    kani::assume(c64 >= 1 && c64 <= 3);
    cfg.max_nodes_per_64 = c64;
    let mut e = IPDiversityEnforcer::new(cfg);
    let hosting: bool = kani::any();
    let a = IPAnalysis {
        subnet_64: Ipv6Addr::new(0x2001, 0xdb8, 0, 1, 0, 0, 0, 0),
        subnet_48: Ipv6Addr::new(0x2001, 0xdb8, 0, 0, 0, 0, 0, 0),
        subnet_32: Ipv6Addr::new(0x2001, 0xdb8, 0, 0, 0, 0, 0, 0),
        asn: None, country: None, is_hosting_provider: hosting, is_vpn_provider: false, reputation_score: 0.5,
    };
    let mut admitted = 0usize;
    let mut i = 0;
    while i < 4 {
        if e.add_node(&a).is_ok() { admitted += 1; }
        i += 1;
    }
    let cap = if hosting { std::cmp::max(1, c64 / 2) } else { c64 };
    assert!(admitted == std::cmp::min(cap, 3).min(4) || admitted == cap.min(3));
    std::mem::forget(e);
}

#[kani::proof]
#[kani::unwind(130)]
fn prefix_generic() {
    let o: [u8; 16] = kani::any();
    let p: u8 = kani::any();
    kani::assume(p <= 128);
    let s = IPDiversityEnforcer::extract_subnet_prefix(Ipv6Addr::from(o), p).octets();
    let mut i = 0usize;
    while i < 128 {
        let bit_in = (o[i / 8] >> (7 - (i % 8))) & 1;
        let bit_out = (s[i / 8] >> (7 - (i % 8))) & 1;
        if i < p as usize { assert!(bit_in == bit_out); } else { assert!(bit_out == 0); }
        i += 1;
    }
}
