use super::*;

fn stub_snow() -> std::time::SystemTime {
    std::time::UNIX_EPOCH + std::time::Duration::from_secs(unsafe { NOW })
}
static mut NOW: u64 = 0;

#[kani::proof]
#[kani::unwind(14)]
#[kani::stub(std::time::SystemTime::now, stub_snow)]
fn parse_raw_bytes() {
    let now: u64 = kani::any();
    kani::assume(now < (1u64 << 40));
    unsafe { NOW = now; }
    let buf: [u8; 12] = kani::any();
    let len: usize = kani::any();
    kani::assume(len <= 12);
    let r = parse_protocol_message(&buf[..len], "conn");
    if let Some(P2PEvent::Message { source, .. }) = &r {
        assert!(source.len() == 4);
    }
    std::mem::forget(r);
}

#[kani::proof]
#[kani::unwind(4)]
fn ice_tracing_only() {
    tracing::warn!("x {}", 1);
}

#[kani::proof]
#[kani::unwind(14)]
fn ice_postcard_only() {
    let buf: [u8; 8] = kani::any();
    let r: Option<WireMessage> = postcard::from_bytes(&buf).ok();
    std::mem::forget(r);
}

fn stub_register(_cs: &'static tracing::callsite::DefaultCallsite) -> tracing::subscriber::Interest { tracing::subscriber::Interest::never() }
fn stub_is_enabled(_m: &'static tracing::Metadata<'static>, _i: tracing::subscriber::Interest) -> bool { false }

#[kani::proof]
#[kani::unwind(4)]
#[kani::stub(tracing::callsite::DefaultCallsite::register, stub_register)]
#[kani::stub(tracing::__macro_support::__is_enabled, stub_is_enabled)]
fn ice_tracing_stubbed() {
    tracing::warn!("x {}", 1);
}
