use super::*;

static mut NOW_NS: u64 = 0;
fn stub_now() -> Instant {
    let base: Instant = unsafe { std::mem::zeroed() };
    let ns = unsafe { NOW_NS };
    base + Duration::new(ns / 1_000_000_000, (ns % 1_000_000_000) as u32)
}

#[kani::proof]
#[kani::stub(std::time::Instant::now, stub_now)]
fn bucket_step() {
    let max: u32 = kani::any();
    let burst: u32 = kani::any();
    kani::assume(max >= 1 && max <= 1000 && burst >= 1 && burst <= 1000);
    let cfg = EngineConfig { window: Duration::from_secs(3600), max_requests: max, burst_size: burst };
    let t0: u64 = kani::any();
    kani::assume(t0 < (1u64 << 50));
    unsafe { NOW_NS = t0; }
    let mut b = Bucket::new(burst as f64);
    let tokens: f64 = kani::any();
    kani::assume(tokens >= 0.0 && tokens <= burst as f64);
    b.tokens = tokens;
    let riw: u32 = kani::any();
    kani::assume(riw <= max);
    b.requests_in_window = riw;
    let dt: u64 = kani::any();
    kani::assume(dt < (1u64 << 45));
    unsafe { NOW_NS = t0 + dt; }
    let ok = b.try_consume(&cfg);
    assert!(b.tokens >= 0.0 && b.tokens <= burst as f64);
    assert!(b.requests_in_window <= max);
    if ok { assert!(b.requests_in_window >= 1); }
}

#[kani::proof]
#[kani::stub(std::time::Instant::now, stub_now)]
fn bucket_step_conc() {
    let cfg = EngineConfig { window: Duration::from_secs(3600), max_requests: 5, burst_size: 5 };
    unsafe { NOW_NS = 0; }
    let mut b = Bucket::new(5.0);
    let tokens: f64 = kani::any();
    kani::assume(tokens >= 0.0 && tokens <= 5.0);
    b.tokens = tokens;
    let riw: u32 = kani::any();
    kani::assume(riw <= 5);
    b.requests_in_window = riw;
    let dt_ms: u32 = kani::any();
    unsafe { NOW_NS = (dt_ms as u64) * 1_000_000; }
    let ok = b.try_consume(&cfg);
    assert!(b.tokens >= 0.0 && b.tokens <= 5.0);
    assert!(b.requests_in_window <= 5);
    if ok { assert!(b.requests_in_window >= 1); }
}

#[kani::proof]
#[kani::unwind(18)]
fn prefixes_v6() {
    let o: [u8; 16] = kani::any();
    let a = Ipv6Addr::from(o);
    let s64 = extract_ipv6_subnet_64(&a).octets();
    let s48 = extract_ipv6_subnet_48(&a).octets();
    let mut i = 0;
    while i < 16 {
        assert!(s64[i] == if i < 8 { o[i] } else { 0 });
        assert!(s48[i] == if i < 6 { o[i] } else { 0 });
        i += 1;
    }
    let v: [u8; 4] = kani::any();
    let s24 = extract_ipv4_subnet_24(&Ipv4Addr::from(v)).octets();
    assert!(s24[0] == v[0] && s24[1] == v[1] && s24[2] == v[2] && s24[3] == 0);
}
