"""C16, selector half: TrustAwarePeerSelector::{select_peers, select_storage_peers} (engine M)."""
import os
import re
import sys

import z3

sys.path.insert(0, os.path.join(os.path.dirname(os.path.abspath(__file__)), "..", "lib", "mirsym"))
import harness  # noqa: E402
from engine import State  # noqa: E402
from harness import Src, fpv  # noqa: E402
from summaries import mk_time  # noqa: E402
from values import VArr, VOpaque, VSeq, VStr, VStruct, bv, key_bv  # noqa: E402

F64 = z3.Float64()
BOUNDS = ["TrustAwarePeerSelector safety goals (membership, distinctness, count, trust floor): candidate lists of exactly m distinct nodes, m in {1,2} (quick) / {1,2,3} (thorough), 256-bit ids and key fully symbolic, "
          "count 0..m+1, trust provider = arbitrary function id -> f64 (any bit pattern incl. NaN), trust_weight and threshold any f64 in [0,1]",
          "ranking goals, regime 'low_bytes': ids agreeing in their 16 high-order bytes (all 2^128 common prefixes), low-order 16 bytes and key fully symbolic, one common trust value (any f64 in [0,1])",
          "ranking goals, regime 'grid' (thorough; quick uses the sub-grid distances {0,1,2^53,2^53+1,2^64,1e30,2^127,2^128-1} x trust {0,0.3,0.9,1} x weight {0.3,0.5}): high-order XOR distance from 16 boundary values (0,1,255,2^8,2^53-1,2^53,2^53+1,2^64,2^64+1,2^100,1e30,2e30,2^120,2^127-1,2^127,2^128-1), "
          "trust from {0,0.1,0.2,0.29,0.3,0.5,0.9,1}, trust_weight from {0,0.3,0.5,1}, low-order 16 bytes and key fully symbolic"]
OUTSIDE = ["candidate lists longer than the bound", "ranking for high-order distances / trust values / weights off the grids when the high-order bytes differ (fully symbolic u128->f64 score comparison exceeds the solver cap)", "trust_weight outside [0,1]", "the distance-only fallback in DhtCoreEngine::select_query_peers (async)"]
ASSUMPTIONS = ["candidate ids pairwise distinct (the routing table lists each peer once: C02)", "TrustProvider::get_trust is a pure function of the node id during one selection"]


def mk_struct(eng, tyname, vals):
    adt = eng.struct_adt(tyname)
    names = [f for f, _ in adt.fields]
    if set(names) != set(vals):
        raise harness.SymError(f"struct {tyname} fields changed: {names} vs {sorted(vals)}")
    return VStruct([vals[f] for f in names], adt.name)


def node_info(eng, src, name, tag, share_high=None):
    idb = src.bytes(name + ".id", 32)
    if share_high is not None and not src.concrete:
        # 'low_bytes' regime: the 16 high-order bytes are literally the first candidate's (shared terms); own symbols stay pinned for the driver
        for k in range(16):
            src.hyps.append(idb.elems[k] == share_high.elems[k])
        idb = VArr(list(share_high.elems[:16]) + list(idb.elems[16:]))
    cap = mk_struct(eng, "core_engine::NodeCapacity", {"storage_available": bv(tag, 64), "bandwidth_available": bv(0, 64), "reliability_score": fpv(1.0)})
    ni = mk_struct(eng, "core_engine::NodeInfo", {"id": VStruct([VStruct([idb], "DhtKey")], "NodeId"), "address": VStr(bv(1000 + tag, 64)),
                                     "last_seen": mk_time(bv(0, 64), bv(0, 32), "SystemTime"), "capacity": cap})
    return ni, key_bv(idb)


def in_unit(x):
    return z3.And(z3.fpGEQ(x, fpv(0.0)), z3.fpLEQ(x, fpv(1.0)))


def install_trust_provider(eng, trust_arr):
    def handler(e, st, args, dty, callee, m):
        uid = e.load(st, args[1])
        return z3.Select(trust_arr, key_bv(uid))

    eng.summaries.insert(0, (re.compile(r"^<T as (adaptive::)?TrustProvider>::get_trust$"), handler,
                             "TrustProvider::get_trust -> arbitrary (uninterpreted) function of the 32-byte node id"))


GRID_D_QUICK = [0, 1, 1 << 53, (1 << 53) + 1, 1 << 64, 10**30, 1 << 127, (1 << 128) - 1]
GRID_T_QUICK = [0.0, 0.3, 0.9, 1.0]
GRID_W_QUICK = [0.3, 0.5]
GRID_D = [0, 1, 255, 1 << 8, (1 << 53) - 1, 1 << 53, (1 << 53) + 1, 1 << 64, (1 << 64) + 1, 1 << 100, 10**30, 2 * 10**30, 1 << 120, (1 << 127) - 1, 1 << 127, (1 << 128) - 1]
GRID_T = [0.0, 0.1, 0.29, 0.3, 0.9, 1.0, 0.2, 0.5]
GRID_W = [0.0, 0.3, 0.5, 1.0]


def pick(sel, consts, mk):
    r = mk(consts[-1])
    for i in range(len(consts) - 2, -1, -1):
        r = z3.If(sel == i, mk(consts[i]), r)
    return r


def build(ck, storage, m, unit_trust, src, obs=None, regime="any"):
    eng = ck.engine(unwind=34) if obs is None else ck.meta_engine()
    keyb = src.bytes("key", 32)
    kbv = key_bv(keyb)
    nodes, ids = [], []
    first_bytes = None
    for i in range(m):
        ni, idbv = node_info(eng, src, f"c{i}", i, share_high=(first_bytes if regime == "low_bytes" and i > 0 else None))
        if i == 0:
            first_bytes = ni.f[0].f[0].f[0]
        nodes.append(ni)
        ids.append(idbv)
    count = src.bv("count", 64)
    w = src.f64("cfg.trust_weight")
    thr = src.f64("cfg.min_trust_threshold")
    excl = src.bool("cfg.exclude_untrusted")
    trust_in = [src.f64(f"c{i}.trust") for i in range(m)]
    if regime == "low_bytes" and not src.concrete:
        # ranking at EQUAL trust is the claim here: all candidates carry the same trust value (bit-identical)
        for i in range(1, m):
            src.hyps.append(z3.fpToIEEEBV(trust_in[i]) == z3.fpToIEEEBV(trust_in[0]) if False else trust_in[i] == trust_in[0])
        trust_in = [trust_in[0]] * m
    hyps = list(src.hyps) + [z3.ULE(count, bv(m + 1, 64)), in_unit(w), in_unit(thr)]
    hyps += [ids[i] != ids[j] for i in range(m) for j in range(i)]
    if unit_trust:
        hyps += [in_unit(t) for t in trust_in]
    top = lambda x: z3.Extract(255, 128, x)  # noqa: E731
    if regime == "low_bytes":
        pass  # candidates agree in the 16 high-order bytes and in trust by construction (shared terms), see node_info / trust_in above
    elif regime in ("grid", "grid_small"):
        GD, GT, GW = (GRID_D, GRID_T, GRID_W) if regime == "grid" else (GRID_D_QUICK, GRID_T_QUICK, GRID_W_QUICK)
        # high-order distance, trust and weight range over representative grids (boundary values of the u128 -> f64 score); low-order bytes stay symbolic
        for i in range(m):
            dsel = src.bv(f"c{i}.dsel", 4)
            tsel = src.bv(f"c{i}.tsel", 3)
            hyps.append(top(kbv ^ ids[i]) == pick(dsel, GD, lambda v: bv(v, 128)))
            hyps.append(trust_in[i] == pick(tsel, GT, fpv))
        wsel = src.bv("cfg.wsel", 2)
        hyps.append(w == pick(wsel, GW, fpv))
    if obs is None:
        st = State()
        T = z3.Const("trust_fn", z3.ArraySort(z3.BitVecSort(256), F64))
        hyps += [z3.Select(T, ids[i]) == trust_in[i] for i in range(m)]
        install_trust_provider(eng, T)
        cfg = mk_struct(eng, "TrustSelectionConfig", {"trust_weight": w, "min_trust_threshold": thr, "exclude_untrusted": excl})
        other_cfg = mk_struct(eng, "TrustSelectionConfig", {"trust_weight": fpv(0.3), "min_trust_threshold": fpv(0.1), "exclude_untrusted": z3.BoolVal(False)})
        provider = eng.alloc(st, VOpaque("trust provider"))
        selv = mk_struct(eng, "TrustAwarePeerSelector", {"trust_provider": provider, "config": other_cfg if storage else cfg, "storage_config": cfg if storage else other_cfg})
        rs = eng.alloc(st, selv)
        rk = eng.alloc(st, VStruct([keyb], "DhtKey"))
        rc = eng.alloc(st, VSeq(nodes, bv(m, 64)))
        fn = ck.fn(r"trust_peer_selector::<impl at [^>]*>::" + ("select_storage_peers" if storage else "select_peers") + "$")
        st2, res = eng.call(fn, [rs, rk, rc, count], st)
        pc = st2.pc
        rl = res.len
        rids = [key_bv(e.f[0]) for e in res.elems]
        rtags = [e.f[eng.struct_adt("core_engine::NodeInfo").field_index("capacity")].f[0] for e in res.elems]
    else:
        pc = z3.BoolVal(True)
        rl = bv(len(obs["result"]), 64)
        rids = [bv(int.from_bytes(bytes(r["id"]), "big"), 256) for r in obs["result"]]
        rtags = [bv(int(r["tag"]), 64) for r in obs["result"]]
    P = len(rids)
    inres = [z3.ULT(bv(p, 64), rl) for p in range(P)]

    def of_cand(p, f):
        """value f(i) of the candidate that result slot p holds"""
        r = f(m - 1)
        for i in range(m - 2, -1, -1):
            r = z3.If(rids[p] == ids[i], f(i), r)
        return r

    dist = [kbv ^ ids[i] for i in range(m)]
    rdist = [kbv ^ rids[p] for p in range(P)]
    rtrust = [of_cand(p, lambda i: trust_in[i]) for p in range(P)]
    G = {}
    G["result_is_a_list_of_distinct_candidates"] = z3.And(
        *[z3.Implies(inres[p], z3.Or(*[z3.And(rids[p] == ids[i], rtags[p] == bv(i, 64)) for i in range(m)])) for p in range(P)],
        *[z3.Implies(z3.And(inres[p], inres[q]), rids[p] != rids[q]) for p in range(P) for q in range(p)])
    G["at_most_the_requested_number"] = z3.And(z3.ULE(rl, count), z3.ULE(rl, bv(m, 64)))
    G["no_peer_below_the_trust_floor_when_untrusted_are_excluded"] = z3.Implies(excl, z3.And(*[z3.Implies(inres[p], z3.Not(z3.fpLT(rtrust[p], thr))) for p in range(P)]))
    # a trust value that is not a number establishes nothing: such a peer is never chosen (its score is NaN and NaN scores are dropped)
    G["a_peer_whose_trust_is_not_a_number_is_never_selected"] = z3.And(*[z3.Implies(inres[p], z3.Not(z3.fpIsNaN(rtrust[p]))) for p in range(P)]) if P else z3.BoolVal(True)
    if unit_trust:
        eligible = [z3.Not(z3.And(excl, z3.fpLT(trust_in[i], thr))) for i in range(m)]
        ne = bv(0, 64)
        for e in eligible:
            ne = ne + z3.If(e, bv(1, 64), bv(0, 64))
        G["selects_min_of_count_and_eligible"] = rl == z3.If(z3.ULE(count, ne), count, ne)
        G["closer_peer_of_equal_trust_is_never_ranked_after_a_farther_one"] = z3.And(
            *[z3.Implies(z3.And(inres[p], inres[q], z3.fpEQ(rtrust[p], rtrust[q])), z3.Not(z3.ULT(rdist[q], rdist[p]))) for q in range(P) for p in range(q)])
        selected = [z3.Or(*[z3.And(inres[p], rids[p] == ids[i]) for p in range(P)]) if P else z3.BoolVal(False) for i in range(m)]
        G["unselected_closer_peer_of_equal_trust_never_loses_to_a_selected_farther_one"] = z3.And(
            *[z3.Implies(z3.And(eligible[i], z3.Not(selected[i]), inres[p], z3.fpEQ(trust_in[i], rtrust[p])), z3.Not(z3.ULT(dist[i], rdist[p])))
              for i in range(m) for p in range(P)])
    return {"eng": eng, "hyps": hyps, "goals": {g: z3.Implies(pc, f) for g, f in G.items()}, "reach": {"reach_nonempty": z3.And(pc, rl != 0)}}


def build_new(ck, src, obs=None):
    """TrustAwarePeerSelector::new gives storage operations the storage floor: untrusted peers excluded below trust 0.2"""
    eng = ck.engine() if obs is None else ck.meta_engine()
    w = src.f64("cfg.trust_weight")
    thr = src.f64("cfg.min_trust_threshold")
    excl = src.bool("cfg.exclude_untrusted")
    hyps = list(src.hyps) + [in_unit(w), in_unit(thr)]
    if obs is None:
        st = State()
        cfg = mk_struct(eng, "TrustSelectionConfig", {"trust_weight": w, "min_trust_threshold": thr, "exclude_untrusted": excl})
        provider = eng.alloc(st, VOpaque("trust provider"))
        st1, selv = eng.call(ck.fn_in("TrustAwarePeerSelector", "new"), [provider, cfg], st)
        pc = st1.pc
        adt = eng.struct_adt("TrustAwarePeerSelector")
        q = selv.f[adt.field_index("config")]
        sc = selv.f[adt.field_index("storage_config")]
        cadt = eng.struct_adt("TrustSelectionConfig")
        g = lambda c, n: c.f[cadt.field_index(n)]  # noqa: E731
        vals = {"q_w": g(q, "trust_weight"), "q_thr": g(q, "min_trust_threshold"), "q_excl": g(q, "exclude_untrusted"),
                "s_thr": g(sc, "min_trust_threshold"), "s_excl": g(sc, "exclude_untrusted"), "s_w": g(sc, "trust_weight")}
    else:
        pc = z3.BoolVal(True)
        f = lambda b: z3.simplify(z3.fpBVToFP(bv(int(b), 64), F64))  # noqa: E731
        vals = {"q_w": f(obs["q_w"]), "q_thr": f(obs["q_thr"]), "q_excl": z3.BoolVal(bool(obs["q_excl"])), "s_thr": f(obs["s_thr"]),
                "s_excl": z3.BoolVal(bool(obs["s_excl"])), "s_w": f(obs["s_w"])}
    same = lambda a, b: z3.Or(z3.fpEQ(a, b), z3.And(z3.fpIsNaN(a), z3.fpIsNaN(b)))  # noqa: E731
    G = {"storage_selection_excludes_peers_below_the_storage_floor_0_2": z3.And(vals["s_excl"], z3.fpEQ(vals["s_thr"], fpv(0.2)), in_unit(vals["s_w"])),
         "query_configuration_is_the_one_given": z3.And(same(vals["q_w"], w), same(vals["q_thr"], thr), vals["q_excl"] == excl)}
    return {"eng": eng, "hyps": hyps, "goals": {g_: z3.Implies(pc, f_) for g_, f_ in G.items()}, "reach": {"reach_end": pc}}


def cases(tier):
    """(storage?, m, unit_trust, regime)"""
    out = [(True, 1, False, "any"), (True, 2, False, "any"), (True, 2, True, "low_bytes"), (False, 2, True, "low_bytes"), (True, 2, True, "grid_small")]
    if tier != "quick":
        out += [(True, 2, True, "grid"), (True, 3, False, "any"), (True, 3, True, "low_bytes"), (False, 3, True, "low_bytes"), (False, 2, True, "grid")]
    return out


def register_all(ck, tier):
    ck.guarded("selector/new", lambda: register_new(ck))
    for (storage, m, unit, regime) in cases(tier):
        params = {"storage": storage, "m": m, "unit_trust": unit, "regime": regime}
        tag = f"selector/{'storage' if storage else 'query'}[m={m},{'trust in [0,1]' if unit else 'any trust'},{regime}]"

        def reg(storage=storage, m=m, unit=unit, params=params, tag=tag, regime=regime):
            src = Src()
            R = build(ck, storage, m, unit, src, None, regime)
            rp = harness.make_replayer(ck, "trust_peer_selector", "select", lambda s, obs: build(ck, storage, m, unit, s, obs, regime), params)
            ck.register_src("select", params, src)
            for g, f in R["goals"].items():
                ck.prove(f"{tag}/{g}", R["eng"], R["hyps"], f, on_sat=rp, meta={"goal": g, "fp_lemmas": True})
            ck.reach(f"{tag}/reach_nonempty", R["eng"], R["hyps"], R["reach"]["reach_nonempty"])
            ck.side(f"{tag}/side", R["eng"], R["hyps"], on_sat=rp)
            ck.out.samples.append({"obligation": tag, "goals": list(R["goals"])})

        ck.guarded(tag, reg)


def register_new(ck):
    src = Src()
    R = build_new(ck, src)
    rp = harness.make_replayer(ck, "trust_peer_selector", "selector_new", lambda s, obs: build_new(ck, s, obs), {})
    ck.register_src("selector_new", {}, src)
    for g, f in R["goals"].items():
        ck.prove(f"selector/new/{g}", R["eng"], R["hyps"], f, on_sat=rp, meta={"goal": g})
    ck.reach("selector/new/reach_end", R["eng"], R["hyps"], R["reach"]["reach_end"])
    ck.side("selector/new/side", R["eng"], R["hyps"], on_sat=rp)


def rebuild(ck, driver, params):
    if driver == "selector_new":
        return lambda s, obs: build_new(ck, s, obs)
    return lambda s, obs: build(ck, params["storage"], params["m"], params["unit_trust"], s, obs, params.get("regime", "any"))
