"""C12, composition half: the async entry points MonotonicCounterSystem::validate_sequence and ::batch_update executed as state
machines by engine M (uncontended locks, nested async fns polled in place) over an ARBITRARY counter map."""
import os
import sys

import z3

sys.path.insert(0, os.path.join(os.path.dirname(os.path.abspath(__file__)), "..", "lib", "mirsym"))
import harness  # noqa: E402
from engine import State  # noqa: E402
from harness import Src, run_async  # noqa: E402
from summaries import mk_time  # noqa: E402
from values import VArr, VEnum, VOpaque, VSeq, VStruct, bv, flatten, key_bv, vmap  # noqa: E402

H = 2  # modelled history capacity of a stored counter
WINDOW_BACK, WINDOW_FWD = 3600, 60
STATS = ["total_processed", "total_replays", "total_gaps", "peers_tracked", "persistence_ops", "avg_validation_time_us", "cache_hits", "cache_misses"]
RESULTS = ["Valid", "Replay", "TooOld", "Gap", "FromFuture"]


def mk_struct(eng, tyname, vals, fill=None):
    adt = eng.struct_adt(tyname)
    out = []
    for f, _ in adt.fields:
        if f in vals:
            out.append(vals[f])
        elif fill is not None:
            out.append(fill(f))
        else:
            raise harness.SymError(f"missing field {f} of {tyname}")
    if set(vals) - {f for f, _ in adt.fields}:
        raise harness.SymError(f"{tyname} lost field(s) {set(vals) - {f for f, _ in adt.fields}}")
    return VStruct(out, adt.name)


def counter_template(eng):
    entry = mk_struct(eng, "SequenceEntry", {"sequence": bv(0, 64), "timestamp": bv(0, 64), "message_hash": VArr([bv(0, 8)] * 32)})
    return mk_struct(eng, "PeerCounter", {"current_sequence": bv(0, 64), "last_valid_sequence": bv(0, 64), "sequence_history": VSeq([entry] * H, bv(0, 64)),
                                          "last_updated": bv(0, 64), "replay_attempts": bv(0, 64), "sequence_gaps": bv(0, 64)})


def cfield(eng, c, name):
    return c.f[eng.struct_adt("PeerCounter").field_index(name)]


def user(src, name):
    b = src.bytes(name, 32)
    return VStruct([b], "UserId"), key_bv(b)


def sel(m, k):
    return vmap(m.val, lambda a: z3.Select(a, k))


def counter_inv(eng, m, k):
    """representation invariant of a stored counter (see kani/monotonic_counter.rs): history entries lie in 1..=L; spare history capacity"""
    c = sel(m, k)
    L = cfield(eng, c, "last_valid_sequence")
    hist = cfield(eng, c, "sequence_history")
    sf = eng.struct_adt("SequenceEntry").field_index("sequence")
    ent = [z3.Implies(z3.ULT(bv(i, 64), hist.len), z3.And(z3.UGE(e.f[sf], 1), z3.ULE(e.f[sf], L))) for i, e in enumerate(hist.elems)]
    return z3.Implies(z3.Select(m.present, k), z3.And(z3.ULT(L, bv((1 << 64) - 2, 64)), z3.ULT(hist.len, bv(H, 64)), *ent))


def system_value(eng, st, m, stats_vals, fresh_start=False):
    # statistics fields this check does not know (added by a later change) are arbitrary 64-bit values -- or, for a history that starts at a freshly constructed
    # system, their Default (zero), which is what the constructor and the native driver give them
    stats = mk_struct(eng, "CounterStats", {n: v for n, v in zip(STATS, stats_vals)}, fill=(lambda f: bv(0, 64)) if fresh_start else (lambda f: eng.fresh_bv("stats." + f, 64)))
    counters_ref = eng.alloc(st, m)
    stats_ref = eng.alloc(st, stats)
    return mk_struct(eng, "MonotonicCounterSystem", {"counters": counters_ref, "storage_path": VOpaque("path"), "sync_interval": mk_time(bv(30, 64), bv(0, 32), "Duration"),
                                                     "sync_task": VEnum(eng.enum_info("Option"), bv(0, 8), {0: ()}), "stats": stats_ref}), counters_ref


def obs_counters(eng, obs, prefix, probes):
    """native observation -> concrete VMap of PeerCounters.  obs[prefix@label] = null | {current,last,updated,replay,gaps,history:[[seq,ts,[hash..]]..]}"""
    t = counter_template(eng)
    o2 = {}
    for label in probes:
        o = obs.get(f"{prefix}@{label}")
        if o is None:
            o2[f"{prefix}@{label}"] = None
            continue
        hist = list(o["history"])[:H]
        leaves = [o["current"], o["last"], len(o["history"])]
        for i in range(H):
            if i < len(hist):
                leaves += [hist[i][0], hist[i][1]] + list(hist[i][2])
            else:
                leaves += [0, 0] + [0] * 32
        leaves += [o["updated"], o["replay"], o["gaps"]]
        o2[f"{prefix}@{label}"] = leaves
    # leaf order must follow flatten(template): fields in declaration order; VSeq = len then elems
    order = [f for f, _ in eng.struct_adt("PeerCounter").fields]
    if order != ["current_sequence", "last_valid_sequence", "sequence_history", "last_updated", "replay_attempts", "sequence_gaps"]:
        raise harness.SymError("PeerCounter field order changed: " + str(order))
    return harness.obs_map(o2, prefix, 256, t, probes)


def window(ts, now):
    lo = z3.If(z3.ULT(now, bv(WINDOW_BACK, 64)), bv(0, 64), now - WINDOW_BACK)
    return z3.And(z3.UGE(ts, lo), z3.ULE(ts, now + WINDOW_FWD))


def build_validate(ck, src, obs=None):
    eng = ck.engine(unwind=40) if obs is None else ck.meta_engine()
    uval, ku = user(src, "u")
    oval, ko = user(src, "o")
    probes = {"cand": ku, "other": ko}
    m0 = src.map("M", 256, counter_template(eng), probes)
    seq = src.bv("seq", 64)
    hsh = src.bytes("hash", 32)
    stats_vals = [src.bv("stats." + n, 64) for n in STATS]
    hyps = list(src.hyps) + [ku != ko, counter_inv(eng, m0, ku), counter_inv(eng, m0, ko)] + [z3.ULT(s, bv(1 << 20, 64)) for s in stats_vals]
    info = eng.enum_info("SequenceValidationResult")
    if obs is None:
        st = State()
        sysv, cref = system_value(eng, st, m0, stats_vals)
        rsys = eng.alloc(st, sysv)
        ru = eng.alloc(st, uval)
        eng.clock_readings = []
        st2, out = run_async(eng, ck.fn_in("MonotonicCounterSystem", "validate_sequence"), [rsys, ru, seq, hsh], st)
        okk = out.idx == bv(0, 8)
        res = out.pay[0][0]
        ridx = res.idx
        m1 = eng.load(st2, cref)
        # the validation timestamp is the wall-clock reading taken at the start of the call
        sys_reads = [r for r in eng.clock_readings if r.ty == "SystemTime"]
        now = src.pin("now.s", sys_reads[0].f[0])
        hyps += [h for h in src.hyps if h not in hyps]
        for r in sys_reads[1:]:
            hyps.append(r.f[0] == sys_reads[0].f[0])  # all wall-clock readings of one call fall in the same second (replayable; a call takes microseconds)
        pc = st2.pc
    else:
        pc = z3.BoolVal(True)
        okk = z3.BoolVal(bool(obs["ok"]))
        ridx = bv(info.index(obs["result"]) if obs.get("result") else 0, 8)
        m1 = obs_counters(eng, obs, "post", probes)
        now = src.bv("now.s", 64)
    c0, c1 = sel(m0, ku), sel(m1, ku)
    L0 = z3.If(z3.Select(m0.present, ku), cfield(eng, c0, "last_valid_sequence"), bv(0, 64))
    valid = ridx == bv(info.index("Valid"), 8)
    G = {}
    G["accepted_iff_next_in_order_and_in_window"] = z3.And(okk, valid == z3.And(seq == L0 + 1, window(now, now)))
    G["accepted_submission_is_applied_to_the_addressed_counter"] = z3.Implies(valid, z3.And(
        z3.Select(m1.present, ku), cfield(eng, c1, "last_valid_sequence") == seq, cfield(eng, c1, "current_sequence") == seq))
    G["rejected_submission_changes_nothing_but_may_create_an_empty_counter"] = z3.Implies(z3.Not(valid), z3.And(
        z3.Select(m1.present, ku), cfield(eng, c1, "last_valid_sequence") == L0,
        z3.Implies(z3.Select(m0.present, ku), z3.And(*[x == y for x, y in zip(flatten(c0), flatten(c1))])),
        z3.Implies(z3.Not(z3.Select(m0.present, ku)), cfield(eng, c1, "sequence_history").len == 0)))
    o0, o1 = sel(m0, ko), sel(m1, ko)
    G["other_peers_are_unaffected"] = z3.And(z3.Select(m1.present, ko) == z3.Select(m0.present, ko),
                                             z3.Implies(z3.Select(m0.present, ko), z3.And(*[x == y for x, y in zip(flatten(o0), flatten(o1))])))
    return {"eng": eng, "hyps": hyps, "goals": {g: z3.Implies(pc, f) for g, f in G.items()}, "reach": {"reach_valid": z3.And(pc, valid), "reach_rejected": z3.And(pc, z3.Not(valid))}}


def build_batch(ck, same_user, src, obs=None):
    """batch_update with two requests (same peer or two different peers): each request is validated against the state left by the
    previous one and applied iff Valid -- so a duplicated (peer, number) inside one batch is accepted exactly once"""
    eng = ck.engine(unwind=40) if obs is None else ck.meta_engine()
    uval, ku = user(src, "u")
    oval, ko = user(src, "o")
    probes = {"cand": ku, "other": ko}
    m0 = src.map("M", 256, counter_template(eng), probes)
    req = [{"seq": src.bv(f"q{i}.seq", 64), "hash": src.bytes(f"q{i}.hash", 32), "ts": src.bv(f"q{i}.ts", 64)} for i in range(2)]
    users = [(uval, ku), (uval, ku) if same_user else (oval, ko)]
    stats_vals = [src.bv("stats." + n, 64) for n in STATS]
    hyps = list(src.hyps) + [ku != ko, counter_inv(eng, m0, ku), counter_inv(eng, m0, ko)] + [z3.ULT(s, bv(1 << 20, 64)) for s in stats_vals]
    # room for two accepted entries in the modelled history
    for k in (ku, ko):
        hyps.append(z3.Implies(z3.Select(m0.present, k), cfield(eng, sel(m0, k), "sequence_history").len == 0))
    info = eng.enum_info("SequenceValidationResult")
    if obs is None:
        st = State()
        sysv, cref = system_value(eng, st, m0, stats_vals)
        rsys = eng.alloc(st, sysv)
        reqs = VSeq([mk_struct(eng, "BatchUpdateRequest", {"user_id": users[i][0], "sequence": req[i]["seq"], "message_hash": req[i]["hash"], "timestamp": req[i]["ts"]}) for i in range(2)], bv(2, 64))
        eng.clock_readings = []
        st2, out = run_async(eng, ck.fn_in("MonotonicCounterSystem", "batch_update"), [rsys, reqs], st)
        okk = out.idx == bv(0, 8)
        res = out.pay[0][0]
        af = eng.struct_adt("BatchUpdateResult").field_index("applied")
        rf = eng.struct_adt("BatchUpdateResult").field_index("result")
        applied = [res.elems[i].f[af] for i in range(2)]
        valid = [res.elems[i].f[rf].idx == bv(info.index("Valid"), 8) for i in range(2)]
        nres = res.len
        m1 = eng.load(st2, cref)
        sys_reads = [r for r in eng.clock_readings if r.ty == "SystemTime"]
        now = src.pin("now.s", sys_reads[0].f[0])
        hyps += [h for h in src.hyps if h not in hyps]
        for r in sys_reads[1:]:
            hyps.append(r.f[0] == sys_reads[0].f[0])
        pc = st2.pc
    else:
        pc = z3.BoolVal(True)
        okk = z3.BoolVal(bool(obs["ok"]))
        applied = [z3.BoolVal(bool(a)) for a in obs["applied"]]
        valid = [z3.BoolVal(r == "Valid") for r in obs["results"]]
        nres = bv(len(obs["applied"]), 64)
        m1 = obs_counters(eng, obs, "post", probes)
        now = src.bv("now.s", 64)
    L = {k: z3.If(z3.Select(m0.present, kk), cfield(eng, sel(m0, kk), "last_valid_sequence"), bv(0, 64)) for k, kk in (("u", ku), ("o", ko))}
    one = lambda b: z3.If(b, bv(1, 64), bv(0, 64))  # noqa: E731
    exp0 = z3.And(req[0]["seq"] == L["u"] + 1, window(req[0]["ts"], now))
    if same_user:
        exp1 = z3.And(req[1]["seq"] == L["u"] + one(exp0) + 1, window(req[1]["ts"], now))
    else:
        exp1 = z3.And(req[1]["seq"] == L["o"] + 1, window(req[1]["ts"], now))
    G = {}
    G["each_request_is_accepted_iff_next_in_order_after_the_previous_ones"] = z3.And(okk, nres == 2, applied[0] == exp0, applied[1] == exp1, valid[0] == applied[0], valid[1] == applied[1])
    G["a_number_submitted_twice_in_one_batch_is_accepted_at_most_once"] = z3.Implies(z3.And(z3.BoolVal(same_user), req[0]["seq"] == req[1]["seq"]), z3.Not(z3.And(applied[0], applied[1])))
    fin_u = cfield(eng, sel(m1, ku), "last_valid_sequence")
    if same_user:
        G["counters_advance_by_the_number_of_accepted_requests"] = z3.And(z3.Select(m1.present, ku), fin_u == L["u"] + one(applied[0]) + one(applied[1]),
                                                                        z3.Select(m1.present, ko) == z3.Select(m0.present, ko),
                                                                        z3.Implies(z3.Select(m0.present, ko), cfield(eng, sel(m1, ko), "last_valid_sequence") == L["o"]))
    else:
        G["counters_advance_by_the_number_of_accepted_requests"] = z3.And(z3.Select(m1.present, ku), fin_u == L["u"] + one(applied[0]), z3.Select(m1.present, ko),
                                                                        cfield(eng, sel(m1, ko), "last_valid_sequence") == L["o"] + one(applied[1]))
    return {"eng": eng, "hyps": hyps, "goals": {g: z3.Implies(pc, f) for g, f in G.items()},
            "reach": {"reach_both_applied": z3.And(pc, applied[0], applied[1]), "reach_second_rejected": z3.And(pc, applied[0], z3.Not(applied[1]))}}


def build_cleanup(ck, src, obs=None):
    """cleanup_old_sequences (async, await-free) on a finite counter map {u, o}: it may trim histories but never forgets a peer's
    high-water mark (otherwise old numbers would be accepted again)"""
    eng = ck.engine(unwind=12) if obs is None else ck.meta_engine()
    uval, ku = user(src, "u")
    oval, ko = user(src, "o")
    probes = {"cand": ku, "other": ko}
    m0 = src.map("M", 256, counter_template(eng), probes, finite={"cand": uval, "other": oval})
    stats_vals = [src.bv("stats." + n, 64) for n in STATS]
    hyps = list(src.hyps) + [ku != ko, counter_inv(eng, m0, ku), counter_inv(eng, m0, ko)]
    if obs is None:
        st = State()
        sysv, cref = system_value(eng, st, m0, stats_vals)
        rsys = eng.alloc(st, sysv)
        eng.clock_readings = []
        st2, out = run_async(eng, ck.fn_in("MonotonicCounterSystem", "cleanup_old_sequences"), [rsys], st)
        okk = out.idx == bv(0, 8)
        m1 = eng.load(st2, cref)
        sys_reads = [r for r in eng.clock_readings if r.ty == "SystemTime"]
        src.pin("now.s", sys_reads[0].f[0])
        hyps += [h for h in src.hyps if h not in hyps]
        pc = st2.pc
    else:
        pc = z3.BoolVal(True)
        okk = z3.BoolVal(bool(obs["ok"]))
        m1 = obs_counters(eng, obs, "post", probes)
    G = {}
    keep = []
    for k in (ku, ko):
        c0, c1 = sel(m0, k), sel(m1, k)
        keep.append(z3.And(z3.Select(m1.present, k) == z3.Select(m0.present, k),
                           z3.Implies(z3.Select(m0.present, k), z3.And(cfield(eng, c1, "last_valid_sequence") == cfield(eng, c0, "last_valid_sequence"),
                                                                      cfield(eng, c1, "current_sequence") == cfield(eng, c0, "current_sequence"),
                                                                      z3.ULE(cfield(eng, c1, "sequence_history").len, cfield(eng, c0, "sequence_history").len)))))
    G["cleanup_never_forgets_a_peers_high_water_mark"] = z3.And(okk, *keep)
    return {"eng": eng, "hyps": hyps, "goals": {g: z3.Implies(pc, f) for g, f in G.items()}, "reach": {"reach_end": pc}}


def build_persist(ck, src, obs=None, history=False):
    """sync_counters (snapshot + serialise + write) followed by a restart (new_with_sync_interval -> load_counters): the reloaded store holds, for every peer,
    exactly the counter that was persisted -- so a number it had accepted is classified as a replay after the restart.  The file system and postcard are the
    ENVIRONMENT: a write stores the serialised image or fails, a read returns what was stored, (de)serialisation is the identity on the image."""
    import re

    from summaries import RESULT, UNIT

    eng = ck.engine(unwind=12) if obs is None else ck.meta_engine()
    uval, ku = user(src, "u")
    oval, ko = user(src, "o")
    probes = {"cand": ku, "other": ko}
    # a FINITE map (two arbitrary peers): a reload that filters / retains / re-collects the counters is then executable
    m0 = src.map("M", 256, counter_template(eng), probes, finite={"cand": uval, "other": oval})
    stats_vals = [src.bv("stats." + n, 64) for n in STATS]
    hyps = list(src.hyps) + [ku != ko, counter_inv(eng, m0, ku), counter_inv(eng, m0, ko)] + [z3.ULT(s, bv(1 << 20, 64)) for s in stats_vals]
    if obs is None:
        st = State()
        sysv, cref = system_value(eng, st, m0, stats_vals, fresh_start=history)
        disk = {"written": z3.BoolVal(False), "maps": [], "writes": []}
        write_ok = src.bool("env.write_ok")

        def ok(v):
            return VEnum(RESULT, bv(0, 8), {0: (v,), 1: (VOpaque("error"),)})

        def h_ser(e, s_, a, d, c, m):
            from summaries import deref
            from values import VBlob

            disk["maps"].append(deref(e, s_, a[0]))
            return ok(VBlob(bv(0x1000 + len(disk["maps"]), 64), e.fresh_bv("image.len", 64)))

        def h_write(e, s_, a, d, c, m):
            # the file now holds the image serialised last on this path -- on the paths on which the write happens and succeeds
            if not disk["maps"]:
                raise harness.SymError("write of something that was not serialised by the store")
            cond = z3.And(s_.pc, write_ok)
            disk["writes"].append((cond, len(disk["maps"]) - 1))
            disk["written"] = z3.Or(disk["written"], cond)
            return VStruct([VEnum(RESULT, z3.If(write_ok, bv(0, 8), bv(1, 8)), {0: (UNIT,), 1: (VOpaque("io::Error"),)})], "ReadyFuture")

        def h_exists(e, s_, a, d, c, m):
            return disk["written"]

        def h_read(e, s_, a, d, c, m):
            from values import VBlob

            return VStruct([ok(VBlob(bv(0x999, 64), e.fresh_bv("file.len", 64)))], "ReadyFuture")

        def h_de(e, s_, a, d, c, m):
            from values import merge

            cur = None
            for cond, n in disk["writes"]:
                cur = disk["maps"][n] if cur is None else merge(cond, disk["maps"][n], cur)
            if cur is None:
                raise harness.SymError("the store is reloaded although no path ever writes it")
            return ok(cur)

        def h_mkdir(e, s_, a, d, c, m):
            return VStruct([ok(UNIT)], "ReadyFuture")

        def h_parent(e, s_, a, d, c, m):
            return VEnum(eng.enum_info("Option"), bv(0, 8), {0: ()})

        S = eng.summaries
        S.insert(0, (re.compile(r"^(postcard::)?to_stdvec::<.*HashMap<.*PeerCounter>>$"), h_ser, "ENVIRONMENT postcard::to_stdvec(&counters) -> the serialised image (identity; serde derive output is not executed)"))
        S.insert(0, (re.compile(r"^tokio::fs::write::<.*>$"), h_write, "ENVIRONMENT tokio::fs::write -> stores the image or fails (arbitrary)"))
        S.insert(0, (re.compile(r"^(std::path::)?Path::exists$|^(std::path::)?PathBuf::exists$"), h_exists, "Path::exists -> true iff a write happened and succeeded on this path"))
        S.insert(0, (re.compile(r"^tokio::fs::read::<.*>$"), h_read, "ENVIRONMENT tokio::fs::read -> the file content (the image written last on this path)"))
        S.insert(0, (re.compile(r"^(postcard::)?from_bytes::<.*HashMap<.*PeerCounter>>$"), h_de, "ENVIRONMENT postcard::from_bytes -> the map whose image this is"))
        S.insert(0, (re.compile(r"^tokio::fs::create_dir_all::<.*>$"), h_mkdir, "tokio::fs::create_dir_all -> Ok"))
        S.insert(0, (re.compile(r"^(std::path::)?Path(Buf)?::parent$"), h_parent, "Path::parent -> None (no directory to create)"))
        path = eng.alloc(st, VOpaque("path"))
        sref = sysv.f[eng.struct_adt("MonotonicCounterSystem").field_index("stats")]
        st1, out1 = run_async(eng, ck.fn_in("MonotonicCounterSystem", "sync_counters"), [eng.alloc(st, cref), path, eng.alloc(st, sref)], st)
        sync_ok = out1.idx == bv(0, 8)
        if history:
            # history: sync, then one more submission is processed, then sync again, then the restart
            hyps.append(write_ok)
            eng.clock_readings = []
            rsys = eng.alloc(st1, sysv)
            st1, outv = run_async(eng, ck.fn_in("MonotonicCounterSystem", "validate_sequence"), [rsys, eng.alloc(st1, uval), src.bv("seq", 64), src.bytes("hash", 32)], st1)
            sys_reads = [r for r in eng.clock_readings if r.ty == "SystemTime"]
            now = src.pin("now.s", sys_reads[0].f[0])
            st1, out1b = run_async(eng, ck.fn_in("MonotonicCounterSystem", "sync_counters"), [eng.alloc(st1, cref), path, eng.alloc(st1, sref)], st1)
            # every wall-clock reading of the history falls into one second (replayed through the clock shim)
            for r in [r for r in eng.clock_readings if r.ty == "SystemTime"][1:]:
                src.hyps.append(r.f[0] == now)
            hyps += [h for h in src.hyps if not any(h is x for x in hyps)]
            sync_ok = z3.And(sync_ok, outv.idx == bv(0, 8), out1b.idx == bv(0, 8))
        m_mid = eng.load(st1, cref)
        st2, out2 = run_async(eng, ck.fn_in("MonotonicCounterSystem", "new_with_sync_interval"), [VOpaque("path"), mk_time(bv(30, 64), bv(0, 32), "Duration")], st1)
        load_ok = out2.idx == bv(0, 8)
        sys2 = out2.pay[0][0]
        c2 = sys2.f[eng.struct_adt("MonotonicCounterSystem").field_index("counters")]
        m1 = eng.load(st2, c2)
        if not isinstance(m1, type(m0)):
            m1 = eng.load(st2, m1)
        pc = st2.pc
        written = disk["written"]
    else:
        pc = z3.BoolVal(True)
        write_ok = src.bool("env.write_ok")
        sync_ok = z3.BoolVal(bool(obs["sync_ok"]))
        load_ok = z3.BoolVal(bool(obs["load_ok"]))
        written = sync_ok
        m_mid = obs_counters(eng, obs, "mid", probes)
        m1 = obs_counters(eng, obs, "post", probes)

    def same(a, b, k):
        return z3.And(z3.Select(b.present, k) == z3.Select(a.present, k),
                      z3.Implies(z3.Select(a.present, k), z3.And(*[x == y for x, y in zip(flatten(sel(a, k)), flatten(sel(b, k)))])))

    G = {}
    if history:
        G["a_store_reloaded_after_sync_accept_sync_holds_the_counters_as_they_were_at_the_last_sync"] = z3.Implies(sync_ok, z3.And(load_ok, same(m_mid, m1, ku), same(m_mid, m1, ko)))
        return {"eng": eng, "hyps": hyps, "goals": {g: z3.Implies(pc, f) for g, f in G.items()}, "reach": {"reach_reloaded": z3.And(pc, sync_ok, load_ok, z3.Select(m_mid.present, ku))}}
    G["a_successful_sync_has_written_the_counters"] = sync_ok == written
    G["sync_does_not_change_the_live_counters"] = z3.And(same(m0, m_mid, ku), same(m0, m_mid, ko))
    G["a_store_reloaded_after_a_sync_holds_exactly_the_persisted_counters"] = z3.Implies(sync_ok, z3.And(load_ok, same(m0, m1, ku), same(m0, m1, ko)))
    return {"eng": eng, "hyps": hyps, "goals": {g: z3.Implies(pc, f) for g, f in G.items()}, "reach": {"reach_reloaded": z3.And(pc, sync_ok, load_ok, z3.Select(m0.present, ku))}}


def register_all(ck, tier):
    def reg():
        src = Src()
        R = build_validate(ck, src)
        rp = harness.make_replayer(ck, "monotonic_counter", "validate_sequence", lambda s, obs: build_validate(ck, s, obs), {}, race_driver="race_submit")
        ck.register_src("validate_sequence", {}, src)
        for g, f in R["goals"].items():
            ck.prove(f"validate_sequence/{g}", R["eng"], R["hyps"], f, on_sat=rp, meta={"goal": g})
        for g, f in R["reach"].items():
            ck.reach(f"validate_sequence/{g}", R["eng"], R["hyps"], f)
        ck.side("validate_sequence/side", R["eng"], R["hyps"], on_sat=rp)
        # validate-and-apply under ONE acquisition of the counters lock (a split critical section lets two tasks accept the same number);
        # a satisfiable query is confirmed by a native multi-task stress run before it is reported
        ck.single_critical_section("validate_sequence", R["eng"], R["hyps"], on_sat=rp)
        ck.out.samples.append({"obligation": "validate_sequence (async, whole call)", "state": "arbitrary HashMap<UserId,PeerCounter> as SMT arrays (history capacity 2), arbitrary user, sequence, hash, clock",
                               "goals": list(R["goals"])})

    ck.guarded("validate_sequence", reg)

    def reg2():
        src = Src()
        R = build_cleanup(ck, src)
        rp = harness.make_replayer(ck, "monotonic_counter", "cleanup", lambda s, obs: build_cleanup(ck, s, obs), {})
        ck.register_src("cleanup", {}, src)
        for g, f in R["goals"].items():
            ck.prove(f"cleanup_old_sequences/{g}", R["eng"], R["hyps"], f, on_sat=rp, meta={"goal": g})
        ck.reach("cleanup_old_sequences/reach_end", R["eng"], R["hyps"], R["reach"]["reach_end"])
        ck.side("cleanup_old_sequences/side", R["eng"], R["hyps"], on_sat=rp)
        ck.out.samples.append({"obligation": "cleanup_old_sequences (async)", "state": "finite counter map with two arbitrary peers", "goals": list(R["goals"])})

    ck.guarded("cleanup_old_sequences", reg2)

    def reg4():
        src = Src()
        R = build_persist(ck, src)
        rp = harness.make_replayer(ck, "monotonic_counter", "persist", lambda s, obs: build_persist(ck, s, obs), {})
        ck.register_src("persist", {}, src)
        for g, f in R["goals"].items():
            ck.prove(f"persist_and_reload/{g}", R["eng"], R["hyps"], f, on_sat=rp, meta={"goal": g})
        for g, f in R["reach"].items():
            ck.reach(f"persist_and_reload/{g}", R["eng"], R["hyps"], f)
        ck.side("persist_and_reload/side", R["eng"], R["hyps"], on_sat=rp)
        ck.out.samples.append({"obligation": "sync_counters + new_with_sync_interval/load_counters (async)", "state": "arbitrary counter map, file system and postcard as environment", "goals": list(R["goals"])})

    ck.guarded("persist_and_reload", reg4)

    def reg5():
        src = Src()
        params = {"history": True}
        R = build_persist(ck, src, None, True)
        rp = harness.make_replayer(ck, "monotonic_counter", "persist", lambda s, obs: build_persist(ck, s, obs, True), params)
        ck.register_src("persist", params, src)
        for g, f in R["goals"].items():
            ck.prove(f"sync_accept_sync_reload/{g}", R["eng"], R["hyps"], f, on_sat=rp, meta={"goal": g})
        for g, f in R["reach"].items():
            ck.reach(f"sync_accept_sync_reload/{g}", R["eng"], R["hyps"], f)
        ck.side("sync_accept_sync_reload/side", R["eng"], R["hyps"], on_sat=rp)
        ck.out.samples.append({"obligation": "sync_counters; validate_sequence; sync_counters; restart", "goals": list(R["goals"])})

    ck.guarded("sync_accept_sync_reload", reg5)

    for same in (True, False):
        def reg3(same=same):
            params = {"same_user": same}
            tag = "batch_update[" + ("same peer" if same else "two peers") + "]"
            src = Src()
            R = build_batch(ck, same, src)
            rp = harness.make_replayer(ck, "monotonic_counter", "batch", lambda s, obs: build_batch(ck, same, s, obs), params, race_driver="race_submit")
            ck.register_src("batch", params, src)
            for g, f in R["goals"].items():
                ck.prove(f"{tag}/{g}", R["eng"], R["hyps"], f, on_sat=rp, meta={"goal": g})
            for g, f in R["reach"].items():
                ck.reach(f"{tag}/{g}", R["eng"], R["hyps"], f)
            ck.side(f"{tag}/side", R["eng"], R["hyps"], on_sat=rp)
            ck.single_critical_section(tag, R["eng"], R["hyps"], on_sat=rp)
            ck.out.samples.append({"obligation": tag + " (async)", "goals": list(R["goals"])})

        ck.guarded("batch_update[" + ("same peer" if same else "two peers") + "]", reg3)


def rebuild(ck, driver, params):
    if driver == "batch":
        return lambda s, obs: build_batch(ck, params["same_user"], s, obs)
    if driver == "cleanup":
        return lambda s, obs: build_cleanup(ck, s, obs)
    if driver == "persist":
        return lambda s, obs: build_persist(ck, s, obs, bool(params.get("history")))
    return lambda s, obs: build_validate(ck, s, obs)
