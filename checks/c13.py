"""C13 — per-subnet / per-ASN admission caps (IPDiversityEnforcer, engine M over src/security.rs + Kani prefix kernel)."""
import os
import sys

import z3

sys.path.insert(0, os.path.join(os.path.dirname(os.path.abspath(__file__)), "..", "lib", "mirsym"))
import harness  # noqa: E402
from engine import State  # noqa: E402
from harness import MirCheck, f64, fp_of_uint, fpv, mk_map  # noqa: E402
from summaries import OPTION  # noqa: E402
from values import VArr, VEnum, VMap, VRef, VStr, VStruct, bv, flatten, key_bv, vmap  # noqa: E402

RNE = z3.RNE()
F64 = z3.Float64()
U = lambda n: z3.BitVec(n, 64)  # noqa: E731

CFG_FIELDS = ["max_nodes_per_64", "max_nodes_per_48", "max_nodes_per_32", "max_nodes_per_ipv4_32", "max_nodes_per_ipv4_24", "max_nodes_per_ipv4_16",
              "max_per_ip_cap", "max_network_fraction", "max_nodes_per_asn", "enable_geolocation_check", "min_geographic_diversity"]
MAPS = [("subnet_64_counts", 128), ("subnet_48_counts", 128), ("subnet_32_counts", 128), ("ipv4_32_counts", 32), ("ipv4_24_counts", 32),
        ("ipv4_16_counts", 32), ("asn_counts", 32), ("country_counts", 64)]
FRACTIONS = {"default": 0.005, "testnet": 0.1, "permissive": 1.0}


def mk_struct(eng, tyname, vals):
    adt = eng.struct_adt(tyname)
    names = [f for f, _ in adt.fields]
    if set(names) != set(vals):
        raise harness.SymError(f"struct {tyname} fields changed: {names} vs {sorted(vals)}")
    return VStruct([vals[f] for f in names], adt.name)


def field(eng, v, tyname, fname):
    return v.f[eng.struct_adt(tyname).field_index(fname)]


def sym_enforcer(eng, st, fraction):
    cfg = {f: U("cfg." + f) for f in CFG_FIELDS}
    cfg["max_network_fraction"] = fpv(fraction)
    cfg["enable_geolocation_check"] = z3.Bool("cfg.enable_geolocation_check")
    config = mk_struct(eng, "IPDiversityConfig", cfg)
    vals = {"config": config, "geo_provider": VEnum(OPTION, bv(0, 8), {0: ()}), "network_size": U("network_size")}
    for name, kw in MAPS:
        vals[name] = mk_map(eng, "E." + name, kw, bv(0, 64), cap=50_000)
    return mk_struct(eng, "IPDiversityEnforcer", vals), cfg


def opt(idx_name, payload):
    i = z3.Bool(idx_name)
    return VEnum(OPTION, z3.If(i, bv(1, 8), bv(0, 8)), {0: (), 1: (payload,)}), i


def addr(name, n):
    return VArr([z3.BitVec(f"{name}.{i}", 8) for i in range(n)])


def sym_v6_analysis(eng):
    asn, asn_some = opt("a.asn_some", z3.BitVec("a.asn", 32))
    country, c_some = opt("a.country_some", VStr(z3.BitVec("a.country", 64)))
    vals = {"subnet_64": addr("a.s64", 16), "subnet_48": addr("a.s48", 16), "subnet_32": addr("a.s32", 16), "asn": asn, "country": country,
            "is_hosting_provider": z3.Bool("a.hosting"), "is_vpn_provider": z3.Bool("a.vpn"), "reputation_score": f64("a.rep")}
    a = mk_struct(eng, "IPAnalysis", vals)
    keys = {"subnet_64_counts": key_bv(vals["subnet_64"]), "subnet_48_counts": key_bv(vals["subnet_48"]), "subnet_32_counts": key_bv(vals["subnet_32"]),
            "asn_counts": z3.BitVec("a.asn", 32), "country_counts": z3.BitVec("a.country", 64)}
    return a, keys, asn_some, c_some, z3.Or(vals["is_hosting_provider"], vals["is_vpn_provider"])


def sym_v4_analysis(eng):
    asn, asn_some = opt("a.asn_some", z3.BitVec("a.asn", 32))
    country, c_some = opt("a.country_some", VStr(z3.BitVec("a.country", 64)))
    vals = {"ip_addr": addr("a.ip", 4), "subnet_24": addr("a.s24", 4), "subnet_16": addr("a.s16", 4), "subnet_8": addr("a.s8", 4), "asn": asn,
            "country": country, "is_hosting_provider": z3.Bool("a.hosting"), "is_vpn_provider": z3.Bool("a.vpn"), "reputation_score": f64("a.rep")}
    a = mk_struct(eng, "IPv4Analysis", vals)
    keys = {"ipv4_32_counts": key_bv(vals["ip_addr"]), "ipv4_24_counts": key_bv(vals["subnet_24"]), "ipv4_16_counts": key_bv(vals["subnet_16"]),
            "asn_counts": z3.BitVec("a.asn", 32), "country_counts": z3.BitVec("a.country", 64)}
    return a, keys, asn_some, c_some, z3.Or(vals["is_hosting_provider"], vals["is_vpn_provider"])


def emap(eng, e, name):
    return field(eng, e, "IPDiversityEnforcer", name)


def count_at(m, k):
    """number of admitted nodes recorded for key k (0 when untracked)"""
    return z3.If(z3.Select(m.present, k), z3.Select(m.val, k), bv(0, 64))


def inv_at(m, k):
    """representation invariant: a tracked key has count >= 1"""
    return z3.Implies(z3.Select(m.present, k), z3.UGE(z3.Select(m.val, k), 1))


def same_at(m0, m1, k):
    return z3.And(z3.Select(m1.present, k) == z3.Select(m0.present, k),
                  z3.Implies(z3.Select(m0.present, k), z3.Select(m1.val, k) == z3.Select(m0.val, k)))


def halve(x, hv):
    h = z3.LShR(x, 1)
    return z3.If(hv, z3.If(z3.UGE(h, 1), h, bv(1, 64)), x)


def per_ip_limit(cfg, size, fraction):
    prod = z3.fpMul(RNE, z3.fpUnsignedToFP(RNE, size, F64), fpv(fraction))
    fl = z3.fpRoundToIntegral(z3.RTN(), prod)
    # size <= 2^32 and fraction <= 1 so the value fits: plain conversion
    fli = z3.fpToUBV(z3.RTZ(), fl, z3.BitVecSort(64))
    mx = z3.If(z3.UGE(fli, 1), fli, bv(1, 64))
    return z3.If(z3.ULE(cfg["max_per_ip_cap"], mx), cfg["max_per_ip_cap"], mx)


def umin(a, b):
    return z3.If(z3.ULE(a, b), a, b)


def levels_v6(cfg, hv, asn_some):
    return [("subnet_64_counts", halve(cfg["max_nodes_per_64"], hv), z3.BoolVal(True)), ("subnet_48_counts", halve(cfg["max_nodes_per_48"], hv), z3.BoolVal(True)),
            ("subnet_32_counts", halve(cfg["max_nodes_per_32"], hv), z3.BoolVal(True)), ("asn_counts", halve(cfg["max_nodes_per_asn"], hv), asn_some)]


def levels_v4(cfg, hv, asn_some, size, fraction):
    p = per_ip_limit(cfg, size, fraction)
    l24 = umin(cfg["max_nodes_per_ipv4_24"], p * 3)
    l16 = umin(cfg["max_nodes_per_ipv4_16"], p * 10)
    return [("ipv4_32_counts", halve(p, hv), z3.BoolVal(True)), ("ipv4_24_counts", halve(l24, hv), z3.BoolVal(True)),
            ("ipv4_16_counts", halve(l16, hv), z3.BoolVal(True)), ("asn_counts", cfg["max_nodes_per_asn"], asn_some)]


def group_add_remove(ck, v6, preset):
    fraction = FRACTIONS[preset]
    eng = ck.engine()
    st = State()
    E0, cfg = sym_enforcer(eng, st, fraction)
    rE = eng.alloc(st, E0)
    if v6:
        a, keys, asn_some, c_some, hv = sym_v6_analysis(eng)
        uni = VEnum(eng.enum_info("UnifiedIPAnalysis"), bv(eng.enum_info("UnifiedIPAnalysis").index("IPv6"), 8), {eng.enum_info("UnifiedIPAnalysis").index("IPv6"): (a,)})
        lv = levels_v6(cfg, hv, asn_some)
    else:
        a, keys, asn_some, c_some, hv = sym_v4_analysis(eng)
        uni = VEnum(eng.enum_info("UnifiedIPAnalysis"), bv(eng.enum_info("UnifiedIPAnalysis").index("IPv4"), 8), {eng.enum_info("UnifiedIPAnalysis").index("IPv4"): (a,)})
        lv = levels_v4(cfg, hv, asn_some, U("network_size"), fraction)
    rU = eng.alloc(st, uni)
    size = U("network_size")
    touched = [n for n, _, _ in lv] + ["country_counts"]
    cond_of = {n: c for n, _, c in lv}
    cond_of["country_counts"] = c_some
    hyps = [z3.ULE(size, bv(1 << 32, 64))]
    for f in CFG_FIELDS:
        if f not in ("max_network_fraction", "enable_geolocation_check", "min_geographic_diversity"):
            hyps.append(z3.UGE(cfg[f], 1))  # a cap of 0 is outside the claim (the code treats an untracked prefix as admissible)
    for n in touched:
        hyps.append(inv_at(emap(eng, E0, n), keys[n]))
        hyps.append(z3.ULE(count_at(emap(eng, E0, n), keys[n]), bv(1 << 40, 64)))  # counts are bounded by the number of admitted nodes
    tag = f"{'v6' if v6 else 'v4'}[{preset}]"
    rp = ck.replayer("add_remove", {"v6": v6, "preset": preset})

    # ---- can_accept_unified agrees with the cap rule
    st_c, acc = eng.call(ck.fn(r"security::<impl at [^>]*>::can_accept_unified$"), [rE, rU], st)
    below = z3.And(*[z3.Implies(c, z3.ULT(count_at(emap(eng, E0, n), keys[n]), lim)) for n, lim, c in lv])
    ck.prove(f"can_accept/{tag}/accept_iff_all_levels_below_cap", eng, hyps + [st_c.pc], acc == below, on_sat=rp)

    # ---- add_unified
    st1, res = eng.call(ck.fn(r"security::<impl at [^>]*>::add_unified$"), [rE, rU], st)
    E1 = eng.load(st1, rE)
    okk = res.idx == bv(0, 8)
    H = hyps + [st1.pc]
    ck.prove(f"add/{tag}/ok_iff_all_levels_below_cap", eng, H, okk == below, on_sat=rp)
    incs = []
    for n in touched:
        m0, m1 = emap(eng, E0, n), emap(eng, E1, n)
        k = keys[n]
        inc = z3.And(z3.Select(m1.present, k), z3.Select(m1.val, k) == count_at(m0, k) + 1)
        incs.append(z3.If(cond_of[n], inc, same_at(m0, m1, k)))
    ck.prove(f"add/{tag}/ok_increments_exactly_the_candidates_counters", eng, H + [okk], z3.And(*incs), on_sat=rp)
    caps = [z3.Implies(c, z3.ULE(count_at(emap(eng, E1, n), keys[n]), lim)) for n, lim, c in lv]
    ck.prove(f"add/{tag}/ok_leaves_every_level_within_cap", eng, H + [okk], z3.And(*caps), on_sat=rp)
    # frame: other keys of touched maps, all untouched maps, config, network size
    frame = []
    for n, kw in MAPS:
        m0, m1 = emap(eng, E0, n), emap(eng, E1, n)
        k2 = z3.BitVec(f"other.{n}", kw)
        if n in touched:
            frame.append(z3.Implies(k2 != keys[n], same_at(m0, m1, k2)))
        else:
            frame.append(same_at(m0, m1, k2))
    frame.append(z3.And(*[x == y for x, y in zip(flatten(field(eng, E0, "IPDiversityEnforcer", "config")), flatten(field(eng, E1, "IPDiversityEnforcer", "config")))]))
    frame.append(field(eng, E1, "IPDiversityEnforcer", "network_size") == size)
    ck.prove(f"add/{tag}/nothing_else_changes", eng, H, z3.And(*frame), on_sat=rp)
    unchanged = []
    for n, kw in MAPS:
        m0, m1 = emap(eng, E0, n), emap(eng, E1, n)
        k2 = z3.BitVec(f"any.{n}", kw)
        unchanged.append(same_at(m0, m1, k2))
    ck.prove(f"add/{tag}/failed_admission_consumes_nothing", eng, H + [z3.Not(okk)], z3.And(*unchanged), on_sat=rp)
    ck.prove(f"add/{tag}/invariant_preserved", eng, H, z3.And(*[inv_at(emap(eng, E1, n), keys[n]) for n in touched]), on_sat=rp)
    ck.reach(f"add/{tag}/reach_ok", eng, H, okk)
    ck.reach(f"add/{tag}/reach_err", eng, H, z3.Not(okk))

    # ---- remove_unified after a successful add gives every slot back
    st1.pc = z3.simplify(z3.And(st1.pc, okk))
    r2 = eng.call(ck.fn(r"security::<impl at [^>]*>::remove_unified$"), [rE, rU], st1)
    st2, _ = r2
    E2 = eng.load(st2, rE)
    back = []
    for n, kw in MAPS:
        m0, m2 = emap(eng, E0, n), emap(eng, E2, n)
        k2 = z3.BitVec(f"any.{n}", kw)
        back.append(same_at(m0, m2, k2))
    # at the candidate's own keys too (k2 ranges over all keys), under the representation invariant at those keys
    inv_any = [inv_at(emap(eng, E0, n), z3.BitVec(f"any.{n}", kw)) for n, kw in MAPS]
    ck.prove(f"remove/{tag}/add_then_remove_restores_every_counter", eng, hyps + inv_any + [st2.pc], z3.And(*back), on_sat=rp)

    # ---- remove_unified alone from an arbitrary state: each of the candidate's tracked levels goes down by one, untracked stay untracked
    st3, _ = eng.call(ck.fn(r"security::<impl at [^>]*>::remove_unified$"), [rE, rU], st)
    E3 = eng.load(st3, rE)
    dec = []
    for n in touched:
        m0, m3 = emap(eng, E0, n), emap(eng, E3, n)
        k = keys[n]
        c0 = z3.Select(m0.val, k)
        stepdown = z3.If(z3.And(z3.Select(m0.present, k), z3.UGT(c0, 1)), z3.And(z3.Select(m3.present, k), z3.Select(m3.val, k) == c0 - 1),
                         z3.Not(z3.Select(m3.present, k)))
        dec.append(z3.If(cond_of[n], stepdown, same_at(m0, m3, k)))
    ck.prove(f"remove/{tag}/each_tracked_level_decrements_by_one", eng, hyps + [st3.pc], z3.And(*dec), on_sat=rp)
    frame3 = []
    for n, kw in MAPS:
        m0, m3 = emap(eng, E0, n), emap(eng, E3, n)
        k2 = z3.BitVec(f"other.{n}", kw)
        frame3.append(z3.Implies(k2 != keys[n], same_at(m0, m3, k2)) if n in touched else same_at(m0, m3, k2))
    ck.prove(f"remove/{tag}/nothing_else_changes", eng, hyps + [st3.pc], z3.And(*frame3), on_sat=rp)
    ck.side(f"side/{tag}", eng, hyps, on_sat=rp)
    ck.out.samples.append({"obligation": f"add/remove {tag}", "state": "arbitrary IPDiversityEnforcer: 8 LruCaches as SMT arrays, 10 symbolic caps, network_size<=2^32, fraction=" + str(fraction),
                           "input": "arbitrary analysis (prefixes, asn?, country?, hosting, vpn)"})


def group_analyze(ck):
    eng = ck.engine()
    st = State()
    E0, cfg = sym_enforcer(eng, st, 0.005)
    rE = eng.alloc(st, E0)
    rp = ck.replayer("analyze", {})
    ip6 = addr("ip6", 16)
    st1, r = eng.call(ck.fn(r"security::<impl at [^>]*>::analyze_ip$"), [rE, ip6], st)
    a = r.pay[0][0]
    ipbv = key_bv(ip6)

    def msk(nbytes, total):
        return ipbv & bv(((1 << (8 * nbytes)) - 1) << (8 * (total - nbytes)), 8 * total)

    F = lambda n: field(eng, a, "IPAnalysis", n)  # noqa: E731
    ck.prove("analyze/v6/prefixes_are_masks_of_the_address", eng, [st1.pc],
             z3.And(r.idx == bv(0, 8), key_bv(F("subnet_64")) == msk(8, 16), key_bv(F("subnet_48")) == msk(6, 16), key_bv(F("subnet_32")) == msk(4, 16),
                    F("asn").idx == bv(0, 8), F("country").idx == bv(0, 8), z3.Not(F("is_hosting_provider")), z3.Not(F("is_vpn_provider"))), on_sat=rp)
    ip4 = addr("ip4", 4)
    st2, r4 = eng.call(ck.fn(r"security::<impl at [^>]*>::analyze_ipv4$"), [rE, ip4], st)
    a4 = r4.pay[0][0]
    ipbv = key_bv(ip4)
    G = lambda n: field(eng, a4, "IPv4Analysis", n)  # noqa: E731
    ck.prove("analyze/v4/prefixes_are_masks_of_the_address", eng, [st2.pc],
             z3.And(r4.idx == bv(0, 8), key_bv(G("ip_addr")) == ipbv, key_bv(G("subnet_24")) == msk(3, 4), key_bv(G("subnet_16")) == msk(2, 4),
                    key_bv(G("subnet_8")) == msk(1, 4)), on_sat=rp)
    ck.side("side/analyze", eng, [], on_sat=rp)


def run(tier):
    ck = MirCheck("C13", tier)
    import c13_replay

    ck.replayer = lambda kind, params: c13_replay.make(ck, kind, params)
    presets = ["default"] if tier == "quick" else ["default", "testnet", "permissive"]
    for p in presets:
        ck.guarded(f"v6[{p}]", lambda p=p: group_add_remove(ck, True, p))
        ck.guarded(f"v4[{p}]", lambda p=p: group_add_remove(ck, False, p))
    if tier == "quick":
        ck.guarded("v4[permissive]", lambda: group_add_remove(ck, False, "permissive"))
    ck.guarded("analyze", lambda: group_analyze(ck))
    ck.run_queries()
    ck.out.bounds = [
        "one add / remove / can_accept step from an ARBITRARY enforcer state: 8 LruCaches as SMT arrays over 128/32/64-bit keys, all 10 integer caps symbolic u64, network_size <= 2^32",
        "max_network_fraction in {0.005, 0.1, 1.0} (default / testnet / permissive presets; quick: default + permissive for IPv4)",
        "arbitrary candidate analysis: arbitrary prefixes, ASN present or not, country present or not, hosting / VPN flags",
        "representation invariant assumed and re-proved: every tracked key has count >= 1",
    ]
    ck.out.outside = ["DhtCoreEngine::add_node / evict_node / handle_node_failure and BootstrapManager::add_peer (async call sites: whether the gate is applied and slots returned there)",
                      "LRU eviction at 50k tracked prefixes", "GeoProvider lookups (geo_provider = None)", "network sizes above 2^32", "other fractions"]
    ck.out.assumptions = ["cap in force is the one at admission time (set_network_size may lower the dynamic IPv4 cap below existing counts; no retroactive eviction is demanded)",
                          "single-threaded execution"]
    ck.out.trusted.append("z3 4.8.12 / z3 5.1 / cvc5 1.0 portfolio")
    return ck.finish("./check C13 --tier " + tier)


def replay(path):
    import c13_replay

    return c13_replay.replay_file(path)
