"""C13 — per-subnet / per-ASN admission caps (IPDiversityEnforcer, engine M over src/security.rs + Kani prefix kernel)."""
import os
import sys

import z3

sys.path.insert(0, os.path.join(os.path.dirname(os.path.abspath(__file__)), "..", "lib", "mirsym"))
import harness  # noqa: E402
from engine import State  # noqa: E402
from harness import MirCheck, f64, fp_of_uint, fpv, mk_map  # noqa: E402
from summaries import OPTION  # noqa: E402
from values import VArr, VEnum, VMap, VRef, VStr, VStruct, bv, flatten, key_bv, vmap  # noqa: E402

RNE = z3.RNE()
F64 = z3.Float64()
U = lambda n: z3.BitVec(n, 64)  # noqa: E731

CFG_FIELDS = ["max_nodes_per_64", "max_nodes_per_48", "max_nodes_per_32", "max_nodes_per_ipv4_32", "max_nodes_per_ipv4_24", "max_nodes_per_ipv4_16",
              "max_per_ip_cap", "max_network_fraction", "max_nodes_per_asn", "enable_geolocation_check", "min_geographic_diversity"]
MAPS = [("subnet_64_counts", 128), ("subnet_48_counts", 128), ("subnet_32_counts", 128), ("ipv4_32_counts", 32), ("ipv4_24_counts", 32),
        ("ipv4_16_counts", 32), ("asn_counts", 32), ("country_counts", 64)]
FRACTIONS = {"default": 0.005, "testnet": 0.1, "permissive": 1.0}


def mk_struct(eng, tyname, vals):
    adt = eng.struct_adt(tyname)
    names = [f for f, _ in adt.fields]
    if set(names) != set(vals):
        raise harness.SymError(f"struct {tyname} fields changed: {names} vs {sorted(vals)}")
    return VStruct([vals[f] for f in names], adt.name)


def field(eng, v, tyname, fname):
    return v.f[eng.struct_adt(tyname).field_index(fname)]


def inputs(eng, src, v6, fraction, extra=None):
    """named inputs of one add/remove case: config, network size, candidate analysis, the enforcer's maps probed at the
    candidate's keys ('cand') and at one arbitrary other key per map ('other')"""
    cfg = {f: src.bv("cfg." + f, 64) for f in CFG_FIELDS}
    cfg["max_network_fraction"] = fpv(fraction)
    cfg["enable_geolocation_check"] = src.bool("cfg.enable_geolocation_check")
    size = src.bv("network_size", 64)
    asn_some = src.bool("a.asn_some")
    asn_v = src.bv("a.asn", 32)
    c_some = src.bool("a.country_some")
    c_v = src.bv("a.country", 64)
    asn = VEnum(OPTION, z3.If(asn_some, bv(1, 8), bv(0, 8)), {0: (), 1: (asn_v,)})
    country = VEnum(OPTION, z3.If(c_some, bv(1, 8), bv(0, 8)), {0: (), 1: (VStr(c_v),)})
    hosting, vpn = src.bool("a.hosting"), src.bool("a.vpn")
    rep = src.f64("a.rep")
    if v6:
        vals = {"subnet_64": src.bytes("a.s64", 16), "subnet_48": src.bytes("a.s48", 16), "subnet_32": src.bytes("a.s32", 16), "asn": asn, "country": country,
                "is_hosting_provider": hosting, "is_vpn_provider": vpn, "reputation_score": rep}
        a = mk_struct(eng, "IPAnalysis", vals)
        keys = {"subnet_64_counts": key_bv(vals["subnet_64"]), "subnet_48_counts": key_bv(vals["subnet_48"]), "subnet_32_counts": key_bv(vals["subnet_32"])}
        variant = "IPv6"
    else:
        vals = {"ip_addr": src.bytes("a.ip", 4), "subnet_24": src.bytes("a.s24", 4), "subnet_16": src.bytes("a.s16", 4), "subnet_8": src.bytes("a.s8", 4),
                "asn": asn, "country": country, "is_hosting_provider": hosting, "is_vpn_provider": vpn, "reputation_score": rep}
        a = mk_struct(eng, "IPv4Analysis", vals)
        keys = {"ipv4_32_counts": key_bv(vals["ip_addr"]), "ipv4_24_counts": key_bv(vals["subnet_24"]), "ipv4_16_counts": key_bv(vals["subnet_16"])}
        variant = "IPv4"
    keys["asn_counts"] = asn_v
    keys["country_counts"] = c_v
    info = eng.enum_info("UnifiedIPAnalysis")
    uni = VEnum(info, bv(info.index(variant), 8), {info.index(variant): (a,)})
    hv = z3.Or(hosting, vpn)
    lv = levels_v6(cfg, hv, asn_some) if v6 else levels_v4(cfg, hv, asn_some, size, fraction)
    others = {}
    probes = {}
    for n, kw in MAPS:
        if kw in (128, 32) and n != "asn_counts":
            others[n] = key_bv(src.bytes("other." + n, kw // 8))
        else:
            others[n] = src.bv("other." + n, kw)
        probes[n] = {"other": others[n]}
        if n in keys:
            probes[n]["cand"] = keys[n]
        if extra and n in extra:
            probes[n].update(extra[n])
    maps0 = {n: src.map("E." + n, kw, bv(0, 64), probes[n], cap=50_000) for n, kw in MAPS}
    return cfg, size, uni, keys, lv, c_some, others, probes, maps0


def enforcer_value(eng, cfg, size, maps0):
    config = mk_struct(eng, "IPDiversityConfig", cfg)
    vals = {"config": config, "geo_provider": VEnum(OPTION, bv(0, 8), {0: ()}), "network_size": size}
    vals.update(maps0)
    return mk_struct(eng, "IPDiversityEnforcer", vals)


def count_at(m, k):
    """number of admitted nodes recorded for key k (0 when untracked)"""
    return z3.If(z3.Select(m.present, k), z3.Select(m.val, k), bv(0, 64))


def inv_at(m, k):
    """representation invariant: a tracked key has count >= 1"""
    return z3.Implies(z3.Select(m.present, k), z3.UGE(z3.Select(m.val, k), 1))


def same_at(m0, m1, k):
    return z3.And(z3.Select(m1.present, k) == z3.Select(m0.present, k),
                  z3.Implies(z3.Select(m0.present, k), z3.Select(m1.val, k) == z3.Select(m0.val, k)))


def halve(x, hv):
    h = z3.LShR(x, 1)
    return z3.If(hv, z3.If(z3.UGE(h, 1), h, bv(1, 64)), x)


def per_ip_limit(cfg, size, fraction):
    prod = z3.fpMul(RNE, z3.fpUnsignedToFP(RNE, size, F64), fpv(fraction))
    fl = z3.fpRoundToIntegral(z3.RTN(), prod)
    # size <= 2^32 and fraction <= 1 so the value fits: plain conversion
    fli = z3.fpToUBV(z3.RTZ(), fl, z3.BitVecSort(64))
    mx = z3.If(z3.UGE(fli, 1), fli, bv(1, 64))
    return z3.If(z3.ULE(cfg["max_per_ip_cap"], mx), cfg["max_per_ip_cap"], mx)


def umin(a, b):
    return z3.If(z3.ULE(a, b), a, b)


def levels_v6(cfg, hv, asn_some):
    return [("subnet_64_counts", halve(cfg["max_nodes_per_64"], hv), z3.BoolVal(True)), ("subnet_48_counts", halve(cfg["max_nodes_per_48"], hv), z3.BoolVal(True)),
            ("subnet_32_counts", halve(cfg["max_nodes_per_32"], hv), z3.BoolVal(True)), ("asn_counts", halve(cfg["max_nodes_per_asn"], hv), asn_some)]


def levels_v4(cfg, hv, asn_some, size, fraction):
    p = per_ip_limit(cfg, size, fraction)
    l24 = umin(cfg["max_nodes_per_ipv4_24"], p * 3)
    l16 = umin(cfg["max_nodes_per_ipv4_16"], p * 10)
    return [("ipv4_32_counts", halve(p, hv), z3.BoolVal(True)), ("ipv4_24_counts", halve(l24, hv), z3.BoolVal(True)),
            ("ipv4_16_counts", halve(l16, hv), z3.BoolVal(True)), ("asn_counts", cfg["max_nodes_per_asn"], asn_some)]


CFG_OBS = ["max_nodes_per_64", "max_nodes_per_48", "max_nodes_per_32", "max_nodes_per_ipv4_32", "max_nodes_per_ipv4_24", "max_nodes_per_ipv4_16",
           "max_per_ip_cap", "max_nodes_per_asn", "min_geographic_diversity"]


def build_add_remove(ck, v6, preset, src, obs=None):
    """-> dict with goals (closed implications), hyps, reach conditions, engine (symbolic mode)"""
    fraction = FRACTIONS[preset]
    eng = ck.engine() if obs is None else ck.meta_engine()
    cfg, size, uni, keys, lv, c_some, others, probes, maps0 = inputs(eng, src, v6, fraction)
    touched = [n for n, _, _ in lv] + ["country_counts"]
    cond_of = {n: c for n, _, c in lv}
    cond_of["country_counts"] = c_some
    hyps = list(src.hyps) + [z3.ULE(size, bv(1 << 32, 64))]
    for f in CFG_FIELDS:
        if f not in ("max_network_fraction", "enable_geolocation_check", "min_geographic_diversity"):
            hyps.append(z3.UGE(cfg[f], 1))  # a cap of 0 is outside the claim (the code treats an untracked prefix as admissible)
    for n in touched:
        for k in (keys[n], others[n]):
            hyps.append(inv_at(maps0[n], k))
            hyps.append(z3.ULE(count_at(maps0[n], k), bv(1 << 40, 64)))  # counts are bounded by the number of admitted nodes
    for n, kw in MAPS:
        hyps.append(inv_at(maps0[n], others[n]))
    R = {"eng": eng, "hyps": hyps}
    if obs is None:
        st = State()
        E0 = enforcer_value(eng, cfg, size, maps0)
        rE = eng.alloc(st, E0)
        rU = eng.alloc(st, uni)
        st_c, acc = eng.call(ck.fn(r"security::<impl at [^>]*>::can_accept_unified$"), [rE, rU], st)
        st1, res = eng.call(ck.fn(r"security::<impl at [^>]*>::add_unified$"), [rE, rU], st)
        E1 = eng.load(st1, rE)
        okk = res.idx == bv(0, 8)
        st1b = st1.fork(okk)
        st2, _ = eng.call(ck.fn(r"security::<impl at [^>]*>::remove_unified$"), [rE, rU], st1b)
        E2 = eng.load(st2, rE)
        st3, _ = eng.call(ck.fn(r"security::<impl at [^>]*>::remove_unified$"), [rE, rU], st)
        E3 = eng.load(st3, rE)
        fld = lambda E, n: field(eng, E, "IPDiversityEnforcer", n)  # noqa: E731
        maps1 = {n: fld(E1, n) for n, _ in MAPS}
        maps2 = {n: fld(E2, n) for n, _ in MAPS}
        maps3 = {n: fld(E3, n) for n, _ in MAPS}
        cfg1 = [field(eng, fld(E1, "config"), "IPDiversityConfig", f) for f in CFG_OBS]
        size1 = fld(E1, "network_size")
        pcs = {"can": st_c.pc, "add": st1.pc, "addrm": st2.pc, "rm": st3.pc}
    else:
        acc = z3.BoolVal(bool(obs["can_accept"]))
        okk = z3.BoolVal(bool(obs["add_ok"]))
        maps1 = {n: harness.obs_map(obs, "add." + n, kw, bv(0, 64), probes[n]) for n, kw in MAPS}
        maps2 = {n: harness.obs_map(obs, "addrm." + n, kw, bv(0, 64), probes[n]) for n, kw in MAPS}
        maps3 = {n: harness.obs_map(obs, "rm." + n, kw, bv(0, 64), probes[n]) for n, kw in MAPS}
        cfg1 = [bv(int(x), 64) for x in obs["add.cfg"]]
        size1 = bv(int(obs["add.network_size"]), 64)
        T = z3.BoolVal(True)
        pcs = {"can": T, "add": T, "addrm": okk, "rm": T}
    below = z3.And(*[z3.Implies(c, z3.ULT(count_at(maps0[n], keys[n]), lim)) for n, lim, c in lv])
    G = {}
    G["can_accept/accept_iff_all_levels_below_cap"] = ("can", acc == below)
    G["add/ok_iff_all_levels_below_cap"] = ("add", okk == below)
    incs = []
    for n in touched:
        k = keys[n]
        inc = z3.And(z3.Select(maps1[n].present, k), z3.Select(maps1[n].val, k) == count_at(maps0[n], k) + 1)
        incs.append(z3.If(cond_of[n], inc, same_at(maps0[n], maps1[n], k)))
    G["add/ok_increments_exactly_the_candidates_counters"] = ("add", z3.Implies(okk, z3.And(*incs)))
    G["add/ok_leaves_every_level_within_cap"] = ("add", z3.Implies(okk, z3.And(*[z3.Implies(c, z3.ULE(count_at(maps1[n], keys[n]), lim)) for n, lim, c in lv])))
    frame = []
    for n, kw in MAPS:
        k2 = others[n]
        frame.append(z3.Implies(k2 != keys[n], same_at(maps0[n], maps1[n], k2)) if n in touched else same_at(maps0[n], maps1[n], k2))
    frame.append(z3.And(*[x == cfg[f] for x, f in zip(cfg1, CFG_OBS)]))
    frame.append(size1 == size)
    G["add/nothing_else_changes"] = ("add", z3.And(*frame))
    G["add/failed_admission_consumes_nothing"] = ("add", z3.Implies(z3.Not(okk), z3.And(*[same_at(maps0[n], maps1[n], k) for n, kw in MAPS for k in ([others[n]] + ([keys[n]] if n in keys else []))])))
    G["add/invariant_preserved"] = ("add", z3.And(*[inv_at(maps1[n], keys[n]) for n in touched]))
    G["remove/add_then_remove_restores_every_counter"] = ("addrm", z3.And(*[same_at(maps0[n], maps2[n], k) for n, kw in MAPS for k in ([others[n]] + ([keys[n]] if n in keys else []))]))
    dec = []
    for n in touched:
        k = keys[n]
        c0 = z3.Select(maps0[n].val, k)
        m3 = maps3[n]
        stepdown = z3.If(z3.And(z3.Select(maps0[n].present, k), z3.UGT(c0, 1)), z3.And(z3.Select(m3.present, k), z3.Select(m3.val, k) == c0 - 1),
                         z3.Not(z3.Select(m3.present, k)))
        dec.append(z3.If(cond_of[n], stepdown, same_at(maps0[n], m3, k)))
    G["remove/each_tracked_level_decrements_by_one"] = ("rm", z3.And(*dec))
    frame3 = []
    for n, kw in MAPS:
        k2 = others[n]
        frame3.append(z3.Implies(k2 != keys[n], same_at(maps0[n], maps3[n], k2)) if n in touched else same_at(maps0[n], maps3[n], k2))
    G["remove/nothing_else_changes"] = ("rm", z3.And(*frame3))
    R["goals"] = {g: z3.Implies(pcs[w], f) for g, (w, f) in G.items()}
    R["reach"] = {"add/reach_ok": z3.And(pcs["add"], okk), "add/reach_err": z3.And(pcs["add"], z3.Not(okk))}
    return R


def group_add_remove(ck, v6, preset):
    params = {"v6": v6, "preset": preset, "fraction": FRACTIONS[preset]}
    src = harness.Src()
    R = build_add_remove(ck, v6, preset, src)
    tag = f"{'v6' if v6 else 'v4'}[{preset}]"
    rp = harness.make_replayer(ck, "security", "add_remove", lambda s, obs: build_add_remove(ck, v6, preset, s, obs), params)
    ck.register_src("add_remove", params, src)
    for g, f in R["goals"].items():
        ck.prove(f"{tag}/{g}", R["eng"], R["hyps"], f, on_sat=rp, meta={"goal": g})
    for g, f in R["reach"].items():
        ck.reach(f"{tag}/{g}", R["eng"], R["hyps"], f)
    ck.side(f"{tag}/side", R["eng"], R["hyps"], on_sat=rp)
    ck.out.samples.append({"obligation": f"add/remove {tag}", "state": "arbitrary IPDiversityEnforcer: 8 LruCaches as SMT arrays, 10 symbolic caps, network_size<=2^32, fraction=" + str(FRACTIONS[preset]),
                           "input": "arbitrary analysis (prefixes, asn?, country?, hosting, vpn)", "goals": list(R["goals"])})


def build_analyze(ck, src, obs=None):
    eng = ck.engine() if obs is None else ck.meta_engine()
    ip6 = src.bytes("ip6", 16)
    ip4 = src.bytes("ip4", 4)
    b6, b4 = key_bv(ip6), key_bv(ip4)

    def msk(ipbv, nbytes, total):
        return ipbv & bv(((1 << (8 * nbytes)) - 1) << (8 * (total - nbytes)), 8 * total)

    if obs is None:
        st = State()
        cfg = {f: src.bv("cfg." + f, 64) for f in CFG_FIELDS}
        cfg["max_network_fraction"] = fpv(0.005)
        cfg["enable_geolocation_check"] = src.bool("cfg.enable_geolocation_check")
        maps0 = {n: mk_map(eng, "E." + n, kw, bv(0, 64), cap=50_000) for n, kw in MAPS}
        E0 = enforcer_value(eng, cfg, src.bv("network_size", 64), maps0)
        rE = eng.alloc(st, E0)
        st1, r = eng.call(ck.fn(r"security::<impl at [^>]*>::analyze_ip$"), [rE, ip6], st)
        a = r.pay[0][0]
        F = lambda n: field(eng, a, "IPAnalysis", n)  # noqa: E731
        st2, r4 = eng.call(ck.fn(r"security::<impl at [^>]*>::analyze_ipv4$"), [rE, ip4], st)
        a4 = r4.pay[0][0]
        Gf = lambda n: field(eng, a4, "IPv4Analysis", n)  # noqa: E731
        o = {"v6.s64": key_bv(F("subnet_64")), "v6.s48": key_bv(F("subnet_48")), "v6.s32": key_bv(F("subnet_32")), "v6.asn_some": F("asn").idx == bv(1, 8),
             "v6.country_some": F("country").idx == bv(1, 8), "v6.hosting": F("is_hosting_provider"), "v6.vpn": F("is_vpn_provider"), "v6.ok": r.idx == bv(0, 8),
             "v4.ip": key_bv(Gf("ip_addr")), "v4.s24": key_bv(Gf("subnet_24")), "v4.s16": key_bv(Gf("subnet_16")), "v4.s8": key_bv(Gf("subnet_8")), "v4.ok": r4.idx == bv(0, 8)}
        pcs = (st1.pc, st2.pc)
    else:
        tobv = lambda l: bv(int.from_bytes(bytes(l), "big"), 8 * len(l))  # noqa: E731
        o = {k: (tobv(v) if isinstance(v, list) else z3.BoolVal(bool(v))) for k, v in obs.items()}
        o["v6.ok"] = z3.BoolVal(True)
        o["v4.ok"] = z3.BoolVal(True)
        pcs = (z3.BoolVal(True), z3.BoolVal(True))
    goals = {
        "analyze/v6/prefixes_are_masks_of_the_address": z3.Implies(pcs[0], z3.And(o["v6.ok"], o["v6.s64"] == msk(b6, 8, 16), o["v6.s48"] == msk(b6, 6, 16), o["v6.s32"] == msk(b6, 4, 16),
                                                                              z3.Not(o["v6.asn_some"]), z3.Not(o["v6.country_some"]), z3.Not(o["v6.hosting"]), z3.Not(o["v6.vpn"]))),
        "analyze/v4/prefixes_are_masks_of_the_address": z3.Implies(pcs[1], z3.And(o["v4.ok"], o["v4.ip"] == b4, o["v4.s24"] == msk(b4, 3, 4), o["v4.s16"] == msk(b4, 2, 4), o["v4.s8"] == msk(b4, 1, 4))),
    }
    return {"eng": eng, "goals": goals, "hyps": list(src.hyps)}


def build_misc(ck, preset, src, obs=None):
    """new() starts with no counters; set_network_size only changes the size; get_per_ip_limit = min(cap, max(1, floor(size*fraction)));
    analyze_unified dispatches on the address family"""
    fraction = FRACTIONS[preset]
    eng = ck.engine() if obs is None else ck.meta_engine()
    cfg = {f: src.bv("cfg." + f, 64) for f in CFG_FIELDS}
    cfg["max_network_fraction"] = fpv(fraction)
    cfg["enable_geolocation_check"] = src.bool("cfg.enable_geolocation_check")
    size = src.bv("network_size", 64)
    ip6, ip4 = src.bytes("ip6", 16), src.bytes("ip4", 4)
    hyps = list(src.hyps) + [z3.ULE(size, bv(1 << 32, 64)), z3.UGE(cfg["max_per_ip_cap"], 1)]
    if obs is None:
        st = State()
        config = mk_struct(eng, "IPDiversityConfig", cfg)
        st1, E = eng.call(ck.fn_in("IPDiversityEnforcer", "new"), [config], st)
        rE = eng.alloc(st1, E)
        empties = []
        for n, kw in MAPS:
            m = field(eng, E, "IPDiversityEnforcer", n)
            empties.append(z3.BoolVal(True) if (not isinstance(m, VMap) or m.present is None) else z3.Not(z3.Select(m.present, z3.BitVec("k." + n, kw))))
        size0 = field(eng, E, "IPDiversityEnforcer", "network_size")
        st2, _ = eng.call(ck.fn_in("IPDiversityEnforcer", "set_network_size"), [rE, size], st1)
        E2 = eng.load(st2, rE)
        size2 = field(eng, E2, "IPDiversityEnforcer", "network_size")
        st3, lim = eng.call(ck.fn_in("IPDiversityEnforcer", "get_per_ip_limit"), [rE], st2)
        info = eng.enum_info("IpAddr")
        st4, u6 = eng.call(ck.fn_in("IPDiversityEnforcer", "analyze_unified"), [rE, VEnum(info, bv(1, 8), {1: (ip6,)})], st2)
        st5, u4 = eng.call(ck.fn_in("IPDiversityEnforcer", "analyze_unified"), [rE, VEnum(info, bv(0, 8), {0: (ip4,)})], st2)
        ui = eng.enum_info("UnifiedIPAnalysis")
        is6 = z3.And(u6.idx == bv(0, 8), u6.pay[0][0].idx == bv(ui.index("IPv6"), 8))
        is4 = z3.And(u4.idx == bv(0, 8), u4.pay[0][0].idx == bv(ui.index("IPv4"), 8))
        pc = z3.And(st3.pc, st4.pc, st5.pc)
        o = {"empty": z3.And(*empties), "size0": size0, "size2": size2, "limit": lim, "is6": is6, "is4": is4}
    else:
        pc = z3.BoolVal(True)
        o = {"empty": z3.BoolVal(bool(obs["empty"])), "size0": bv(int(obs["size0"]), 64), "size2": bv(int(obs["size2"]), 64), "limit": bv(int(obs["limit"]), 64),
             "is6": z3.BoolVal(bool(obs["is6"])), "is4": z3.BoolVal(bool(obs["is4"]))}
    G = {"new_enforcer_tracks_nothing": z3.And(o["empty"], o["size0"] == 0),
         "set_network_size_sets_the_size": o["size2"] == size,
         "per_ip_limit_is_min_of_cap_and_floor_of_size_times_fraction_at_least_one": o["limit"] == per_ip_limit(cfg, size, fraction),
         "analyze_unified_dispatches_on_the_address_family": z3.And(o["is6"], o["is4"])}
    return {"eng": eng, "hyps": hyps, "goals": {g: z3.Implies(pc, f) for g, f in G.items()}}


def group_misc(ck, preset):
    src = harness.Src()
    R = build_misc(ck, preset, src)
    params = {"preset": preset, "fraction": FRACTIONS[preset]}
    rp = harness.make_replayer(ck, "security", "misc", lambda s, obs: build_misc(ck, preset, s, obs), params)
    ck.register_src("misc", params, src)
    for g, f in R["goals"].items():
        ck.prove(f"misc[{preset}]/{g}", R["eng"], R["hyps"], f, on_sat=rp, meta={"goal": g})
    ck.side(f"misc[{preset}]/side", R["eng"], R["hyps"], on_sat=rp)


def group_analyze(ck):
    src = harness.Src()
    R = build_analyze(ck, src)
    rp = harness.make_replayer(ck, "security", "analyze", lambda s, obs: build_analyze(ck, s, obs), {})
    ck.register_src("analyze", {}, src)
    for g, f in R["goals"].items():
        ck.prove(g, R["eng"], R["hyps"], f, on_sat=rp, meta={"goal": g})
    ck.side("analyze/side", R["eng"], R["hyps"], on_sat=rp)


def run(tier):
    ck = MirCheck("C13", tier)
    presets = ["default"] if tier == "quick" else ["default", "testnet", "permissive"]
    for p in presets:
        ck.guarded(f"v6[{p}]", lambda p=p: group_add_remove(ck, True, p))
        ck.guarded(f"v4[{p}]", lambda p=p: group_add_remove(ck, False, p))
    if tier == "quick":
        ck.guarded("v4[permissive]", lambda: group_add_remove(ck, False, "permissive"))
    ck.guarded("analyze", lambda: group_analyze(ck))
    for p in (["default", "permissive"] if tier == "quick" else ["default", "testnet", "permissive"]):
        ck.guarded(f"misc[{p}]", lambda p=p: group_misc(ck, p))
    import c13_engine

    c13_engine.register_all(ck, tier)
    import c13_bootstrap

    c13_bootstrap.register_all(ck, tier)
    ck.run_queries()
    ck.out.bounds = [
        "one add / remove / can_accept step from an ARBITRARY enforcer state: 8 LruCaches as SMT arrays over 128/32/64-bit keys, all 10 integer caps symbolic u64, network_size <= 2^32",
        "max_network_fraction in {0.005, 0.1, 1.0} (default / testnet / permissive presets; quick: default + permissive for IPv4)",
        "arbitrary candidate analysis: arbitrary prefixes, ASN present or not, country present or not, hosting / VPN flags",
        "representation invariant assumed and re-proved: every tracked key has count >= 1",
    ]
    ck.out.bounds += c13_engine.BOUNDS + c13_bootstrap.BOUNDS
    ck.out.outside = ["LRU eviction at 50k tracked prefixes", "GeoProvider lookups (geo_provider = None)", "network sizes above 2^32", "other fractions"] + c13_engine.OUTSIDE + c13_bootstrap.OUTSIDE
    ck.out.assumptions = ["cap in force is the one at admission time (set_network_size may lower the dynamic IPv4 cap below existing counts; no retroactive eviction is demanded)",
                          "single-threaded execution"]
    ck.out.trusted.append("z3 4.8.12 / z3 5.1 / cvc5 1.0 portfolio")
    return ck.finish("./check C13 --tier " + tier)


def replay(path):
    return harness.replay_file(path, REBUILD)


def _rebuild(ck, driver, params):
    if driver == "add_peer":
        import c13_bootstrap

        return c13_bootstrap.rebuild(ck, driver, params)
    if driver in ("admission", "admission_step"):
        import c13_engine

        return c13_engine.rebuild(ck, driver, params)
    if driver == "misc":
        return lambda s, obs: build_misc(ck, params["preset"], s, obs)
    if driver == "add_remove":
        return lambda s, obs: build_add_remove(ck, params["v6"], params["preset"], s, obs)["goals"]
    return lambda s, obs: build_analyze(ck, s, obs)


REBUILD = _rebuild
