"""C03 (partial: the single-node store / retrieve kernel and the size limit on every store path).

What IS decided here, each as one call from an ARBITRARY local data store and a routing table holding up to two arbitrary peers:
  * DhtCoreEngine::store (the function behind DhtNetworkManager::{put, store_local, put_with_targets} and behind the remote PUT handler): a value it accepts is afterwards
    held byte for byte under its key by this node; a value over 512 bytes is refused and never enters the store; no other key is touched;
  * DhtNetworkManager::handle_dht_request(Put) (what a replica does with a PUT RPC): PutSuccess only if the value is now held; over 512 bytes -> error, store untouched;
  * DhtCoreEngine::retrieve without transport and DhtNetworkManager::handle_lookup_request(Get / FindValue): the bytes returned are exactly the bytes held under THAT key,
    a held value is found, the store is not modified.
What is NOT decided: the network half (who is targeted, replication outcomes, iterative get, query budgets): multi-node histories over the transport.
"""
import os
import re
import sys

import z3

sys.path.insert(0, os.path.join(os.path.dirname(os.path.abspath(__file__)), "..", "lib", "mirsym"))
import harness  # noqa: E402
from engine import State  # noqa: E402
from harness import MirCheck, Src, fpv, run_async  # noqa: E402
from summaries import OPTION  # noqa: E402
from values import VArr, VBlob, VEnum, VOpaque, VSeq, VStr, VStruct, bv, key_bv, vmap  # noqa: E402

import c02  # noqa: E402
import c05  # noqa: E402

MAX_VALUE = 512
LAYOUT = [[3, 1], [7, 1]]


def engine_value(eng, st, src, hyps, data0):
    """a DhtCoreEngine with an arbitrary data store, a routing table of up to two peers, an arbitrary load table for those peers, no transport, trust selection off"""
    from summaries import mk_time

    table, nodes, lens = c02.build_table(eng, src, LAYOUT, 1)
    hyps += c02.table_hyps(nodes, lens, 1)
    meta_t = VStruct([bv(0, 64), c05.mk_time0("SystemTime"), bv(0, 64), c05.mk_time0("SystemTime")], "DataMetadata")
    meta0 = harness.mk_map(eng, "D.meta", 256, meta_t)
    store = VStruct([data0, meta0], "DataStore")
    rstore = eng.alloc(st, store)
    ladt = eng.struct_adt("LoadMetric")
    load_t = VStruct([fpv(0.0) if "f64" in str(t) else (bv(0, 64)) for f, t in ladt.fields], ladt.name)
    loads = src.map("LB.loads", 256, load_t, {f"n{n[4]}": n[2] for n in nodes})
    lb = c05.mk_named(eng, "LoadBalancer", {f: (eng.alloc(st, loads) if f == "node_loads" else fpv(0.8)) for f, _ in eng.struct_adt("LoadBalancer").fields}) \
        if set(f for f, _ in eng.struct_adt("LoadBalancer").fields) == {"node_loads", "_rebalance_threshold"} else None
    if lb is None:
        raise harness.SymError("LoadBalancer fields changed: " + str(eng.struct_adt("LoadBalancer").fields))
    adt = eng.struct_adt("DhtCoreEngine")
    vals = []
    for f, _ in adt.fields:
        if f == "data_store":
            vals.append(rstore)
        elif f == "routing_table":
            vals.append(eng.alloc(st, table))
        elif f == "load_balancer":
            vals.append(eng.alloc(st, lb))
        elif f == "node_id":
            vals.append(VStruct([VStruct([VArr([bv(0, 8)] * 32)], "DhtKey")], "NodeId"))
        elif f in ("transport", "trust_peer_selector"):
            vals.append(VEnum(OPTION, bv(0, 8), {0: ()}))
        else:
            vals.append(VOpaque("DhtCoreEngine." + f))
    # the per-key access counter is incremented once per read: a u64 counter cannot have been driven to its maximum (stated bound)
    return eng.alloc(st, VStruct(vals, "DhtCoreEngine")), rstore, meta0, nodes


def manager_value(eng, st, re_, local):
    import c02_reply

    cfg = c02_reply.mk_fill(eng, "DhtNetworkConfig", {"local_peer_id": VStr(local)})
    return eng.alloc(st, c02_reply.mk_fill(eng, "DhtNetworkManager", {"dht": re_, "config": cfg}))


def build_store(ck, via, src, obs=None, t=3):
    """t: index of the first bit in which the key differs from the local id (concrete per case: the bucket walk of the storage-peer selection starts there)"""
    eng = ck.engine(unwind=260) if obs is None else ck.meta_engine()
    eng.seq_cap = 24
    keyb = c02.key_with_target(src, t)
    kbv = key_bv(keyb)
    okey = key_bv(src.bytes("other", 32))
    val_id, val_len = src.bv("value.id", 64), src.bv("value.len", 64)
    probes = {"cand": kbv, "other": okey}
    data0 = src.map("D.data", 256, VBlob(bv(0, 64), bv(0, 64)), probes)
    hyps = list(src.hyps) + [kbv != okey, z3.ULE(val_len, bv(1 << 20, 64))]
    local = src.bv("local.peer_id", 64)
    if obs is None:
        st = State()
        re_, rstore, meta0, nodes = engine_value(eng, st, src, hyps, data0)
        hyps += [h for h in src.hyps if not any(h is x for x in hyps)]
        dk = VStruct([keyb], "DhtKey")
        value = VBlob(val_id, val_len)
        if via == "engine_store":
            st2, out = run_async(eng, ck.fn_in("DhtCoreEngine", "store"), [re_, eng.alloc(st, dk), value], st)
            accepted = out.idx == bv(0, 8)
        else:
            oinfo = eng.enum_info("DhtNetworkOperation")
            names = c05.variant_fields(eng, "DhtNetworkOperation", "Put")
            fv = {"key": keyb, "value": value}
            op = VEnum(oinfo, bv(oinfo.index("Put"), 8), {oinfo.index("Put"): tuple(fv[n] for n in names)})
            import c02_reply

            msg = c02_reply.mk_fill(eng, "DhtNetworkMessage", {"message_id": VStr(bv(5, 64)), "source": VStr(src.bv("msg.source", 64)), "payload": op})
            rm = manager_value(eng, st, re_, local)
            st2, out = run_async(eng, ck.fn_in("DhtNetworkManager", "handle_dht_request"), [rm, eng.alloc(st, msg)], st)
            rinfo = eng.enum_info("DhtNetworkResult")
            accepted = z3.And(out.idx == bv(0, 8), out.pay[0][0].idx == bv(rinfo.index("PutSuccess"), 8))
        pc = st2.pc
        data1 = eng.load(st2, rstore).f[0]
    else:
        pc = z3.BoolVal(True)
        accepted = z3.BoolVal(bool(obs["accepted"]))
        data1 = harness.obs_map({k: (None if v is None else [v["id"], v["len"]]) for k, v in obs["data"].items()}, "D.data", 256, VBlob(bv(0, 64), bv(0, 64)), probes)
    d1 = c05.harness_sel(data1, kbv)
    too_big = z3.UGT(val_len, bv(MAX_VALUE, 64))
    G = {}
    G["oversized_value_is_refused_and_never_enters_the_store"] = z3.Implies(too_big, z3.And(z3.Not(accepted), c05.same_blob_at(data0, data1, kbv)))
    G["an_accepted_value_is_afterwards_held_byte_for_byte_by_this_node"] = z3.Implies(accepted, z3.And(z3.Select(data1.present, kbv), d1.id == val_id, d1.len == val_len))
    G["a_refused_value_leaves_the_store_unchanged"] = z3.Implies(z3.Not(accepted), c05.same_blob_at(data0, data1, kbv))
    G["no_other_key_is_touched"] = c05.same_blob_at(data0, data1, okey)
    R = {"eng": eng, "hyps": hyps, "goals": {g: z3.Implies(pc, f) for g, f in G.items()}}
    R["reach"] = {"reach_accepted": z3.And(pc, accepted), "reach_refused": z3.And(pc, z3.Not(accepted))}
    if obs is None:
        R["reach"]["reach_accepted_with_peers_known"] = z3.And(pc, accepted, *[n[3] for n in nodes])
    return R


def build_get(ck, via, src, obs=None):
    eng = ck.engine(unwind=260) if obs is None else ck.meta_engine()
    eng.seq_cap = 24
    keyb = src.bytes("key", 32)
    kbv = key_bv(keyb)
    okey = key_bv(src.bytes("other", 32))
    probes = {"cand": kbv, "other": okey}
    data0 = src.map("D.data", 256, VBlob(bv(0, 64), bv(0, 64)), probes)
    hyps = list(src.hyps) + [kbv != okey]
    local = src.bv("local.peer_id", 64)
    kindv = src.bv("kind", 8)
    hyps.append(z3.ULE(kindv, bv(1, 8)))
    d0 = c05.harness_sel(data0, kbv)
    if obs is None:
        st = State()
        re_, rstore, meta0, nodes = engine_value(eng, st, src, hyps, data0)
        hyps += [h for h in src.hyps if not any(h is x for x in hyps)]
        hyps.append(z3.ULT(z3.Select(meta0.val.f[2], kbv), bv(1 << 63, 64)))
        dk = VStruct([keyb], "DhtKey")
        if via == "engine_retrieve":
            st2, out = run_async(eng, ck.fn_in("DhtCoreEngine", "retrieve"), [re_, eng.alloc(st, dk)], st)
            okk = out.idx == bv(0, 8)
            opt = out.pay[0][0]
            found = z3.And(okk, opt.idx == bv(1, 8))
            got = opt.pay[1][0]
        else:
            import c02_reply

            rm = manager_value(eng, st, re_, local)
            # a lookup that does not find the value goes on to the node list: that half is C02's subject
            def h_local(e, s_, a, d, c, m):
                return VStruct([VSeq([], bv(0, 64))], "ReadyFuture")

            eng.summaries.insert(0, (re.compile(r"^DhtNetworkManager::find_closest_nodes_local$"), h_local, "DhtNetworkManager::find_closest_nodes_local -> no nodes (the node list of a lookup reply is C02's subject)"))
            kinfo = eng.enum_info("LookupRequestKind")
            kind = VEnum(kinfo, z3.If(kindv == 0, bv(kinfo.index("Get"), 8), bv(kinfo.index("FindValue"), 8)), {kinfo.index("Get"): (), kinfo.index("FindValue"): ()})
            st2, out = run_async(eng, ck.fn_in("DhtNetworkManager", "handle_lookup_request"), [rm, eng.alloc(st, keyb), eng.alloc(st, VStr(src.bv("requester", 64))), kind], st)
            okk = out.idx == bv(0, 8)
            r = out.pay[0][0]
            rinfo = eng.enum_info("DhtNetworkResult")
            gi, vi = rinfo.index("GetSuccess"), rinfo.index("ValueFound")
            found = z3.And(okk, z3.Or(r.idx == bv(gi, 8), r.idx == bv(vi, 8)))
            gv = r.pay[gi][c05.variant_fields(eng, "DhtNetworkResult", "GetSuccess").index("value")]
            vv = r.pay[vi][c05.variant_fields(eng, "DhtNetworkResult", "ValueFound").index("value")]
            from values import merge

            got = merge(r.idx == bv(gi, 8), gv, vv)
            key_ok = z3.And(z3.Implies(r.idx == bv(gi, 8), key_bv(r.pay[gi][c05.variant_fields(eng, "DhtNetworkResult", "GetSuccess").index("key")]) == kbv),
                            z3.Implies(r.idx == bv(vi, 8), key_bv(r.pay[vi][c05.variant_fields(eng, "DhtNetworkResult", "ValueFound").index("key")]) == kbv))
        pc = st2.pc
        data1 = eng.load(st2, rstore).f[0]
        got_id, got_len = got.id, got.len
        if via == "engine_retrieve":
            key_ok = z3.BoolVal(True)
    else:
        pc = z3.BoolVal(True)
        okk = z3.BoolVal(bool(obs["ok"]))
        found = z3.BoolVal(obs["value"] is not None)
        got_id = bv(int(obs["value"]["id"]) if obs["value"] else 0, 64)
        got_len = bv(int(obs["value"]["len"]) if obs["value"] else 0, 64)
        key_ok = z3.BoolVal(bool(obs.get("key_ok", True)))
        data1 = harness.obs_map({k: (None if v is None else [v["id"], v["len"]]) for k, v in obs["data"].items()}, "D.data", 256, VBlob(bv(0, 64), bv(0, 64)), probes)
    held = z3.Select(data0.present, kbv)
    G = {}
    G["returned_bytes_are_exactly_the_bytes_held_under_that_key"] = z3.Implies(found, z3.And(held, got_id == d0.id, got_len == d0.len, key_ok))
    G["a_held_value_is_found"] = z3.Implies(held, found)
    G["a_lookup_does_not_modify_the_store"] = z3.And(okk, c05.same_blob_at(data0, data1, kbv), c05.same_blob_at(data0, data1, okey))
    return {"eng": eng, "hyps": hyps, "goals": {g: z3.Implies(pc, f) for g, f in G.items()}, "reach": {"reach_found": z3.And(pc, found), "reach_not_found": z3.And(pc, z3.Not(found))}}


CASES = [("store", "engine_store", "store[DhtCoreEngine::store, key in bucket 3]"), ("store", "manager_put", "store[DhtNetworkManager::handle_dht_request(Put), key in bucket 3]"),
         ("get", "engine_retrieve", "get[DhtCoreEngine::retrieve, no transport]"), ("get", "manager_lookup", "get[DhtNetworkManager::handle_lookup_request(Get/FindValue)]")]


def builder_for(ck, driver, params):
    if params["op"] == "store":
        return lambda s, obs: build_store(ck, params["via"], s, obs, params.get("t", 3))
    return lambda s, obs: build_get(ck, params["via"], s, obs)


def register(ck, tag, params):
    src = Src()
    b = builder_for(ck, None, params)
    R = b(src, None)
    mod = "core_engine" if params["via"].startswith("engine") else "dht_network_manager"
    driver = "kv_" + params["via"]
    rp = harness.make_replayer(ck, mod, driver, lambda s, obs: b(s, obs), params)
    ck.register_src(driver, params, src)
    for g, f in R["goals"].items():
        ck.prove(f"{tag}/{g}", R["eng"], R["hyps"], f, on_sat=rp, meta={"goal": g})
    for g, f in R["reach"].items():
        ck.reach(f"{tag}/{g}", R["eng"], R["hyps"], f)
    ck.side(f"{tag}/side", R["eng"], R["hyps"], on_sat=rp)
    ck.out.samples.append({"obligation": tag, "goals": list(R["goals"])})


def run(tier):
    ck = MirCheck("C03", tier)
    cases = list(CASES)
    if tier != "quick":
        cases += [("store", "engine_store", "store[DhtCoreEngine::store, key in bucket 200]"), ("store", "engine_store", "store[DhtCoreEngine::store, key in bucket 7]")]
    for op, via, tag in cases:
        params = {"op": op, "via": via}
        if "bucket 200" in tag:
            params["t"] = 200
        if "bucket 7" in tag:
            params["t"] = 7
        ck.guarded(tag, lambda params=params, tag=tag: register(ck, tag, params))
    ck.run_queries()
    ck.out.bounds = ["one call from an ARBITRARY local data store (HashMap<DhtKey, Vec<u8>> as SMT arrays, values as opaque byte strings with identity and symbolic length <= 2^20), "
                     "a routing table holding up to two arbitrary peers (buckets 3 and 7, local id 0), an arbitrary load table for those peers, no transport, trust selection off; "
                     "store: key with its first differing bit at a listed position (3; thorough also 7, 200) and otherwise symbolic; lookups: arbitrary 256-bit key; one arbitrary other key"]
    ck.out.outside = ["the network half of the property: which peers a put targets, replication outcomes, the iterative get and its query budget, interleavings of puts and gets on several nodes",
                      "DhtCoreEngine::retrieve with a transport (remote queries)", "trust-weighted storage-peer selection enabled (C16 decides the selector)"]
    ck.out.assumptions = ["values are opaque byte strings: equal identity and length <=> equal bytes", "single-task execution; tokio locks uncontended"]
    ck.out.trusted.append("z3 4.8.12 / z3 5.1 / cvc5 1.0 portfolio")
    return ck.finish("./check C03 --tier " + tier)


def replay(path):
    return harness.replay_file(path, lambda ck, driver, params: builder_for(ck, driver, params))
