"""C13, bootstrap-cache admission — BootstrapManager::add_peer (async; its only awaits are the ant-quic cache insertion, summarised as
an immediately ready future).  From an ARBITRARY diversity enforcer and an arbitrary verdict of the join rate limiter (C14's subject):
a refused admission consumes no diversity slot, an accepted one passed both gates and counts the peer exactly once per level.
"""
import os
import re
import sys

import z3

sys.path.insert(0, os.path.join(os.path.dirname(os.path.abspath(__file__)), "..", "lib", "mirsym"))
import c13  # noqa: E402
import harness  # noqa: E402
from engine import State  # noqa: E402
from harness import Src, run_async  # noqa: E402
from summaries import RESULT  # noqa: E402
from summaries_coll import IPADDR  # noqa: E402
from values import UNIT, VArr, VEnum, VOpaque, VSeq, VStr, VStruct, bv, key_bv  # noqa: E402


def msk(ipbv, nbytes, total):
    return ipbv & bv(((1 << (8 * nbytes)) - 1) << (8 * (total - nbytes)), 8 * total)


def build(ck, v6, preset, naddr, src, obs=None):
    fraction = c13.FRACTIONS[preset]
    eng = ck.engine() if obs is None else ck.meta_engine()
    cfg, size, uni, keys, lv, c_some, others, probes, maps0 = c13.inputs(eng, src, True, fraction)
    ip6, ip4 = src.bytes("x.ip6", 16), src.bytes("x.ip4", 4)
    port = src.bv("x.port", 16)
    rl_ok = src.bool("rate_limiter_ok")
    # the address the enforcer sees: the IPv6 address itself, or the IPv4-mapped one
    seen = key_bv(ip6) if v6 else z3.Concat(bv(0, 80), bv(0xFFFF, 16), key_bv(ip4))
    hyps = list(src.hyps) + [z3.ULE(size, bv(1 << 32, 64)), z3.UGE(port, 1)]
    hyps += [keys["subnet_64_counts"] == msk(seen, 8, 16), keys["subnet_48_counts"] == msk(seen, 6, 16), keys["subnet_32_counts"] == msk(seen, 4, 16)]
    hyps += [z3.Not(src.bool("a.asn_some")), z3.Not(src.bool("a.country_some")), z3.Not(src.bool("a.hosting")), z3.Not(src.bool("a.vpn"))]
    for f in c13.CFG_FIELDS:
        if f not in ("max_network_fraction", "enable_geolocation_check", "min_geographic_diversity"):
            hyps.append(z3.UGE(cfg[f], 1))
    allkeys = [(n, k) for n, kw in c13.MAPS for k in probes[n].values()]
    for n, k in allkeys:
        hyps.append(c13.inv_at(maps0[n], k))
        hyps.append(z3.ULE(c13.count_at(maps0[n], k), bv(1 << 40, 64)))
    if obs is None:
        st = State()
        E0 = c13.enforcer_value(eng, cfg, size, maps0)

        def h_rate(e, s, args, dty, callee, m):
            return VEnum(RESULT, z3.If(rl_ok, bv(0, 8), bv(1, 8)), {0: (UNIT,), 1: (VOpaque("JoinRateLimitError"),)})

        def h_ready(e, s, args, dty, callee, m):
            return VStruct([UNIT], "ReadyFuture")

        def h_opaque(e, s, args, dty, callee, m):
            return VOpaque("ant_quic::PeerId")

        eng.summaries.insert(0, (re.compile(r"^(rate_limit::)?JoinRateLimiter::check_join_allowed$"), h_rate,
                                 "JoinRateLimiter::check_join_allowed -> arbitrary verdict (the join limiter is C14's subject)"))
        eng.summaries.insert(0, (re.compile(r"^(ant_quic::(bootstrap_cache::)?)?BootstrapCache::add_seed$|^AntBootstrapCache::add_seed$"), h_ready,
                                 "ant-quic BootstrapCache::add_seed -> immediately ready, no effect on the diversity enforcer"))
        eng.summaries.insert(0, (re.compile(r"^(\w+::)*string_to_ant_peer_id$"), h_opaque, "string_to_ant_peer_id (SHA-256 of the peer id) -> opaque"))
        ipv = VEnum(IPADDR, bv(1 if v6 else 0, 8), {0: (ip4,), 1: (ip6,)})
        sock = VStruct([ipv, port], "SocketAddr")
        addrs = VSeq([sock] * naddr, bv(naddr, 64))
        mgr = c13_struct_fill(eng, "BootstrapManager", {"diversity_enforcer": E0, "rate_limiter": VOpaque("JoinRateLimiter"), "cache": eng.alloc(st, VOpaque("cache"))})
        rM = eng.alloc(st, mgr)
        st1, out = run_async(eng, ck.fn_in("BootstrapManager", "add_peer"), [rM, VStr(bv(4242, 64)), addrs], st)
        ok = out.idx == bv(0, 8)
        E1 = c13.field(eng, eng.load(st1, rM), "BootstrapManager", "diversity_enforcer")
        maps1 = {n: c13.field(eng, E1, "IPDiversityEnforcer", n) for n, _ in c13.MAPS}
        pc = st1.pc
    else:
        ok = z3.BoolVal(bool(obs["ok"]))
        maps1 = {n: harness.obs_map(obs, "post." + n, kw, bv(0, 64), probes[n]) for n, kw in c13.MAPS}
        pc = z3.BoolVal(True)
    below = z3.And(*[z3.Implies(c, z3.ULT(c13.count_at(maps0[n], keys[n]), lim)) for n, lim, c in lv])
    unchanged = z3.And(*[c13.same_at(maps0[n], maps1[n], k) for n, k in allkeys])
    G = {}
    G["refused_admission_consumes_no_diversity_slot"] = z3.Implies(z3.Not(ok), unchanged)
    G["admitted_only_past_the_rate_limiter_and_below_every_cap"] = z3.Implies(ok, z3.And(rl_ok, below))
    if naddr == 0:
        G["empty_address_list_is_refused"] = z3.Not(ok)
    incs = []
    for n, lim, c in lv:
        k = keys[n]
        inc = z3.And(z3.Select(maps1[n].present, k), z3.Select(maps1[n].val, k) == c13.count_at(maps0[n], k) + 1)
        incs.append(z3.If(c, inc, c13.same_at(maps0[n], maps1[n], k)))
    G["admission_counts_the_peer_exactly_once_per_level"] = z3.Implies(ok, z3.And(*incs))
    G["peer_below_every_cap_and_within_the_rate_limit_is_admitted"] = z3.Implies(z3.And(rl_ok, below, z3.BoolVal(naddr > 0)), ok)
    frame = [z3.Implies(others[n] != keys[n], c13.same_at(maps0[n], maps1[n], others[n])) if n in keys else c13.same_at(maps0[n], maps1[n], others[n]) for n, _ in c13.MAPS]
    G["unrelated_counters_untouched"] = z3.And(*frame)
    R = {"eng": eng, "hyps": hyps, "goals": {g: z3.Implies(pc, f) for g, f in G.items()}}
    R["reach"] = {"reach_admitted": z3.And(pc, ok)} if naddr else {"reach_refused": z3.And(pc, z3.Not(ok))}
    if naddr:
        R["reach"]["reach_refused_by_diversity"] = z3.And(pc, z3.Not(ok), rl_ok)
    return R


def c13_struct_fill(eng, tyname, vals):
    adt = eng.struct_adt(tyname)
    missing = set(vals) - {f for f, _ in adt.fields}
    if missing:
        raise harness.SymError(f"struct {tyname} has no field(s) {missing}")
    return VStruct([vals[f] if f in vals else VOpaque(f"{tyname}.{f}") for f, _ in adt.fields], adt.name)


def cases(tier):
    cs = [(True, "default", 1), (False, "default", 1), (True, "default", 0)]
    if tier != "quick":
        cs += [(False, "permissive", 2), (True, "testnet", 2)]
    return cs


def register(ck, v6, preset, naddr):
    params = {"v6": True, "x_v6": v6, "preset": preset, "fraction": c13.FRACTIONS[preset], "naddr": naddr}
    tag = f"bootstrap[{'v6' if v6 else 'v4-mapped'},{preset},{naddr} address(es)]"
    src = Src()
    R = build(ck, v6, preset, naddr, src)
    rp = harness.make_replayer(ck, "bootstrap_manager", "add_peer", lambda s, obs: build(ck, v6, preset, naddr, s, obs), params)
    ck.register_src("add_peer", params, src)
    for g, f in R["goals"].items():
        ck.prove(f"{tag}/{g}", R["eng"], R["hyps"], f, on_sat=rp, meta={"goal": g})
    for g, f in R["reach"].items():
        ck.reach(f"{tag}/{g}", R["eng"], R["hyps"], f)
    ck.side(f"{tag}/side", R["eng"], R["hyps"], on_sat=rp)
    ck.out.samples.append({"obligation": tag, "state": "arbitrary IPDiversityEnforcer behind BootstrapManager, arbitrary join-rate-limiter verdict", "goals": list(R["goals"])})


def register_all(ck, tier):
    for (v6, preset, naddr) in cases(tier):
        ck.guarded(f"bootstrap[{v6},{preset},{naddr}]", lambda v6=v6, preset=preset, naddr=naddr: register(ck, v6, preset, naddr))


BOUNDS = ["bootstrap-cache admission: BootstrapManager::add_peer (async, executed as a state machine) from an ARBITRARY diversity enforcer and an arbitrary join-rate-limiter verdict; "
          "0..2 addresses, first address IPv6 or IPv4 (seen by the enforcer as its IPv4-mapped IPv6 address), symbolic ip"]
OUTSIDE = ["the ant-quic bootstrap cache itself (add_seed is an immediately ready no-op), cache persistence"]


def rebuild(ck, driver, params):
    return lambda s, obs: build(ck, params["x_v6"], params["preset"], params["naddr"], s, obs)
