"""native replay of C14 counterexamples (placeholder until the Rust replay harness exists)"""


def make(ck, kind, params):
    return None


def replay_file(path):
    return 2
