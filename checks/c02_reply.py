"""C02 (second sentence) — the node list a node hands out for a key: DhtNetworkManager::find_closest_nodes_local (routing table merged with
connected peers) and DhtNetworkManager::handle_lookup_request (the reply to a remote find-node).

A *peer* is identified by its DHT key (the routing table files it under NodeId = key, the connected-peer book under its peer id with the key
stored next to it).  The answer must be exactly the closest known peers, each ONCE (strictly ascending XOR distance <=> no key twice <=> one
identifier per peer), never the local node, and the reply to a remote request never names the requester under its own id.

Strings are abstract identities; hex(NodeId) is an uninterpreted injective function of the 256-bit id.
"""
import os
import re
import sys

import z3

sys.path.insert(0, os.path.join(os.path.dirname(os.path.abspath(__file__)), "..", "lib", "mirsym"))
import harness  # noqa: E402
from engine import State  # noqa: E402
from harness import Src, fpv, run_async  # noqa: E402
from summaries import OPTION  # noqa: E402
from values import VArr, VEnum, VOpaque, VSeq, VStr, VStruct, bv, flatten, key_bv, vmap  # noqa: E402

import c02  # noqa: E402

HEX = z3.Function("hex_of_key", z3.BitVecSort(256), z3.BitVecSort(64))
PEERS = ("pa", "pb")
K_REPLY = 8  # DHT_CLOSEST_NODES_COUNT


def mk_fill(eng, tyname, vals):
    adt = eng.struct_adt(tyname)
    missing = set(vals) - {f for f, _ in adt.fields}
    if missing:
        raise harness.SymError(f"struct {tyname} has no field(s) {missing}")
    return VStruct([vals[f] if f in vals else VOpaque(f"{tyname}.{f}") for f, _ in adt.fields], adt.name)


def peer_template(eng):
    from summaries import mk_time

    return c02.mk_struct(eng, "DhtPeerInfo", {
        "peer_id": VStr(bv(0, 64)), "dht_key": VArr([bv(0, 8)] * 32), "addresses": VSeq([VStr(bv(0, 64))], bv(0, 64)),
        "last_seen": mk_time(bv(0, 64), bv(0, 32), "Instant"), "is_connected": z3.BoolVal(False),
        "avg_latency": mk_time(bv(0, 64), bv(0, 32), "Duration"), "reliability_score": fpv(1.0)})


def install(eng):
    def h_hex(e, st, a, d, c, m):
        from summaries import deref

        v = deref(e, st, a[0])
        return VStr(HEX(key_bv(v)))

    eng.summaries.insert(0, (re.compile(r"^<(dht::core_engine::|core_engine::)?NodeId as ToString>::to_string$"), h_hex,
                             "NodeId::to_string (hex of the id) -> uninterpreted injective function of the 256-bit id"))


def hexname(src, memo, k):
    """the abstract string identity of hex(k): symbolic = the uninterpreted injective function; concrete = a fresh identity per distinct key with the top bit set
    (all other strings of a case have the top bit clear)"""
    if not src.concrete:
        return HEX(k)
    kv = z3.simplify(k).as_long()
    if kv not in memo:
        memo[kv] = (1 << 63) | (len(memo) + 1)
    return bv(memo[kv], 64)


def mid_bytes(tag):
    return {b_: (37 * (tag + 1) + 11 * b_) & 0xFF for b_ in range(1, 31)}


def build_local(ck, layout, t, src, obs=None, lookup=False, fixed=True):
    """fixed: bytes 1..30 of every id and of the key are concrete (different per peer; a connected peer's key is either a table peer's key or has its own
    middle bytes): the sort of four entries with fully symbolic 256-bit keys does not finish within the cap"""
    eng = ck.engine(unwind=260) if obs is None else ck.meta_engine()
    eng.seq_cap = 24
    memo = {}
    keyb = c02.key_with_target(src, t, {b_: (5 * b_ + 3) & 0xFF for b_ in range(1, 31)} if fixed else None)
    kbv = key_bv(keyb)
    count = src.bv("count", 64) if not lookup else bv(K_REPLY, 64)
    table, nodes, lens = c02.build_table(eng, src, layout, 1, fixed=mid_bytes if fixed else None)
    L1, L2 = src.bv("local.peer_id", 64), src.bv("local.transport_id", 64)
    L2some = src.bool("local.transport_id_some")
    requester = src.bv("requester", 64)
    ids = {p: src.bv(p, 64) for p in PEERS}
    tmpl = peer_template(eng)
    peers0 = src.map("P.peers", 64, tmpl, ids, finite={p: VStr(ids[p]) for p in PEERS})
    adt = eng.struct_adt("DhtPeerInfo")
    fi = {f: i for i, (f, _) in enumerate(adt.fields)}
    ent = {}
    for p in PEERS:
        v = vmap(peers0.val, lambda a, p=p: z3.Select(a, ids[p]))
        ent[p] = (z3.Select(peers0.present, ids[p]), v)
    hyps = list(src.hyps) + c02.table_hyps(nodes, lens, 1) + [ids["pa"] != ids["pb"]] + ([] if lookup else [z3.ULE(count, bv(5, 64))])
    localhex = hexname(src, memo, bv(0, 256))
    tkeys = [n[2] for n in nodes]
    # hex rendering is injective and never collides with a peer id / the local names (a peer id is not the hex of another peer's key):
    # hex strings have the top bit of their identity set, every other string of the case has it clear
    allk = tkeys + [bv(0, 256)]
    for a in range(len(allk)):
        hyps.append(z3.Extract(63, 63, hexname(src, memo, allk[a])) == 1)
        for b in range(a):
            hyps.append(z3.Implies(allk[a] != allk[b], hexname(src, memo, allk[a]) != hexname(src, memo, allk[b])))
    for s_ in list(ids.values()) + [L1, L2, requester]:
        hyps.append(z3.Extract(63, 63, s_) == 0)
    known = []  # (key, valid, name)
    for n in nodes:
        known.append((n[2], n[3], hexname(src, memo, n[2]), "t"))
    for p in PEERS:
        pres, v = ent[p]
        pk = key_bv(v.f[fi["dht_key"]])
        addr = v.f[fi["addresses"]]
        conn = v.f[fi["is_connected"]]
        is_local = z3.Or(ids[p] == L1, z3.And(L2some, ids[p] == L2))
        hyps += [z3.ULE(addr.len, bv(1, 64)), v.f[fi["peer_id"]].id == ids[p], pk != bv(0, 256)]
        if fixed:
            own = z3.And(*[v.f[fi["dht_key"]].elems[b_] == bv(c_, 8) for b_, c_ in mid_bytes(10 + PEERS.index(p)).items()])
            hyps.append(z3.Or(own, *[pk == tk for tk in tkeys]))
        known.append((pk, z3.And(pres, conn, addr.len != 0, z3.Not(is_local)), ids[p], "p"))
    # distinct connected peers have distinct keys (the key is a collision-free hash of the peer id)
    hyps.append(key_bv(ent["pa"][1].f[fi["dht_key"]]) != key_bv(ent["pb"][1].f[fi["dht_key"]]))
    if obs is None:
        install(eng)
        st = State()
        rt = eng.alloc(st, table)
        eadt = eng.struct_adt("DhtCoreEngine")
        evals = []
        for f, _ in eadt.fields:
            if f == "routing_table":
                evals.append(rt)
            elif f in ("trust_peer_selector", "transport"):
                evals.append(VEnum(OPTION, bv(0, 8), {0: ()}))
            elif f == "node_id":
                evals.append(VStruct([VStruct([VArr([bv(0, 8)] * 32)], "DhtKey")], "NodeId"))
            else:
                evals.append(VOpaque("DhtCoreEngine." + f))
        re_ = eng.alloc(st, VStruct(evals, "DhtCoreEngine"))
        cfg = mk_fill(eng, "DhtNetworkConfig", {"local_peer_id": VStr(L1)})
        mgr = mk_fill(eng, "DhtNetworkManager", {
            "dht": re_, "dht_peers": eng.alloc(st, peers0), "config": cfg,
            "local_transport_peer_id": VEnum(OPTION, z3.If(L2some, bv(1, 8), bv(0, 8)), {0: (), 1: (VStr(L2),)}),
            "local_dht_key_hex": VStr(localhex), "local_dht_key": VStruct([VArr([bv(0, 8)] * 32)], "DhtKey")})
        rm = eng.alloc(st, mgr)
        rk = eng.alloc(st, keyb)
        if lookup:
            kinfo = eng.enum_info("LookupRequestKind")
            kind = VEnum(kinfo, bv(kinfo.index("FindNode"), 8), {kinfo.index("FindNode"): ()})
            st2, out = run_async(eng, ck.fn_in("DhtNetworkManager", "handle_lookup_request"), [rm, rk, eng.alloc(st, VStr(requester)), kind], st)
            rinfo = eng.enum_info("DhtNetworkResult")
            r = out.pay[0][0]
            okk = out.idx == bv(0, 8)
            vi, ni = rinfo.index("NodesFound"), rinfo.index("GetNotFound")
            import c05

            res = r.pay[vi][c05.variant_fields(eng, "DhtNetworkResult", "NodesFound").index("nodes")]
            found = r.idx == bv(vi, 8)
            rl = z3.If(found, res.len, bv(0, 64))
            shape_ok = z3.And(okk, z3.Or(found, r.idx == bv(ni, 8)), z3.Implies(found, res.len != 0))
        else:
            st2, res = run_async(eng, ck.fn_in("DhtNetworkManager", "find_closest_nodes_local"), [rm, rk, count], st)
            rl = res.len
            shape_ok = z3.BoolVal(True)
        pc = st2.pc
        nadt = eng.struct_adt("DHTNode")
        nf = {f: i for i, (f, _) in enumerate(nadt.fields)}
        rkeys, rnames, rkeyed = [], [], []
        for e in res.elems:
            ck_ = e.f[nf["cached_dht_key"]]
            rkeyed.append(ck_.idx == bv(1, 8))
            rkeys.append(key_bv(ck_.pay[1][0]))
            rnames.append(e.f[nf["peer_id"]].id)
    else:
        pc = z3.BoolVal(True)
        shape_ok = z3.BoolVal(bool(obs.get("shape_ok", True)))
        rl = bv(len(obs["result"]), 64)
        rkeys = [bv(int.from_bytes(bytes(r["key"]), "big"), 256) for r in obs["result"]]
        rkeyed = [z3.BoolVal(True) for _ in obs["result"]]
        rnames = []
        for r in obs["result"]:
            if r.get("name_is_hex"):
                rnames.append(hexname(src, memo, bv(int.from_bytes(bytes(r["key"]), "big"), 256)))
            else:
                rnames.append(bv(int(r["name"]), 64))
    P = len(rkeys)
    inres = [z3.ULT(bv(p, 64), rl) for p in range(P)]
    # a peer may be known twice (table + connected): the set of known PEERS is the set of distinct keys
    def is_known(k, nm=None):
        return z3.Or(*[z3.And(v, k == kk, (nm == name) if nm is not None else z3.BoolVal(True)) for (kk, v, name, _) in known])

    # the requester (a peer, i.e. a key) is whoever is known under the requesting id
    def is_requester(i):
        return z3.Or(*[z3.And(known[j][1], known[j][0] == known[i][0], known[j][2] == requester) for j in range(len(known))])

    req_excluded = lambda i: z3.And(known[i][1], z3.Not(is_requester(i))) if lookup else known[i][1]  # noqa: E731
    distinct_total = bv(0, 64)
    for i, (kk, v, name, _) in enumerate(known):
        first = z3.And(v, *[z3.Not(z3.And(known[j][1], known[j][0] == kk)) for j in range(i)])
        distinct_total = distinct_total + z3.If(first, bv(1, 64), bv(0, 64))
    G = {}
    G["every_entry_carries_its_dht_key"] = z3.And(*[z3.Implies(inres[p], rkeyed[p]) for p in range(P)]) if P else z3.BoolVal(True)
    G["answer_is_strictly_ascending_in_xor_distance_hence_names_each_peer_once"] = z3.And(
        *[z3.Implies(inres[p + 1], z3.ULT(kbv ^ rkeys[p], kbv ^ rkeys[p + 1])) for p in range(P - 1)]) if P > 1 else z3.BoolVal(True)
    G["every_entry_is_a_known_peer_under_one_of_its_own_names"] = z3.And(*[z3.Implies(inres[p], is_known(rkeys[p], rnames[p])) for p in range(P)]) if P else z3.BoolVal(True)
    G["the_local_node_is_never_listed"] = z3.And(*[z3.Implies(inres[p], z3.And(rnames[p] != L1, z3.Implies(L2some, rnames[p] != L2), rnames[p] != localhex, rkeys[p] != bv(0, 256)))
                                                   for p in range(P)]) if P else z3.BoolVal(True)
    sel = [z3.Or(*[z3.And(inres[p], rkeys[p] == kk) for p in range(P)]) if P else z3.BoolVal(False) for (kk, v, name, _) in known]
    G["no_known_peer_outside_the_answer_is_closer_than_one_inside"] = z3.And(
        *[z3.Implies(z3.And(req_excluded(i), z3.Not(sel[i]), inres[p]), z3.UGT(kbv ^ known[i][0], kbv ^ rkeys[p])) for i in range(len(known)) for p in range(P)]) if P else z3.BoolVal(True)
    if lookup:
        G["reply_is_well_formed"] = shape_ok
        G["reply_never_names_the_requester_under_its_own_id"] = z3.And(*[z3.Implies(inres[p], rnames[p] != requester) for p in range(P)]) if P else z3.BoolVal(True)
        G["reply_never_exceeds_the_cap"] = z3.ULE(rl, bv(K_REPLY, 64))
        # the requester may be dropped: at most one entry fewer than min(cap, known peers)
        mn = z3.If(z3.ULE(bv(K_REPLY, 64), distinct_total), bv(K_REPLY, 64), distinct_total)
        G["reply_lists_all_closest_known_peers_but_possibly_the_requester"] = z3.And(z3.ULE(rl, mn), z3.UGE(rl + 1, mn))
    else:
        G["answer_has_min_of_count_and_known_peers_entries"] = rl == z3.If(z3.ULE(count, distinct_total), count, distinct_total)
    both = z3.Or(*[z3.And(known[i][1], known[j][1], known[i][0] == known[j][0]) for i in range(len(known)) for j in range(i) if known[i][3] != known[j][3]])
    return {"eng": eng, "hyps": hyps, "goals": {g: z3.Implies(pc, f) for g, f in G.items()},
            "reach": {"reach_nonempty": z3.And(pc, rl != 0), "reach_peer_in_table_and_connected": z3.And(pc, both, rl != 0)}}


PROTOCOL_CAP = 20  # MAX_FIND_NODE_COUNT: no find-node reply names more peers than this


def build_cap(ck, src, obs=None):
    """handle_lookup_request never asks for (hence never replies with) more than the protocol cap of nodes, whatever the node knows: the merge function is
    replaced by a recorder that returns an arbitrary short list"""
    eng = ck.engine() if obs is None else ck.meta_engine()
    requester = src.bv("requester", 64)
    kindv = src.bv("kind", 8)
    hyps = list(src.hyps) + [z3.ULE(kindv, bv(2, 8))]
    if obs is None:
        st = State()
        asked = []

        def h_local(e, s_, a, d, c, m):
            asked.append((s_.pc, a[2]))
            nadt = e.struct_adt("DHTNode")
            node = VStruct([{"peer_id": VStr(e.fresh_bv("n.peer", 64)), "address": VStr(e.fresh_bv("n.addr", 64)), "distance": VEnum(OPTION, bv(0, 8), {0: ()}), "reliability": fpv(1.0),
                             "cached_dht_key": VEnum(OPTION, bv(0, 8), {0: ()})}[f] for f, _ in nadt.fields], nadt.name)
            return VStruct([VSeq([node], e.fresh_bv("n.len", 64) & bv(1, 64))], "ReadyFuture")

        def h_retrieve(e, s_, a, d, c, m):
            from summaries import RESULT

            return VStruct([VEnum(RESULT, bv(0, 8), {0: (VEnum(OPTION, bv(0, 8), {0: ()}),)})], "ReadyFuture")

        eng.summaries.insert(0, (re.compile(r"^DhtNetworkManager::find_closest_nodes_local$"), h_local, "RECORDER DhtNetworkManager::find_closest_nodes_local -> arbitrary list of at most one node; the requested count is recorded"))
        eng.summaries.insert(0, (re.compile(r"^DhtNetworkManager::retrieve_local_from_core$"), h_retrieve, "DhtNetworkManager::retrieve_local_from_core -> value not held locally (the value path is C03's subject)"))
        kinfo = eng.enum_info("LookupRequestKind")
        order = ["FindNode", "FindValue", "Get"]
        idx = bv(kinfo.index(order[2]), 8)
        for i in (1, 0):
            idx = z3.If(kindv == i, bv(kinfo.index(order[i]), 8), idx)
        kind = VEnum(kinfo, idx, {kinfo.index(n): () for n in order})
        mgr = mk_fill(eng, "DhtNetworkManager", {"config": mk_fill(eng, "DhtNetworkConfig", {"local_peer_id": VStr(src.bv("local.peer_id", 64))})})
        st2, out = run_async(eng, ck.fn_in("DhtNetworkManager", "handle_lookup_request"),
                             [eng.alloc(st, mgr), eng.alloc(st, VArr([bv(0, 8)] * 32)), eng.alloc(st, VStr(requester)), kind], st)
        pc = st2.pc
        if not asked:
            raise harness.SymError("handle_lookup_request no longer calls find_closest_nodes_local")
        within = z3.And(*[z3.Implies(p_, z3.ULE(c_, bv(PROTOCOL_CAP, 64))) for p_, c_ in asked])
        reached = z3.Or(*[p_ for p_, _ in asked])
    else:
        pc = z3.BoolVal(True)
        within = z3.BoolVal(int(obs["reply_len"]) <= PROTOCOL_CAP)
        reached = z3.BoolVal(True)
    return {"eng": eng, "hyps": hyps, "goals": {"reply_to_a_remote_lookup_never_exceeds_the_protocol_cap": z3.Implies(pc, within)}, "reach": {"reach_merge": z3.And(pc, reached)}}


def cases(tier):
    cs = [({"layout": [[3, 1], [7, 1]], "t": 3, "lookup": False}, "reply_merge[find_closest_nodes_local, table buckets 3,7 + two connected peers]"),
          ({"layout": [[3, 1], [7, 1]], "t": 3, "lookup": True}, "reply_merge[handle_lookup_request FIND_NODE, table buckets 3,7 + two connected peers]")]
    cs.append(({"cap": True}, "reply_merge[handle_lookup_request: requested node count]"))
    if tier != "quick":
        cs.append(({"layout": [[0, 1], [255, 1]], "t": 200, "lookup": False}, "reply_merge[find_closest_nodes_local, table buckets 0,255 + two connected peers]"))
    return cs


def builder_for(ck, driver, params):
    if params.get("cap"):
        return lambda s, obs: build_cap(ck, s, obs)
    return lambda s, obs: build_local(ck, params["layout"], params["t"], s, obs, params.get("lookup", False), params.get("fixed", True))


def register(ck, tag, params):
    src = Src()
    driver = "lookup_cap" if params.get("cap") else "closest_local"
    b = builder_for(ck, driver, params)
    R = b(src, None)
    rp = harness.make_replayer(ck, "dht_network_manager", driver, lambda s, obs: b(s, obs), params)
    ck.register_src(driver, params, src)
    for g, f in R["goals"].items():
        ck.prove(f"{tag}/{g}", R["eng"], R["hyps"], f, on_sat=rp, meta={"goal": g})
    for g, f in R["reach"].items():
        ck.reach(f"{tag}/{g}", R["eng"], R["hyps"], f)
    ck.side(f"{tag}/side", R["eng"], R["hyps"], on_sat=rp)
    ck.out.samples.append({"obligation": tag, "goals": list(R["goals"])})


def register_all(ck, tier):
    for params, tag in cases(tier):
        ck.guarded(tag, lambda params=params, tag=tag: register(ck, tag, params))
