"""C13, engine level — DhtCoreEngine::{add_node, evict_node, handle_node_failure} (async, executed as state machines):
the IP-diversity slots of a peer are taken exactly once when it is admitted to the routing table, are not consumed by an
admission that fails at a later gate (geographic gate, full bucket), and are given back when the peer leaves the table by
eviction or failure.

State: an ARBITRARY enforcer (c13.inputs: 8 LruCaches as SMT arrays, symbolic caps), an arbitrary geographic enforcer (7 regions),
an arbitrary well-formed routing table (c02 layout, symbolic bucket capacity), an arbitrary validator verdict, an arbitrary
candidate (id in a concrete bucket or the local id; address text = socket address / bare ip / neither, with symbolic ip).
"""
import os
import re
import sys

import z3

sys.path.insert(0, os.path.join(os.path.dirname(os.path.abspath(__file__)), "..", "lib", "mirsym"))
import c02  # noqa: E402
import c13  # noqa: E402
import harness  # noqa: E402
from engine import State  # noqa: E402
from harness import Src, mk_map, run_async  # noqa: E402
from summaries import OPTION  # noqa: E402
from summaries_coll import ADDR_IS_V6, ADDR_KIND, ADDR_PORT, ADDR_V4, ADDR_V6  # noqa: E402
from values import VArr, VEnum, VOpaque, VStr, VStruct, bv, flatten, key_bv, vmap  # noqa: E402

LAYOUT = [3, 7]
B = 2
XTAG = 999
XADDR = bv(1000 + XTAG, 64)
NREGIONS = 7


def mk_struct_fill(eng, tyname, vals):
    adt = eng.struct_adt(tyname)
    missing = set(vals) - {f for f, _ in adt.fields}
    if missing:
        raise harness.SymError(f"struct {tyname} has no field(s) {missing}")
    return VStruct([vals[f] if f in vals else VOpaque(f"{tyname}.{f}") for f, _ in adt.fields], adt.name)


def msk(ipbv, nbytes, total):
    return ipbv & bv(((1 << (8 * nbytes)) - 1) << (8 * (total - nbytes)), 8 * total)


def analysis_template(eng, v6):
    z8 = bv(0, 8)
    opt_asn = VEnum(OPTION, z8, {0: (), 1: (bv(0, 32),)})
    opt_country = VEnum(OPTION, z8, {0: (), 1: (VStr(bv(0, 64)),)})
    tail = {"asn": opt_asn, "country": opt_country, "is_hosting_provider": z3.BoolVal(False), "is_vpn_provider": z3.BoolVal(False), "reputation_score": z3.FPVal(0.0, z3.Float64())}
    if v6:
        return c13.mk_struct(eng, "IPAnalysis", dict(tail, subnet_64=VArr([z8] * 16), subnet_48=VArr([z8] * 16), subnet_32=VArr([z8] * 16)))
    return c13.mk_struct(eng, "IPv4Analysis", dict(tail, ip_addr=VArr([z8] * 4), subnet_24=VArr([z8] * 4), subnet_16=VArr([z8] * 4), subnet_8=VArr([z8] * 4)))


def slots_template(eng):
    """value template of DhtCoreEngine.diversity_slots: HashMap<NodeId, DiversitySlots{ip: Option<UnifiedIPAnalysis>, region: Option<GeographicRegion>}>"""
    ui = eng.enum_info("UnifiedIPAnalysis")
    uni = VEnum(ui, bv(0, 8), {ui.index("IPv4"): (analysis_template(eng, False),), ui.index("IPv6"): (analysis_template(eng, True),)})
    gi = eng.enum_info("GeographicRegion")
    region = VEnum(gi, bv(0, 8), {i: () for i in range(len(gi.variants))})
    return c13.mk_struct(eng, "DiversitySlots", {"ip": VEnum(OPTION, bv(0, 8), {0: (), 1: (uni,)}), "region": VEnum(OPTION, bv(0, 8), {0: (), 1: (region,)})})


def empty_slots_map(eng):
    """a DhtCoreEngine.diversity_slots map in which no peer holds anything"""
    from values import VMap

    ks = z3.BitVecSort(256)
    return VMap(ks, z3.K(ks, z3.BoolVal(False)), vmap(slots_template(eng), lambda l: z3.K(ks, l)), bv(0, 64), None)


def tracks_slots(eng):
    return "diversity_slots" in [f for f, _ in eng.struct_adt("DhtCoreEngine").fields]


def build(ck, v6, preset, xb, op, src, obs=None):
    """scenario: add_node(x); if it succeeded, `op`(x) with op in {evict, failure}.  Goals compare the enforcer before / after."""
    fraction = c13.FRACTIONS[preset]
    eng = ck.engine(unwind=260) if obs is None else ck.meta_engine()
    eng.seq_cap = 24
    cap = src.bv("bucket_cap", 64)
    table, nodes, lens = c02.build_table(eng, src, LAYOUT, B, max_size=cap)
    cfg, size, uni, keys, lv, c_some, others, probes, maps0 = c13.inputs(eng, src, v6, fraction)
    # the candidate: id, address text
    xbytes = VArr([bv(0, 8)] * 32) if xb is None else c02.id_in_bucket(src, "x", xb)
    xbv = key_bv(xbytes)
    kind = src.bv("x.addr_kind", 8)
    port = src.bv("x.port", 16)
    ip6, ip4 = src.bytes("x.ip6", 16), src.bytes("x.ip4", 4)
    b6, b4 = key_bv(ip6), key_bv(ip4)
    vok = src.bool("validator_ok")
    gmax = src.bv("G.max", 64)
    gprobes = {f"r{i}": bv(i, 8) for i in range(NREGIONS)}
    gmap0 = src.map("G.regions", 8, bv(0, 64), gprobes)
    parsed = z3.ULE(kind, bv(1, 8))
    hyps = list(src.hyps) + c02.table_hyps(nodes, lens, B) + [z3.ULE(size, bv(1 << 32, 64)), z3.UGE(cap, 1), z3.ULE(cap, 8), z3.ULE(kind, bv(2, 8)), z3.UGE(port, 1)]
    hyps += [z3.ULE(ln, cap) for ln in lens.values()]
    # address texts: the candidate's is (kind, ip); the listed peers' texts are no addresses at all (the native driver uses "addr<tag>")
    hyps += [ADDR_KIND(XADDR) == kind, ADDR_IS_V6(XADDR) == z3.BoolVal(bool(v6)), ADDR_V6(XADDR) == b6, ADDR_V4(XADDR) == b4, ADDR_PORT(XADDR) == port]
    hyps += [ADDR_KIND(bv(1000 + n[4], 64)) == bv(2, 8) for n in nodes]
    # the analysis the engine computes (no geo provider): prefixes are masks of the ip, no ASN / country, not hosting / VPN
    if v6:
        hyps += [keys["subnet_64_counts"] == msk(b6, 8, 16), keys["subnet_48_counts"] == msk(b6, 6, 16), keys["subnet_32_counts"] == msk(b6, 4, 16)]
    else:
        hyps += [keys["ipv4_32_counts"] == b4, keys["ipv4_24_counts"] == msk(b4, 3, 4), keys["ipv4_16_counts"] == msk(b4, 2, 4)]
    hyps += [z3.Not(src.bool("a.asn_some")), z3.Not(src.bool("a.country_some")), z3.Not(src.bool("a.hosting")), z3.Not(src.bool("a.vpn"))]
    for f in c13.CFG_FIELDS:
        if f not in ("max_network_fraction", "enable_geolocation_check", "min_geographic_diversity"):
            hyps.append(z3.UGE(cfg[f], 1))
    touched = [n for n, _, _ in lv]
    for n, kw in c13.MAPS:
        for k in ([others[n]] + ([keys[n]] if n in keys else [])):
            hyps.append(c13.inv_at(maps0[n], k))
            hyps.append(z3.ULE(c13.count_at(maps0[n], k), bv(1 << 40, 64)))
    for lbl, k in gprobes.items():
        hyps.append(z3.ULE(z3.Select(gmap0.val, k), bv(1 << 40, 64)))
    listed0 = z3.Or(*[z3.And(n[3], n[2] == xbv) for n in nodes])
    tracked = tracks_slots(eng)
    slots0 = src.map("S.slots", 256, slots_template(eng), {"x": xbv}) if tracked else None
    holds0 = z3.Select(slots0.present, xbv) if tracked else z3.BoolVal(False)
    if obs is None:
        st = State()
        rt = eng.alloc(st, table)
        rE = eng.alloc(st, c13.enforcer_value(eng, cfg, size, maps0))
        rG = eng.alloc(st, VStruct([gmap0, gmax], "GeographicDiversityEnforcer"))
        sm = mk_struct_fill(eng, "SecurityMetricsCollector", {"nodes_evicted_total": src.bv("sm.evicted", 64),
                                                               "eviction_by_reason": eng.alloc(st, empty_map(64))})
        hyps.append(z3.ULT(src.bv("sm.evicted", 64), bv(1 << 62, 64)))

        def h_validate(e, s, args, dty, callee, m):
            return vok

        eng.summaries.insert(0, (re.compile(r"^CloseGroupValidator::validate$"), h_validate,
                                 "CloseGroupValidator::validate -> arbitrary verdict (the close-group gate is C15's subject)"))
        local = VStruct([VStruct([VArr([bv(0, 8)] * 32)], "DhtKey")], "NodeId")
        fields = {"routing_table": rt, "ip_diversity_enforcer": rE, "geographic_diversity_enforcer": rG, "node_id": local,
                  "close_group_validator": eng.alloc(st, VOpaque("validator")), "security_metrics": eng.alloc(st, sm),
                  "trust_peer_selector": VEnum(OPTION, bv(0, 8), {0: ()}), "transport": VEnum(OPTION, bv(0, 8), {0: ()})}
        if tracked:
            fields["diversity_slots"] = eng.alloc(st, slots0)
        re_ = eng.alloc(st, mk_struct_fill(eng, "DhtCoreEngine", fields))
        ni = c02.mk_struct(eng, "core_engine::NodeInfo", {"id": VStruct([VStruct([xbytes], "DhtKey")], "NodeId"), "address": VStr(XADDR),
                                                         "last_seen": harness_time(), "capacity": capacity(eng)})
        st1, out1 = run_async(eng, ck.fn_in("DhtCoreEngine", "add_node"), [re_, ni], st)
        ok = out1.idx == bv(0, 8)
        E1 = eng.load(st1, rE)
        T1 = eng.load(st1, rt)
        st1b = st1.fork(ok)
        xid = VStruct([VStruct([xbytes], "DhtKey")], "NodeId")
        if op == "evict":
            info = eng.enum_info("EvictionReason")
            rej = VEnum(info, bv(info.index("CloseGroupRejection"), 8), {info.index("CloseGroupRejection"): ()})
            st2, _ = run_async(eng, ck.fn_in("DhtCoreEngine", "evict_node"), [re_, eng.alloc(st1b, xid), rej], st1b)
        else:
            st2, _ = run_async(eng, ck.fn_in("DhtCoreEngine", "handle_node_failure"), [re_, xid], st1b)
        E2 = eng.load(st2, rE)
        fld = lambda E, n: c13.field(eng, E, "IPDiversityEnforcer", n)  # noqa: E731
        maps1 = {n: fld(E1, n) for n, _ in c13.MAPS}
        maps2 = {n: fld(E2, n) for n, _ in c13.MAPS}
        T2 = eng.load(st2, rt)
        listed1 = listed_in(eng, T1, xbv)
        listed2 = listed_in(eng, T2, xbv)
        pcs = {"add": st1.pc, "after": st2.pc}
    else:
        ok = z3.BoolVal(bool(obs["add_ok"]))
        maps1 = {n: harness.obs_map(obs, "add." + n, kw, bv(0, 64), probes[n]) for n, kw in c13.MAPS}
        maps2 = {n: harness.obs_map(obs, "after." + n, kw, bv(0, 64), probes[n]) for n, kw in c13.MAPS}
        listed1 = z3.BoolVal(bool(obs["listed_after_add"]))
        listed2 = z3.BoolVal(bool(obs["listed_after_op"]))
        pcs = {"add": z3.BoolVal(True), "after": ok}
    allkeys = [(n, k) for n, kw in c13.MAPS for k in ([others[n]] + ([keys[n]] if n in keys else []))]
    below = z3.And(*[z3.Implies(c, z3.ULT(c13.count_at(maps0[n], keys[n]), lim)) for n, lim, c in lv])
    fresh = z3.And(z3.Not(listed0), z3.Not(holds0))  # re-admission of a listed peer is the subject of the one-step obligations (trees that track per-peer slots)
    G = {}
    G["refused_admission_consumes_no_slot"] = ("add", z3.Implies(z3.And(fresh, z3.Not(ok)), z3.And(*[c13.same_at(maps0[n], maps1[n], k) for n, k in allkeys])))
    G["admitted_only_while_every_level_is_below_its_cap"] = ("add", z3.Implies(z3.And(ok, parsed, xbv != 0, fresh), below))
    incs = []
    for n in touched:
        k = keys[n]
        inc = z3.And(z3.Select(maps1[n].present, k), z3.Select(maps1[n].val, k) == c13.count_at(maps0[n], k) + 1)
        incs.append(z3.If(z3.And([c for m_, _, c in lv if m_ == n][0], parsed), inc, c13.same_at(maps0[n], maps1[n], k)))
    G["admission_counts_the_peer_exactly_once_per_level"] = ("add", z3.Implies(z3.And(ok, xbv != 0, fresh), z3.And(*incs)))
    G["the_local_node_takes_no_slot"] = ("add", z3.Implies(xbv == 0, z3.And(*[c13.same_at(maps0[n], maps1[n], k) for n, k in allkeys])))
    G["slot_holder_is_listed"] = ("add", z3.Implies(z3.And(ok, xbv != 0), listed1))
    what = "eviction" if op == "evict" else "failure"
    G[f"{what}_gives_every_slot_back"] = ("after", z3.Implies(fresh, z3.And(*[c13.same_at(maps0[n], maps2[n], k) for n, k in allkeys])))
    G[f"{what}_removes_the_peer_from_the_table"] = ("after", z3.Not(listed2))
    R = {"eng": eng, "hyps": hyps, "goals": {g: z3.Implies(pcs[w], f) for g, (w, f) in G.items()}}
    if xb is None:
        R["reach"] = {"reach_ok": z3.And(pcs["add"], ok, parsed), "reach_refused": z3.And(pcs["add"], z3.Not(ok))}
    else:
        R["reach"] = {"reach_admitted": z3.And(pcs["add"], ok, parsed, fresh), "reach_refused_after_the_ip_gate": z3.And(pcs["add"], z3.Not(ok), vok, parsed, below, fresh)}
    return R


def empty_map(key_width):
    from values import VMap

    ks = z3.BitVecSort(key_width)
    return VMap(ks, z3.K(ks, z3.BoolVal(False)), z3.K(ks, bv(0, 64)), bv(0, 64), None)


# ------------------------------------------------------------------------------------------ one inductive step (trees that track per-peer slots)

V6MAPS = ["subnet_64_counts", "subnet_48_counts", "subnet_32_counts"]
V4MAPS = ["ipv4_32_counts", "ipv4_24_counts", "ipv4_16_counts"]
V6FIELDS = {"subnet_64_counts": "subnet_64", "subnet_48_counts": "subnet_48", "subnet_32_counts": "subnet_32"}
V4FIELDS = {"ipv4_32_counts": "ip_addr", "ipv4_24_counts": "subnet_24", "ipv4_16_counts": "subnet_16"}


def record_view(eng, slots, idbv):
    """what the peer `idbv` holds according to the slots map: -> dict map-name -> (active condition, key term)"""
    rec = vmap(slots.val, lambda a: z3.Select(a, idbv))
    present = z3.Select(slots.present, idbv)
    dadt = eng.struct_adt("DiversitySlots")
    ipopt = rec.f[dadt.field_index("ip")]
    ip_some = z3.And(present, ipopt.idx == bv(1, 8))
    uni = ipopt.pay[1][0]
    ui = eng.enum_info("UnifiedIPAnalysis")
    i4, i6 = ui.index("IPv4"), ui.index("IPv6")
    a4, a6 = uni.pay[i4][0], uni.pay[i6][0]
    is4, is6 = z3.And(ip_some, uni.idx == bv(i4, 8)), z3.And(ip_some, uni.idx == bv(i6, 8))
    F4 = lambda n: a4.f[eng.struct_adt("IPv4Analysis").field_index(n)]  # noqa: E731
    F6 = lambda n: a6.f[eng.struct_adt("IPAnalysis").field_index(n)]  # noqa: E731
    out = {}
    for n in V6MAPS:
        out[n] = (is6, key_bv(F6(V6FIELDS[n])))
    for n in V4MAPS:
        out[n] = (is4, key_bv(F4(V4FIELDS[n])))
    asn4, asn6 = F4("asn"), F6("asn")
    c4, c6 = F4("country"), F6("country")
    out["asn_counts"] = (z3.Or(z3.And(is4, asn4.idx == bv(1, 8)), z3.And(is6, asn6.idx == bv(1, 8))), z3.If(is6, asn6.pay[1][0], asn4.pay[1][0]))
    out["country_counts"] = (z3.Or(z3.And(is4, c4.idx == bv(1, 8)), z3.And(is6, c6.idx == bv(1, 8))), z3.If(is6, c6.pay[1][0].id, c4.pay[1][0].id))
    return present, ip_some, is4, is6, out


def wf(v):
    """well-formedness of an arbitrary value of the template's type: every enum discriminant names a variant"""
    out = []
    if isinstance(v, VEnum):
        out.append(z3.ULT(v.idx, bv(len(v.info.variants), 8)))
        for k in v.pay:
            for x in v.pay[k]:
                out += wf(x)
    elif isinstance(v, VStruct):
        for x in v.f:
            out += wf(x)
    return out


def pin_key(src, name, term):
    """named copy of a key term (so that the native driver can probe it); byte-wise for address keys"""
    w = term.size()
    if w in (128,) or (w == 32 and name.split(".")[1].startswith("ipv4")):
        n = w // 8
        bs = [src.pin(f"{name}.{i}", z3.Extract(w - 1 - 8 * i, w - 8 - 8 * i, term)) for i in range(n)]
        return key_bv(VArr(bs))
    return src.pin(name, term)


def build_step(ck, v6, preset, xb, op, src, obs=None):
    """one call of add_node / evict_node / handle_node_failure for a peer x that may already be listed and may already hold
    an arbitrary slot record; goals = conservation of every counter against the records, holders are listed, frame"""
    fraction = c13.FRACTIONS[preset]
    eng = ck.engine(unwind=260) if obs is None else ck.meta_engine()
    eng.seq_cap = 24
    if not tracks_slots(eng):
        raise harness.SymError("DhtCoreEngine has no diversity_slots field: per-peer slot records are not tracked on this tree")
    cap = src.bv("bucket_cap", 64)
    table, nodes, lens = c02.build_table(eng, src, LAYOUT, B, max_size=cap)
    xbytes = c02.id_in_bucket(src, "x", xb)
    xbv = key_bv(xbytes)
    obytes = src.bytes("o", 32)
    obv = key_bv(obytes)
    tmpl = slots_template(eng)
    slots0 = src.map("S.slots", 256, tmpl, {"x": xbv, "other": obv})
    pres0, ipsome0, _, _, held0 = record_view(eng, slots0, xbv)
    heldkeys = {n: pin_key(src, f"held.{n}", k) for n, (_, k) in held0.items()}
    extra = {n: {"held": k} for n, k in heldkeys.items()}
    cfg, size, uni, keys, lv, c_some, others, probes, maps0 = c13.inputs(eng, src, v6, fraction, extra=extra)
    kind = src.bv("x.addr_kind", 8)
    port = src.bv("x.port", 16)
    ip6, ip4 = src.bytes("x.ip6", 16), src.bytes("x.ip4", 4)
    b6, b4 = key_bv(ip6), key_bv(ip4)
    vok = src.bool("validator_ok")
    gmax = src.bv("G.max", 64)
    gprobes = {f"r{i}": bv(i, 8) for i in range(NREGIONS)}
    gmap0 = src.map("G.regions", 8, bv(0, 64), gprobes)
    parsed = z3.ULE(kind, bv(1, 8))
    hyps = list(src.hyps) + c02.table_hyps(nodes, lens, B) + [z3.ULE(size, bv(1 << 32, 64)), z3.UGE(cap, 1), z3.ULE(cap, 8), z3.ULE(kind, bv(2, 8)), z3.UGE(port, 1), obv != xbv]
    hyps += [z3.ULE(ln, cap) for ln in lens.values()]
    hyps += [ADDR_KIND(XADDR) == kind, ADDR_IS_V6(XADDR) == z3.BoolVal(bool(v6)), ADDR_V6(XADDR) == b6, ADDR_V4(XADDR) == b4, ADDR_PORT(XADDR) == port]
    hyps += [ADDR_KIND(bv(1000 + n[4], 64)) == bv(2, 8) for n in nodes]
    if v6:
        hyps += [keys["subnet_64_counts"] == msk(b6, 8, 16), keys["subnet_48_counts"] == msk(b6, 6, 16), keys["subnet_32_counts"] == msk(b6, 4, 16)]
    else:
        hyps += [keys["ipv4_32_counts"] == b4, keys["ipv4_24_counts"] == msk(b4, 3, 4), keys["ipv4_16_counts"] == msk(b4, 2, 4)]
    hyps += [z3.Not(src.bool("a.asn_some")), z3.Not(src.bool("a.country_some")), z3.Not(src.bool("a.hosting")), z3.Not(src.bool("a.vpn"))]
    for f in c13.CFG_FIELDS:
        if f not in ("max_network_fraction", "enable_geolocation_check", "min_geographic_diversity"):
            hyps.append(z3.UGE(cfg[f], 1))
    allkeys = []
    for n, kw in c13.MAPS:
        for lbl, k in probes[n].items():
            allkeys.append((n, lbl, k))
            hyps.append(c13.inv_at(maps0[n], k))
            hyps.append(z3.ULE(c13.count_at(maps0[n], k), bv(1 << 40, 64)))
    for lbl, k in gprobes.items():
        hyps.append(z3.ULE(z3.Select(gmap0.val, k), bv(1 << 40, 64)))
        hyps.append(z3.Implies(z3.Select(gmap0.present, k), z3.UGE(z3.Select(gmap0.val, k), 1)))
    listed0 = z3.Or(*[z3.And(n[3], n[2] == xbv) for n in nodes])
    for idv in (xbv, obv):
        hyps += wf(vmap(slots0.val, lambda a: z3.Select(a, idv)))
    # pre-state invariants (re-proved below): a holder is listed, and what it holds is counted
    hyps.append(z3.Implies(pres0, listed0))
    for n, (act, k) in held0.items():
        hyps.append(z3.Implies(act, z3.UGE(c13.count_at(maps0[n], heldkeys[n]), 1)))
    if obs is None:
        st = State()
        rt = eng.alloc(st, table)
        rE = eng.alloc(st, c13.enforcer_value(eng, cfg, size, maps0))
        rG = eng.alloc(st, VStruct([gmap0, gmax], "GeographicDiversityEnforcer"))
        rS = eng.alloc(st, slots0)
        sm = mk_struct_fill(eng, "SecurityMetricsCollector", {"nodes_evicted_total": src.bv("sm.evicted", 64), "eviction_by_reason": eng.alloc(st, empty_map(64))})
        hyps.append(z3.ULT(src.bv("sm.evicted", 64), bv(1 << 62, 64)))

        def h_validate(e, s, args, dty, callee, m):
            return vok

        eng.summaries.insert(0, (re.compile(r"^CloseGroupValidator::validate$"), h_validate,
                                 "CloseGroupValidator::validate -> arbitrary verdict (the close-group gate is C15's subject)"))
        local = VStruct([VStruct([VArr([bv(0, 8)] * 32)], "DhtKey")], "NodeId")
        fields = {"routing_table": rt, "ip_diversity_enforcer": rE, "geographic_diversity_enforcer": rG, "node_id": local, "diversity_slots": rS,
                  "close_group_validator": eng.alloc(st, VOpaque("validator")), "security_metrics": eng.alloc(st, sm),
                  "trust_peer_selector": VEnum(OPTION, bv(0, 8), {0: ()}), "transport": VEnum(OPTION, bv(0, 8), {0: ()})}
        re_ = eng.alloc(st, mk_struct_fill(eng, "DhtCoreEngine", fields))
        xid = VStruct([VStruct([xbytes], "DhtKey")], "NodeId")
        if op == "add":
            ni = c02.mk_struct(eng, "core_engine::NodeInfo", {"id": xid, "address": VStr(XADDR), "last_seen": harness_time(), "capacity": capacity(eng)})
            st1, out1 = run_async(eng, ck.fn_in("DhtCoreEngine", "add_node"), [re_, ni], st)
            ok = out1.idx == bv(0, 8)
        elif op == "evict":
            info = eng.enum_info("EvictionReason")
            rej = VEnum(info, bv(info.index("CloseGroupRejection"), 8), {info.index("CloseGroupRejection"): ()})
            st1, _ = run_async(eng, ck.fn_in("DhtCoreEngine", "evict_node"), [re_, eng.alloc(st, xid), rej], st)
            ok = z3.BoolVal(True)
        elif op == "evict_sec":
            # the security eviction entry point, for an ARBITRARY close-group failure reason
            finfo = eng.enum_info("CloseGroupFailure")
            fr = src.bv("failure_reason", 8)
            hyps.append(z3.ULT(fr, bv(len(finfo.variants), 8)))
            why = VEnum(finfo, fr, {i: () for i in range(len(finfo.variants))})
            st1, _ = run_async(eng, ck.fn_in("DhtCoreEngine", "evict_node_for_security"), [re_, eng.alloc(st, xid), why], st)
            ok = z3.BoolVal(True)
        else:
            st1, _ = run_async(eng, ck.fn_in("DhtCoreEngine", "handle_node_failure"), [re_, xid], st)
            ok = z3.BoolVal(True)
        E1 = eng.load(st1, rE)
        maps1 = {n: c13.field(eng, E1, "IPDiversityEnforcer", n) for n, _ in c13.MAPS}
        slots1 = eng.load(st1, rS)
        listed1 = listed_in(eng, eng.load(st1, rt), xbv)
        pc = st1.pc
    else:
        ok = z3.BoolVal(bool(obs.get("ok", True)))
        maps1 = {n: harness.obs_map(obs, "post." + n, kw, bv(0, 64), probes[n]) for n, kw in c13.MAPS}
        slots1 = harness.obs_map(obs, "post.slots", 256, tmpl, {"x": xbv, "other": obv})
        listed1 = z3.BoolVal(bool(obs["listed"]))
        pc = z3.BoolVal(True)
    pres1, ipsome1, is41, is61, held1 = record_view(eng, slots1, xbv)
    one = lambda c: z3.If(c, bv(1, 64), bv(0, 64))  # noqa: E731
    cons = []
    for n, lbl, k in allkeys:
        h0 = z3.And(held0[n][0], held0[n][1] == k)
        h1 = z3.And(held1[n][0], held1[n][1] == k)
        cons.append(c13.count_at(maps1[n], k) == c13.count_at(maps0[n], k) - one(h0) + one(h1))
    G = {}
    G["every_counter_changes_by_exactly_what_the_peers_record_changes"] = z3.And(*cons)
    G["counter_invariant_preserved"] = z3.And(*[c13.inv_at(maps1[n], k) for n, lbl, k in allkeys])
    G["a_peer_that_holds_slots_is_listed"] = z3.Implies(pres1, listed1)
    G["records_stay_well_formed"] = z3.Implies(pres1, z3.And(*wf(vmap(slots1.val, lambda a: z3.Select(a, xbv)))))
    oth_same = []
    for a, b_ in zip(flatten(vmap(slots0.val, lambda a: z3.Select(a, obv))), flatten(vmap(slots1.val, lambda a: z3.Select(a, obv)))):
        oth_same.append(z3.Or(z3.fpEQ(a, b_), z3.And(z3.fpIsNaN(a), z3.fpIsNaN(b_))) if z3.is_fp(a) else a == b_)
    G["records_of_other_peers_are_untouched"] = z3.And(z3.Select(slots1.present, obv) == z3.Select(slots0.present, obv), z3.Implies(z3.Select(slots0.present, obv), z3.And(*oth_same)))
    if op == "add":
        fam = is61 if v6 else is41
        match = z3.And(*[z3.And(held1[n][0], held1[n][1] == keys[n]) for n in (V6MAPS if v6 else V4MAPS)])
        G["recorded_slots_are_those_of_the_presented_address"] = z3.And(z3.Implies(z3.And(ok, ipsome1), z3.And(fam, match, z3.Not(held1["asn_counts"][0]), z3.Not(held1["country_counts"][0]))),
                                                                        z3.Implies(z3.And(ok, parsed), ipsome1), z3.Implies(z3.And(ok, z3.Not(parsed)), z3.Not(ipsome1)))
        G["admitted_peer_is_listed_and_holds_a_record"] = z3.Implies(ok, z3.And(listed1, pres1))
        # caps are judged after the peer has given back what it held before
        below = z3.And(*[z3.Implies(c, z3.ULT(c13.count_at(maps0[n], keys[n]) - one(z3.And(held0[n][0], held0[n][1] == keys[n])), lim)) for n, lim, c in lv])
        G["admitted_only_while_every_level_is_below_its_cap"] = z3.Implies(z3.And(ok, parsed), below)
        G["refused_peer_holds_nothing"] = z3.Implies(z3.And(z3.Not(ok), vok), z3.Not(pres1))
        G["validator_refusal_changes_nothing"] = z3.Implies(z3.Not(vok), z3.And(z3.Not(ok), pres1 == pres0, listed1 == listed0))
        # a counted peer never turns into an uncounted listed one (it would no longer weigh on the caps of its own subnets)
        G["a_peer_that_held_slots_and_is_still_listed_still_holds_a_record"] = z3.Implies(z3.And(pres0, listed1), pres1)
    else:
        G["removed_peer_holds_nothing_and_is_not_listed"] = z3.And(z3.Not(pres1), z3.Not(listed1))
    R = {"eng": eng, "hyps": hyps, "goals": {g: z3.Implies(pc, f) for g, f in G.items()}}
    if op == "add":
        R["reach"] = {"reach_readmission": z3.And(pc, ok, parsed, pres0, ipsome0), "reach_refusal_of_a_holder": z3.And(pc, z3.Not(ok), vok, pres0, ipsome0),
                      "reach_fresh_admission": z3.And(pc, ok, parsed, z3.Not(listed0))}
    else:
        R["reach"] = {"reach_release": z3.And(pc, pres0, ipsome0), "reach_no_record": z3.And(pc, z3.Not(pres0), listed0)}
    return R


def step_cases(tier):
    cs = [(True, "default", 3, "add"), (False, "default", 3, "add"), (True, "default", 3, "evict"), (False, "default", 3, "failure"), (True, "default", 3, "evict_sec")]
    if tier != "quick":
        cs += [(True, "default", 3, "failure"), (False, "default", 3, "evict"), (False, "permissive", 3, "add"), (True, "testnet", 7, "add"), (False, "default", 3, "evict_sec")]
    return cs


def register_step(ck, v6, preset, xb, op):
    params = {"v6": v6, "preset": preset, "fraction": c13.FRACTIONS[preset], "xb": xb, "op": op, "layout": LAYOUT, "B": B}
    tag = f"engine-step[{'v6' if v6 else 'v4'},{preset},x in {xb},{op}]"
    src = Src()
    R = build_step(ck, v6, preset, xb, op, src)
    rp = harness.make_replayer(ck, "core_engine", "admission_step", lambda s, obs: build_step(ck, v6, preset, xb, op, s, obs), params)
    ck.register_src("admission_step", params, src)
    for g, f in R["goals"].items():
        ck.prove(f"{tag}/{g}", R["eng"], R["hyps"], f, on_sat=rp, meta={"goal": g})
    for g, f in R["reach"].items():
        ck.reach(f"{tag}/{g}", R["eng"], R["hyps"], f)
    ck.side(f"{tag}/side", R["eng"], R["hyps"], on_sat=rp)
    ck.out.samples.append({"obligation": tag, "state": "arbitrary engine: enforcer maps, per-peer slot records (SMT arrays over 256-bit ids), routing table, geographic enforcer, validator verdict",
                           "goals": list(R["goals"])})


def harness_time():
    from summaries import mk_time

    return mk_time(bv(0, 64), bv(0, 32), "SystemTime")


def capacity(eng):
    from harness import fpv

    return c02.mk_struct(eng, "core_engine::NodeCapacity", {"storage_available": bv(XTAG, 64), "bandwidth_available": bv(0, 64), "reliability_score": fpv(1.0)})


def listed_in(eng, T, xbv):
    bl = T.f[eng.struct_adt("KademliaRoutingTable").field_index("buckets")]
    idf = eng.struct_adt("core_engine::NodeInfo").field_index("id")
    conds = []
    for bk in bl.elems:
        ns = bk.f[0]
        for s, e in enumerate(ns.elems):
            conds.append(z3.And(z3.ULT(bv(s, 64), ns.len), key_bv(e.f[idf]) == xbv))
    return z3.Or(*conds) if conds else z3.BoolVal(False)


def cases(tier):
    """(v6, preset, bucket of x or None = the local id, op)"""
    cs = [(True, "default", 3, "evict"), (False, "default", 3, "failure"), (True, "default", None, "evict")]
    if tier != "quick":
        cs += [(True, "default", 3, "failure"), (False, "default", 3, "evict"), (False, "permissive", 9, "evict"), (True, "testnet", 9, "failure"), (False, "default", None, "failure")]
    return cs


def register(ck, v6, preset, xb, op):
    params = {"v6": v6, "preset": preset, "fraction": c13.FRACTIONS[preset], "xb": xb, "op": op, "layout": LAYOUT, "B": B}
    tag = f"engine[{'v6' if v6 else 'v4'},{preset},x in {xb if xb is not None else 'local'},add+{op}]"
    src = Src()
    R = build(ck, v6, preset, xb, op, src)
    rp = harness.make_replayer(ck, "core_engine", "admission", lambda s, obs: build(ck, v6, preset, xb, op, s, obs), params)
    ck.register_src("admission", params, src)
    for g, f in R["goals"].items():
        ck.prove(f"{tag}/{g}", R["eng"], R["hyps"], f, on_sat=rp, meta={"goal": g})
    for g, f in R["reach"].items():
        ck.reach(f"{tag}/{g}", R["eng"], R["hyps"], f)
    ck.side(f"{tag}/side", R["eng"], R["hyps"], on_sat=rp)
    ck.out.samples.append({"obligation": tag, "state": "arbitrary IPDiversityEnforcer + geographic enforcer + well-formed routing table + validator verdict",
                           "input": "arbitrary candidate id in the bucket / address text (socket address, bare ip or neither) with symbolic ip", "goals": list(R["goals"])})


def register_all(ck, tier):
    for (v6, preset, xb, op) in cases(tier):
        ck.guarded(f"engine[{'v6' if v6 else 'v4'},{preset},{xb},{op}]", lambda v6=v6, preset=preset, xb=xb, op=op: register(ck, v6, preset, xb, op))
    for (v6, preset, xb, op) in step_cases(tier):
        ck.guarded(f"engine-step[{'v6' if v6 else 'v4'},{preset},{xb},{op}]", lambda v6=v6, preset=preset, xb=xb, op=op: register_step(ck, v6, preset, xb, op))


BOUNDS = ["engine level, scenario: DhtCoreEngine::add_node followed by evict_node / handle_node_failure of the same peer (async fns executed as state machines, uncontended locks) from an ARBITRARY "
          "enforcer / geographic enforcer / validator verdict; routing table layout [3,7] with <= 2 peers per bucket and a symbolic bucket capacity 1..8; candidate id in bucket 3 or 9 or the local id; "
          "address text = socket address / bare ip / unparsable, ip symbolic; no geo provider (analysis = prefix masks)",
          "engine level, one inductive step: add_node / evict_node / handle_node_failure of a peer that may already be listed and may already hold an ARBITRARY well-formed slot record "
          "(per-peer records as SMT arrays over 256-bit ids): every counter changes by exactly the change of the peer's record, holders are listed, other peers' records untouched; "
          "by induction every counter equals the number of listed peers holding that key, for histories of any length"]
OUTSIDE = ["DhtCoreEngine::join_network (bootstrap peers bypass the gates by design and hold no slots)",
           "geo providers at engine level (ASN / country / hosting flags of freshly analysed addresses; arbitrary records do carry them)", "routing-table layouts other than [3,7] with <= 2 peers per bucket"]


def rebuild(ck, driver, params):
    if driver == "admission_step":
        return lambda s, obs: build_step(ck, params["v6"], params["preset"], params["xb"], params["op"], s, obs)
    return lambda s, obs: build(ck, params["v6"], params["preset"], params["xb"], params["op"], s, obs)
