"""C12 — each peer sequence number is accepted at most once and only in order."""
import os
import sys

sys.path.insert(0, os.path.join(os.path.dirname(os.path.abspath(__file__)), "..", "lib", "mirsym"))
import kanicheck
from common import Outcome, log

QUICK = {
    "c12_fresh_counter": "fresh counter satisfies I(0); only number 1 is accepted first",
    "c12_step_h0": "inductive step, history length 0",
    "c12_step_h1": "inductive step, history length 1",
    "c12_step_h2": "inductive step, history length 2",
    "c12_step_h3": "inductive step, history length 3",
}
THOROUGH = dict(QUICK)
THOROUGH.update({
    "c12_step_h5": "inductive step, history length 5",
    "c12_step_h8": "inductive step, history length 8",
})


def run(tier):
    import c12_async
    import harness

    ck = harness.MirCheck("C12", tier)
    c12_async.register_all(ck, tier)
    ck.run_queries()
    out = ck.out
    kani_functions = [
        "MonotonicCounterSystem::validate_sequence_internal",
        "PeerCounter::has_seen_sequence (+ its closure)",
        "PeerCounter::apply_sequence_update",
        "PeerCounter::new",
    ]
    out.bounds = [
        "one validate(+apply)(+re-validate) step from an arbitrary PeerCounter satisfying I(L): last_valid_sequence=L<u64::MAX-1, all history entries in 1..=L",
        "history length H in {0,1,2,3} (quick) / {0,1,2,3,5,8} (thorough); arbitrary hashes, timestamps, counters",
        "arbitrary submission (sequence: u64, hash: [u8;32], timestamp: u64); clock now < 2^40 s",
        "kani unwind 40 with unwinding assertions on",
    ]
    out.outside = [
        "L >= u64::MAX-1 (needs 2^64-2 acceptances from one peer; there `last_valid_sequence + 1` overflows: panic in debug, wraps in release where nothing is accepted any more)",
        "concurrent submitters: validate+apply atomicity rests on the RwLock write guard in validate_sequence / batch_update (async fns, not encoded)",
        "sync_counters / load_counters (tokio fs, postcard)",
        "history pruning branch (needs > 1000 entries)",
    ]
    out.trusted = [
        "Kani 0.68 / CBMC 6.11 (cadical)",
        "stub: monotonic_counter::current_timestamp -> symbolic u64 'now'",
        "stub: RandomState::new -> zero keys (only to construct the empty system)",
    ]
    out.assumptions = [
        "induction over histories: every reachable PeerCounter satisfies I(L) (base: c12_fresh_counter; step: invariant_preserved check)",
        "single-threaded execution of the step (the lock is not modelled)",
    ]
    hs = QUICK if tier == "quick" else THOROUGH
    kanicheck.discharge(out, "monotonic_counter", hs, timeout_s=1500 if tier == "quick" else 3600, logname="c12-" + tier)
    out.samples = [
        {"harness": "c12_step_h2", "state": "PeerCounter{last_valid_sequence: L (symbolic), history: 2 symbolic entries with 1<=seq<=L}",
         "input": "(seq, hash, ts) symbolic", "asserts": ["Valid => seq==L+1 && ts in [now-3600, now+60]", "seq==L+1 && in window => Valid",
                                                             "Replay => seq<=L", "Gap{e,r} => seq>L+1, e==L+1, r==seq", "after apply: L'=L+1, I(L') holds, seq and every number <= seq no longer Valid"]},
    ]
    out.bounds.append("engine M: the whole async fn MonotonicCounterSystem::validate_sequence (state machine polled in place, uncontended locks) over an ARBITRARY counter map "
                      "(SMT arrays over 256-bit user ids, stored history capacity 2), arbitrary user / sequence / hash, all wall-clock readings of the call in one second")
    out.outside.append("batch_update is covered by induction from the step obligations (same validate-then-apply code under one write guard); its loop is not separately encoded")
    return ck.finish("./check C12 --tier " + tier)


def replay(path):
    import c12_async
    import harness

    return harness.replay_file(path, c12_async.rebuild)
