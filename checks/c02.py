"""C02 (kernel) — routing-table closest-node answers are exact, duplicate-free and capped (engine M + Kani bucket-index kernel).

The table is well-formed by construction: local id = 0 (XOR translation symmetry, see DESIGN), a node in bucket j has its first j bits
equal to the local id's, bit j different, the remaining bits symbolic; ids pairwise distinct.  Bucket positions are concrete per case
(chosen around the key's target bucket and at the ends of the table), bucket lengths symbolic.
"""
import os
import sys

import z3

sys.path.insert(0, os.path.join(os.path.dirname(os.path.abspath(__file__)), "..", "lib", "mirsym"))
import harness  # noqa: E402
from engine import State  # noqa: E402
from harness import MirCheck, Src, fpv  # noqa: E402
from summaries import mk_time  # noqa: E402
from values import VArr, VEnum, VOpaque, VSeq, VStr, VStruct, bv, key_bv  # noqa: E402
from summaries import OPTION  # noqa: E402

NB = 256


def mk_struct(eng, tyname, vals):
    adt = eng.struct_adt(tyname)
    names = [f for f, _ in adt.fields]
    if set(names) != set(vals):
        raise harness.SymError(f"struct {tyname} fields changed: {names} vs {sorted(vals)}")
    return VStruct([vals[f] for f in names], adt.name)


def id_in_bucket(src, name, j, fixed=None):
    """256-bit id whose first differing bit from the all-zero local id is bit j (big-endian bit numbering as in get_bucket_index);
    fixed: {byte index: value} for raw bytes that are concrete in this obligation (exported to the native case under the same names)"""
    raw = src.bytes(name, 32)
    if fixed:
        el = list(raw.elems)
        for b_, v in fixed.items():
            el[b_] = bv(v, 8)
            if not src.concrete:
                src.hyps.append(z3.BitVec(f"{name}.{b_}", 8) == bv(v, 8))
        raw = VArr(el)
    out = []
    for byte in range(32):
        lo, hi = byte * 8, byte * 8 + 7
        if hi < j:
            out.append(bv(0, 8))
        elif lo > j:
            out.append(raw.elems[byte])
        else:
            k = j - lo  # bit position inside the byte, 0 = most significant
            keep = (1 << (7 - k)) - 1  # bits below position k stay symbolic
            out.append(z3.simplify((raw.elems[byte] & bv(keep, 8)) | bv(1 << (7 - k), 8)))
    return VArr(out)


def key_with_target(src, t, fixed=None):
    """key whose first differing bit from local (= 0) is t; t = None: the key equals the local id"""
    if t is None:
        return VArr([bv(0, 8)] * 32)
    return id_in_bucket(src, "key", t, fixed)


def node_info(eng, idb, tag, seen=None):
    cap = mk_struct(eng, "core_engine::NodeCapacity", {"storage_available": bv(tag, 64), "bandwidth_available": bv(0, 64), "reliability_score": fpv(1.0)})
    return mk_struct(eng, "core_engine::NodeInfo", {"id": VStruct([VStruct([idb], "DhtKey")], "NodeId"), "address": VStr(bv(1000 + tag, 64)),
                                                  "last_seen": mk_time(bv(0, 64) if seen is None else seen, bv(0, 32), "SystemTime"), "capacity": cap})


def build_table(eng, src, layout, B, max_size=None, fixed=None, seen=False):
    """layout: list of bucket indices that may be populated.  -> (table value, nodes [(bucket, slot, idbv, valid)], lens)"""
    buckets = []
    nodes = []
    lens = {}
    tag = 0
    caps = {(e[0] if isinstance(e, (list, tuple)) else e): (e[1] if isinstance(e, (list, tuple)) else B) for e in layout}
    for j in range(NB):
        if j in caps:
            ln = src.bv(f"len{j}", 64)
            lens[j] = ln
            elems = []
            for s in range(caps[j]):
                idb = id_in_bucket(src, f"b{j}s{s}", j, fixed(tag) if fixed else None)
                sv = None
                if seen:
                    # when the peer was last seen (whole seconds, any time before 2^40): entries may be arbitrarily stale
                    sv = src.bv(f"b{j}s{s}.seen", 64)
                    src.hyps.append(z3.ULT(sv, bv(1 << 40, 64)))
                elems.append(node_info(eng, idb, tag, sv))
                nodes.append((j, s, key_bv(idb), z3.ULT(bv(s, 64), ln), tag))
                tag += 1
            buckets.append(VStruct([VSeq(elems, ln), bv(8, 64) if max_size is None else max_size], "KBucket"))
        else:
            buckets.append(VStruct([VSeq([], bv(0, 64)), bv(8, 64) if max_size is None else max_size], "KBucket"))
    local = VStruct([VStruct([VArr([bv(0, 8)] * 32)], "DhtKey")], "NodeId")
    table = mk_struct(eng, "KademliaRoutingTable", {"buckets": VSeq(buckets, bv(NB, 64)), "node_id": local, "_k_value": bv(8, 64)})
    return table, nodes, lens


def table_hyps(nodes, lens, B):
    capof = {}
    for n in nodes:
        capof[n[0]] = max(capof.get(n[0], 0), n[1] + 1)
    h = [z3.ULE(ln, bv(capof.get(j, B), 64)) for j, ln in lens.items()]
    for a in range(len(nodes)):
        for b in range(a):
            if nodes[a][0] == nodes[b][0]:
                h.append(z3.Implies(z3.And(nodes[a][3], nodes[b][3]), nodes[a][2] != nodes[b][2]))
    return h


def closest_goals(nodes, kbv, count, rl, rids, rtags):
    P = len(rids)
    inres = [z3.ULT(bv(p, 64), rl) for p in range(P)]
    total = bv(0, 64)
    for n in nodes:
        total = total + z3.If(n[3], bv(1, 64), bv(0, 64))
    G = {}
    G["answer_has_min_of_count_and_table_size_entries"] = rl == z3.If(z3.ULE(count, total), count, total)
    G["answer_is_strictly_ascending_in_xor_distance_hence_duplicate_free"] = z3.And(
        *[z3.Implies(inres[p + 1], z3.ULT(kbv ^ rids[p], kbv ^ rids[p + 1])) for p in range(P - 1)]) if P > 1 else z3.BoolVal(True)
    G["every_answer_entry_is_a_table_entry"] = z3.And(
        *[z3.Implies(inres[p], z3.Or(*[z3.And(n[3], rids[p] == n[2], rtags[p] == bv(n[4], 64)) for n in nodes])) for p in range(P)]) if P else z3.BoolVal(True)
    sel = [z3.Or(*[z3.And(inres[p], rids[p] == n[2]) for p in range(P)]) if P else z3.BoolVal(False) for n in nodes]
    # exactness: a table entry left out of the answer is not closer than any entry of the answer
    G["no_table_entry_outside_the_answer_is_closer_than_one_inside"] = z3.And(
        *[z3.Implies(z3.And(n[3], z3.Not(sel[i]), inres[p]), z3.UGT(kbv ^ n[2], kbv ^ rids[p])) for i, n in enumerate(nodes) for p in range(P)]) if P else z3.BoolVal(True)
    return G


def build_closest(ck, layout, t, B, maxcount, src, obs=None):
    eng = ck.engine(unwind=260) if obs is None else ck.meta_engine()
    eng.seq_cap = 24
    keyb = key_with_target(src, t)
    kbv = key_bv(keyb)
    count = src.bv("count", 64)
    table, nodes, lens = build_table(eng, src, layout, B)
    hyps = list(src.hyps) + table_hyps(nodes, lens, B) + [z3.ULE(count, bv(maxcount, 64))]
    if obs is None:
        st = State()
        rt = eng.alloc(st, table)
        rk = eng.alloc(st, VStruct([keyb], "DhtKey"))
        st2, res = eng.call(ck.fn(r"core_engine::<impl at [^>]*>::find_closest_nodes$"), [rt, rk, count], st)
        pc = st2.pc
        rl = res.len
        idf = eng.struct_adt("core_engine::NodeInfo").field_index("id")
        capf = eng.struct_adt("core_engine::NodeInfo").field_index("capacity")
        rids = [key_bv(e.f[idf]) for e in res.elems]
        rtags = [e.f[capf].f[0] for e in res.elems]
    else:
        pc = z3.BoolVal(True)
        rl = bv(len(obs["result"]), 64)
        rids = [bv(int.from_bytes(bytes(r["id"]), "big"), 256) for r in obs["result"]]
        rtags = [bv(int(r["tag"]), 64) for r in obs["result"]]
    G = closest_goals(nodes, kbv, count, rl, rids, rtags)
    return {"eng": eng, "hyps": hyps, "goals": {g: z3.Implies(pc, f) for g, f in G.items()}, "reach": {"reach_nonempty": z3.And(pc, rl != 0)}}


def build_mutation(ck, layout, xb, B, op, src, obs=None, symcap=False):
    """add_node / remove_node of an arbitrary id x in bucket xb (xb=None: x is the local id) followed by a full listing of the table.
    symcap: the bucket capacity is symbolic in 1..=B (so that FULL buckets are reached with few entries) and every entry's last-seen time is arbitrary"""
    eng = ck.engine(unwind=260) if obs is None else ck.meta_engine()
    eng.seq_cap = 24
    cap = src.bv("bucket_cap", 64) if symcap else None
    table, nodes, lens = build_table(eng, src, layout, B, max_size=cap, seen=symcap)
    xbytes = VArr([bv(0, 8)] * 32) if xb is None else id_in_bucket(src, "x", xb)
    xbv = key_bv(xbytes)
    hyps = list(src.hyps) + table_hyps(nodes, lens, B)
    if symcap:
        hyps += [z3.UGE(cap, 1), z3.ULE(cap, bv(B, 64))] + [z3.ULE(ln, cap) for ln in lens.values()]
    present0 = z3.Or(*[z3.And(n[3], n[2] == xbv) for n in nodes]) if nodes else z3.BoolVal(False)
    XTAG = 999
    if obs is None:
        st = State()
        rt = eng.alloc(st, table)
        F = lambda n: ck.fn(r"core_engine::<impl at [^>]*>::" + n + "$")  # noqa: E731
        if op == "add":
            fn = [n for n in ck.crate.find(r"core_engine::<impl at [^>]*>::add_node$") if "KademliaRoutingTable" in (eng.impl_info(n) or ("", ""))[1] or True]
            name = [n for n in fn if (eng.impl_info(n) or (None, None))[1] == "KademliaRoutingTable"][0]
            xseen = None
            if symcap:
                xseen = src.bv("x.seen", 64)
                hyps.append(z3.ULT(xseen, bv(1 << 40, 64)))
            eng.clock_readings = []
            st1, r = eng.call(name, [rt, node_info(eng, xbytes, XTAG, xseen)], st)
            if symcap:
                # every wall-clock reading of the call is the same pinned second (replayed through the clock shim)
                now = src.bv("now.s", 64)
                src.hyps.append(z3.ULT(now, bv(1 << 40, 64)))
                for rd in eng.clock_readings:
                    src.hyps.append(rd.f[0] == now)
            hyps += [h for h in src.hyps if not any(h is y for y in hyps)]
            ok = r.idx == bv(0, 8)
        else:
            fn = [n for n in ck.crate.find(r"core_engine::<impl at [^>]*>::remove_node$") if (eng.impl_info(n) or (None, None))[1] == "KademliaRoutingTable"][0]
            rx = eng.alloc(st, VStruct([VStruct([xbytes], "DhtKey")], "NodeId"))
            st1, r = eng.call(fn, [rt, rx], st)
            ok = z3.BoolVal(True)
        T1 = eng.load(st1, rt)
        bl = T1.f[eng.struct_adt("KademliaRoutingTable").field_index("buckets")]
        idf = eng.struct_adt("core_engine::NodeInfo").field_index("id")
        post = []  # (bucket, idbv, valid)
        for j, bk in enumerate(bl.elems):
            ns = bk.f[0]
            for s, e in enumerate(ns.elems):
                post.append((j, key_bv(e.f[idf]), z3.ULT(bv(s, 64), ns.len)))
        pc = st1.pc
    else:
        pc = z3.BoolVal(True)
        ok = z3.BoolVal(bool(obs.get("ok", True)))
        post = [(int(e["bucket"]), bv(int.from_bytes(bytes(e["id"]), "big"), 256), z3.BoolVal(True)) for e in obs["table"]]
    occ = lambda idv: sum_bool([z3.And(v, i == idv) for (_, i, v) in post])  # noqa: E731
    G = {}
    G["table_never_lists_the_local_node"] = z3.And(*[z3.Implies(v, i != bv(0, 256)) for (_, i, v) in post]) if post else z3.BoolVal(True)
    G["table_lists_each_peer_at_most_once"] = z3.And(*[z3.Implies(z3.And(post[a][2], post[b][2]), post[a][1] != post[b][1]) for a in range(len(post)) for b in range(a)]) if len(post) > 1 else z3.BoolVal(True)
    G["every_entry_sits_in_the_bucket_of_its_first_differing_bit"] = z3.And(*[z3.Implies(v, first_bit_is(i, j)) for (j, i, v) in post]) if post else z3.BoolVal(True)
    # with a symbolic capacity a full bucket may legitimately drop an entry to make room (that is policy, not part of the property): each OTHER peer is then still listed at most once
    G["all_other_peers_are_kept"] = z3.And(*[z3.Implies(z3.And(n[3], n[2] != xbv), z3.ULE(occ(n[2]), 1) if symcap else occ(n[2]) == 1) for n in nodes]) if nodes else z3.BoolVal(True)
    if op == "add":
        G["accepted_peer_is_listed_exactly_once"] = z3.Implies(z3.And(ok, xbv != bv(0, 256)), occ(xbv) == 1)
        G["refused_peer_leaves_the_table_unchanged"] = z3.Implies(z3.Not(ok), occ(xbv) == z3.If(present0, bv(1, 64), bv(0, 64)))
    else:
        G["removed_peer_is_gone"] = occ(xbv) == 0
    return {"eng": eng, "hyps": hyps, "goals": {g: z3.Implies(pc, f) for g, f in G.items()}, "reach": {"reach_end": pc}}


def build_engine_ops(ck, layout, t, B, maxcount, fail, src, obs=None, readd=False, evict=False, reply=False):
    """the same kernel reached through the async engine API: DhtCoreEngine::select_query_peers with trust selection disabled
    (= exactly the closest candidates in distance order), and handle_node_failure(x) followed by find_nodes (x is gone)"""
    from harness import run_async

    eng = ck.engine(unwind=260) if obs is None else ck.meta_engine()
    eng.seq_cap = 24
    # reply obligation: bytes 1..30 of every id and of the key are concrete (different per peer).  The trust-aware selector ranks by an f64 score of the
    # 128 high-order distance bits; with those nearly concrete a wrongly routed reply is found in seconds instead of timing out.
    fx = (lambda tag: {b_: (37 * (tag + 1) + 11 * b_) & 0xFF for b_ in range(1, 31)}) if reply else None
    keyb = key_with_target(src, t, {b_: (5 * b_ + 3) & 0xFF for b_ in range(1, 31)} if reply else None)
    kbv = key_bv(keyb)
    count = src.bv("count", 64)
    table, nodes, lens = build_table(eng, src, layout, B, fixed=fx)
    which = src.bv("failed_slot", 8)
    hyps = list(src.hyps) + table_hyps(nodes, lens, B) + [z3.ULE(count, bv(maxcount, 64)), z3.ULT(which, bv(max(1, len(nodes)), 8))]
    # the failing peer is one of the peers of the first populated bucket (keeps its bucket index concrete)
    first_bucket = nodes[0][0]
    cand = [n for n in nodes if n[0] == first_bucket]
    xbv = cand[-1][2]
    xvalid = cand[-1][3]
    for n in reversed(cand[:-1]):
        xbv = z3.If(which == n[4], n[2], xbv)
        xvalid = z3.If(which == n[4], n[3], xvalid)
    hyps.append(z3.Or(*[which == n[4] for n in cand]))
    if fail:
        hyps.append(xvalid)
    if obs is None:
        st = State()
        rt = eng.alloc(st, table)
        adt = eng.struct_adt("DhtCoreEngine")
        from values import VOpaque, VEnum
        from summaries import OPTION
        vals = []
        for f, _ in adt.fields:
            if f == "routing_table":
                vals.append(rt)
            elif f == "trust_peer_selector":
                vals.append(VEnum(OPTION, bv(0, 8), {0: ()}))
            elif f == "transport":
                vals.append(VEnum(OPTION, bv(0, 8), {0: ()}))
            elif f == "node_id":
                vals.append(VStruct([VStruct([VArr([bv(0, 8)] * 32)], "DhtKey")], "NodeId"))
            elif f == "diversity_slots":
                # no peer of this table holds diversity slots (slot accounting is C13's subject): removal releases nothing
                import c13_engine

                vals.append(eng.alloc(st, c13_engine.empty_slots_map(eng)))
            else:
                vals.append(VOpaque("DhtCoreEngine." + f))
        if reply:
            # trust-weighted selection is ENABLED (arbitrary trust function, arbitrary configuration): a reply to a remote find-node must not depend on it
            import c16_selector

            T = z3.Const("trust_fn", z3.ArraySort(z3.BitVecSort(256), z3.Float64()))
            c16_selector.install_trust_provider(eng, T)
            # what an EigenTrustEngine answers before any computation: 0.9 for pre-trusted peers, 0.0 for everybody else (the native driver pre-trusts exactly these)
            for n in nodes:
                pt = src.bool(f"pretrusted.{n[4]}")
                hyps.append(z3.Select(T, n[2]) == z3.If(pt, z3.FPVal(0.9, z3.Float64()), z3.FPVal(0.0, z3.Float64())))
            # the default selection configuration (weight 0.3, threshold 0.1); exclusion of untrusted peers symbolic
            w, thr = z3.FPVal(0.3, z3.Float64()), z3.FPVal(0.1, z3.Float64())
            cfg = c16_selector.mk_struct(eng, "TrustSelectionConfig", {"trust_weight": w, "min_trust_threshold": thr, "exclude_untrusted": src.bool("cfg.exclude_untrusted")})
            selv = c16_selector.mk_struct(eng, "TrustAwarePeerSelector", {"trust_provider": eng.alloc(st, VOpaque("trust provider")), "config": cfg, "storage_config": cfg})
            names_ = [f for f, _ in adt.fields]
            vals[names_.index("trust_peer_selector")] = VEnum(OPTION, bv(1, 8), {0: (), 1: (selv,)})
        re_ = eng.alloc(st, VStruct(vals, "DhtCoreEngine"))
        rk = eng.alloc(st, VStruct([keyb], "DhtKey"))
        if reply:
            import c05

            minfo = eng.enum_info("DhtMessage")
            names_ = c05.variant_fields(eng, "DhtMessage", "FindNode")
            fv = {"target": VStruct([keyb], "DhtKey"), "count": count}
            msg = VEnum(minfo, bv(minfo.index("FindNode"), 8), {minfo.index("FindNode"): tuple(fv[n] for n in names_)})
            wrapper = c05.mk_named(eng, "DhtRequestWrapper", {"id": VStr(bv(77, 64)), "message": msg})
            st2, resp = run_async(eng, ck.fn_in("DhtCoreEngine", "handle_request"), [re_, wrapper], st)
            rinfo = eng.enum_info("DhtResponse")
            r = resp.f[eng.struct_adt("DhtResponseWrapper").field_index("response")]
            vi = rinfo.index("FindNodeReply")
            okk = r.idx == bv(vi, 8)
            res = r.pay[vi][c05.variant_fields(eng, "DhtResponse", "FindNodeReply").index("nodes")]
        elif fail:
            xbytes = VArr([z3.simplify(z3.Extract(255 - 8 * i, 248 - 8 * i, xbv)) for i in range(32)])
            xid = VStruct([VStruct([xbytes], "DhtKey")], "NodeId")
            if readd:
                # the peer is first announced again under another address (refresh of its entry), then fails / is evicted
                addfn = [n for n in ck.crate.find(r"core_engine::<impl at [^>]*>::add_node$") if (eng.impl_info(n) or (None, None))[1] == "KademliaRoutingTable"][0]
                st, _ = eng.call(addfn, [rt, node_info(eng, xbytes, 999)], st)
            if evict:
                import c13_engine

                info = eng.enum_info("EvictionReason")
                rej = VEnum(info, bv(info.index("CloseGroupRejection"), 8), {info.index("CloseGroupRejection"): ()})
                # evict_node records the eviction in the security metrics
                sm = c13_engine.mk_struct_fill(eng, "SecurityMetricsCollector", {"nodes_evicted_total": bv(0, 64), "eviction_by_reason": eng.alloc(st, c13_engine.empty_map(64))})
                E = eng.load(st, re_)
                names = [f for f, _ in adt.fields]
                vals2 = list(E.f)
                vals2[names.index("security_metrics")] = eng.alloc(st, sm)
                eng.store(st, re_, VStruct(vals2, "DhtCoreEngine"))
                st, _ = run_async(eng, ck.fn_in("DhtCoreEngine", "evict_node"), [re_, eng.alloc(st, xid), rej], st)
            else:
                st, _ = run_async(eng, ck.fn_in("DhtCoreEngine", "handle_node_failure"), [re_, xid], st)
            st2, out = run_async(eng, ck.fn_in("DhtCoreEngine", "find_nodes"), [re_, rk, count], st)
            res = out.pay[0][0]
            okk = out.idx == bv(0, 8)
        elif not reply:
            st2, res = run_async(eng, ck.fn_in("DhtCoreEngine", "select_query_peers"), [re_, rk, count], st)
            okk = z3.BoolVal(True)
        pc = z3.And(st2.pc, okk)
        rl = res.len
        idf = eng.struct_adt("core_engine::NodeInfo").field_index("id")
        capf = eng.struct_adt("core_engine::NodeInfo").field_index("capacity")
        rids = [key_bv(e.f[idf]) for e in res.elems]
        rtags = [e.f[capf].f[0] for e in res.elems]
    else:
        pc = z3.BoolVal(True)
        rl = bv(len(obs["result"]), 64)
        rids = [bv(int.from_bytes(bytes(r["id"]), "big"), 256) for r in obs["result"]]
        rtags = [bv(int(r["tag"]), 64) for r in obs["result"]]
    live = [(n[0], n[1], n[2], z3.And(n[3], n[2] != xbv) if fail else n[3], n[4]) for n in nodes]
    G = closest_goals(live, kbv, count, rl, rids, rtags)
    if fail:
        G = {"after_failure/" + g: f for g, f in G.items()}
        G["after_failure/failed_peer_appears_in_no_answer"] = z3.And(*[z3.Implies(z3.ULT(bv(p, 64), rl), rids[p] != xbv) for p in range(len(rids))]) if rids else z3.BoolVal(True)
    elif reply:
        G = {"find_node_reply/" + g: f for g, f in G.items()}
        G["find_node_reply/reply_never_exceeds_the_protocol_cap"] = z3.ULE(rl, bv(20, 64))
    else:
        G = {"trust_disabled/" + g: f for g, f in G.items()}
    return {"eng": eng, "hyps": hyps, "goals": {g: z3.Implies(pc, f) for g, f in G.items()}, "reach": {"reach_nonempty": z3.And(pc, rl != 0)}}


def engine_cases(only_removal=False):
    """the kernel reached through the async engine API (also registered by C16: a failed / evicted peer appears in no answer)"""
    base = {"layout": [3, 7], "t": 3, "B": 2, "maxcount": 2}
    cs = []
    if not only_removal:
        cs.append((dict(base, fail=False), "engine[select_query_peers, trust selection disabled]"))
        cs.append((dict(base, fail=False, reply=True, layout=[[3, 1], [7, 1]], B=1, maxcount=1), "engine[find-node reply with trust selection enabled]"))
    cs.append((dict(base, fail=True), "engine[handle_node_failure+find_nodes]"))
    cs.append((dict(base, fail=True, readd=True), "engine[re-announced under another address, handle_node_failure+find_nodes]"))
    cs.append((dict(base, fail=True, readd=True, evict=True), "engine[re-announced under another address, evict_node+find_nodes]"))
    return cs


def sum_bool(conds):
    t = bv(0, 64)
    for c in conds:
        t = t + z3.If(c, bv(1, 64), bv(0, 64))
    return t


def first_bit_is(idv, j):
    """first set bit (from the most significant) of the 256-bit value is bit j"""
    if j == 0:
        return z3.Extract(255, 255, idv) == 1
    return z3.And(z3.Extract(255, 256 - j, idv) == 0, z3.Extract(255 - j, 255 - j, idv) == 1)


def closest_cases(tier):
    """(layout, target bucket of the key, B, max count)"""
    cs = [([0, 3, 7], 3, 1, 3),          # populated bucket 0 with a target in bucket 3 (the old walk revisited bucket 0)
          ([[2, 2], [3, 1], [5, 1]], 3, 2, 2),  # a fuller farther bucket below the target vs closer peers in higher buckets (old early exit)
          ([253, 255], 253, 2, 3),       # top of the table
          ([0, 255], None, 1, 2),        # key = local id
          ([1, 2], 200, 1, 2),           # target bucket empty and far from the populated ones
          ([[3, 1], [4, 1], [5, 1], [9, 1]], 3, 1, 2)]  # several buckets above the target: their order is not the distance order
    if tier != "quick":
        cs += [([2, 3, 5], 3, 2, 2), ([0, 3, 7], 3, 2, 3), ([0, 3, 4, 7], 3, 2, 4), ([2, 3, 5, 9], 3, 2, 3), ([0, 1, 2, 3], 0, 2, 5), ([100, 101, 102, 180], 101, 3, 6), ([5, 6, 7, 8], 255, 2, 5), ([0, 128, 255], 128, 3, 8)]
    return cs


def mutation_cases(tier):
    """(layout, bucket of x or None for the local id, B, op)"""
    cs = [([3, 7], 3, 2, "add"), ([3, 7], None, 2, "add"), ([3, 7], 9, 2, "add"), ([3, 7], 3, 2, "remove"), ([0, 255], 255, 2, "add"), ([0, 255], 0, 2, "remove"),
          ([3, 7], 3, 3, "add+cap")]
    if tier != "quick":
        cs += [([3, 7], 7, 3, "add"), ([3, 7], 9, 2, "remove"), ([3, 7], None, 2, "remove")]
    return cs


def register(ck, tag, driver, params, builder):
    src = Src()
    R = builder(src, None)
    rp = harness.make_replayer(ck, "core_engine", driver, lambda s, obs: builder(s, obs), params)
    ck.register_src(driver, params, src)
    for g, f in R["goals"].items():
        ck.prove(f"{tag}/{g}", R["eng"], R["hyps"], f, on_sat=rp, meta={"goal": g})
    for g, f in R["reach"].items():
        ck.reach(f"{tag}/{g}", R["eng"], R["hyps"], f)
    ck.side(f"{tag}/side", R["eng"], R["hyps"], on_sat=rp)
    ck.out.samples.append({"obligation": tag, "goals": list(R["goals"])})


def builder_for(ck, driver, params):
    if driver in ("closest_local", "lookup_cap"):
        import c02_reply

        return c02_reply.builder_for(ck, driver, params)
    if driver == "engine_ops":
        return lambda s, obs: build_engine_ops(ck, params["layout"], params["t"], params["B"], params["maxcount"], params["fail"], s, obs, params.get("readd", False), params.get("evict", False), params.get("reply", False))
    if driver == "closest":
        return lambda s, obs: build_closest(ck, params["layout"], params["t"], params["B"], params["maxcount"], s, obs)
    return lambda s, obs: build_mutation(ck, params["layout"], params["xb"], params["B"], params["op"], s, obs, params.get("symcap", False))


def run(tier):
    ck = MirCheck("C02", tier)
    for (layout, t, B, mc) in closest_cases(tier):
        params = {"layout": layout, "t": t, "B": B, "maxcount": mc}
        tag = f"closest[buckets={layout},target={t},B={B},count<={mc}]"
        ck.guarded(tag, lambda params=params, tag=tag: register(ck, tag, "closest", params, builder_for(ck, "closest", params)))
    for (layout, xb, B, op) in mutation_cases(tier):
        params = {"layout": layout, "xb": xb, "B": B, "op": op.split("+")[0]}
        if op.endswith("+cap"):
            params["symcap"] = True
        tag = f"{op}[buckets={layout},x in {xb if xb is not None else 'local'}]" + (" (symbolic bucket capacity <= %d, arbitrary last-seen times)" % B if params.get("symcap") else "")
        ck.guarded(tag, lambda params=params, tag=tag: register(ck, tag, "mutation", params, builder_for(ck, "mutation", params)))
    for params, tag in engine_cases():
        ck.guarded(tag, lambda params=params, tag=tag: register(ck, tag, "engine_ops", params, builder_for(ck, "engine_ops", params)))
    import c02_reply

    c02_reply.register_all(ck, tier)
    ck.run_queries()
    import kanicheck

    kanicheck.discharge(ck.out, "core_engine", {"c02_bucket_index": "get_bucket_index / get_bucket_index_for_key = index of the first differing bit (255 for equal ids) for all 2^512 id pairs"},
                        timeout_s=2400, logname="c02-kani-" + tier)
    ck.out.bounds = ["KademliaRoutingTable::find_closest_nodes on well-formed tables: local id = 0 (XOR translation symmetry), populated buckets at the listed concrete indices with symbolic lengths <= B "
                     "and fully symbolic remaining id bits, key with a concrete first-differing bit and symbolic remaining bits, count symbolic up to the listed maximum; one obligation set per layout: "
                     + "; ".join(str(c) for c in closest_cases(tier)),
                     "add_node / remove_node of an arbitrary id in a concrete bucket (or the local id) on such tables: " + "; ".join(str(c) for c in mutation_cases(tier)),
                     "Kani: bucket index kernel for all id pairs (unwind 258)"]
    ck.out.bounds.append("async engine API on one layout ([3,7], target 3, B=2, count<=2): DhtCoreEngine::select_query_peers with trust selection disabled; handle_node_failure(x) then find_nodes (also serves C16: a failed peer appears in no answer, and with trust selection disabled the choice is exactly the closest candidates)")
    ck.out.bounds.append("reply merge (second sentence): DhtNetworkManager::find_closest_nodes_local and handle_lookup_request(FIND_NODE) on a manager whose table holds up to two peers (buckets 3 and 7, "
                         "local id 0) and whose connected-peer book holds up to two arbitrary entries (present / connected / with or without address / possibly the local id / possibly the same peer as a table "
                         "entry); bytes 1..30 of ids and key concrete, the rest symbolic; count <= 5; the requested node count of handle_lookup_request for all three lookup kinds")
    ck.out.outside = ["reply merge with more than four known peers, fully symbolic 256-bit ids in the merge (the four-element sort does not finish within the cap), the value path of FIND_VALUE / GET replies (C03)",
                      "the async join call sites", "layouts, bucket fills and counts other than the listed ones (counts up to 64 in the property; here <= 8)",
                      "tables that are not well-formed (the add/remove obligations show well-formedness is preserved)"]
    ck.out.assumptions = ["strings are abstract identities; hex(NodeId) is an injective function of the id whose values never coincide with a peer id (a peer id that is the hex of another peer's DHT key needs a hash preimage); "
                          "distinct connected peers have distinct DHT keys (collision-free hash)", "XOR translation symmetry: the local id is fixed to 0; bucket indices and distances only depend on XORs of ids (the Kani kernel checks the index computation for arbitrary local ids)",
                          "single-threaded execution"]
    ck.out.trusted.append("z3 4.8.12 / z3 5.1 / cvc5 1.0 portfolio")
    return ck.finish("./check C02 --tier " + tier)


def replay(path):
    return harness.replay_file(path, lambda ck, driver, params: builder_for(ck, driver, params))
