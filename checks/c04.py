"""C04 (partial: the sequential steps) — replies reach only the matching request from the contacted peer; nothing of a finished
request remains in the pending tables; the /rr/ pending table is capped.

Engine M over the async state machines of
  * DhtNetworkManager::handle_dht_response      (one reply against an ARBITRARY pending table),
  * DhtNetworkManager::send_dht_request         (sweep + register + send + wait + cleanup; the transport send and the wait are the environment),
  * TransportHandle::send_request               (cap + register + send + wait + cleanup).
What is NOT decided here: interleavings of several tasks, the /rr/ reply path inside the spawned receive loop, timeouts as real time.
"""
import os
import re
import sys

import z3

sys.path.insert(0, os.path.join(os.path.dirname(os.path.abspath(__file__)), "..", "lib", "mirsym"))
import harness  # noqa: E402
from engine import State  # noqa: E402
from harness import MirCheck, Src, run_async  # noqa: E402
from summaries import OPTION, RESULT, mk_time  # noqa: E402
from values import UNIT, VArr, VEnum, VOpaque, VSeq, VStr, VStruct, bv, flatten, vmap  # noqa: E402

NC = 2  # contacted-nodes list capacity in the symbolic pending entries


def mk_fill(eng, tyname, vals):
    adt = eng.struct_adt(tyname)
    missing = set(vals) - {f for f, _ in adt.fields}
    if missing:
        raise harness.SymError(f"struct {tyname} has no field(s) {missing}")
    return VStruct([vals[f] if f in vals else VOpaque(f"{tyname}.{f}") for f, _ in adt.fields], adt.name)


def ping(eng):
    opi = eng.enum_info("DhtNetworkOperation")
    return VEnum(opi, bv(opi.index("Ping"), 8), {opi.index("Ping"): ()})


def ctx_template(eng):
    return mk_fill(eng, "DhtOperationContext", {
        "operation": ping(eng), "peer_id": VStr(bv(0, 64)), "started_at": mk_time(bv(0, 64), bv(0, 32), "Instant"),
        "timeout": mk_time(bv(0, 64), bv(0, 32), "Duration"), "contacted_nodes": VSeq([VStr(bv(0, 64)) for _ in range(NC)], bv(0, 64)),
        "response_tx": VEnum(OPTION, bv(0, 8), {0: (), 1: (VStruct([bv(0, 64)], "OneshotSender"),)})})


def entry(eng, m, k):
    """-> (present, dict of the entry's fields) of pending table m at key k"""
    v = vmap(m.val, lambda a: z3.Select(a, k))
    adt = eng.struct_adt("DhtOperationContext")
    F = {f: v.f[i] for i, (f, _) in enumerate(adt.fields)}
    return z3.Select(m.present, k), F, v


def entry_wf(F):
    tx = F["response_tx"]
    cn = F["contacted_nodes"]
    return [z3.ULE(tx.idx, bv(1, 8)), z3.ULE(cn.len, bv(NC, 64)), F["operation"].idx == F["operation"].info.index("Ping"),
            z3.ULT(F["started_at"].f[0], bv(1 << 32, 64)), z3.ULT(F["started_at"].f[1], bv(10**9, 32)),
            z3.ULT(F["timeout"].f[0], bv(1 << 20, 64)), z3.ULT(F["timeout"].f[1], bv(10**9, 32))]


def same_entry(m0, m1, k, skip_tx=False, eng=None):
    p0, F0, v0 = entry(eng, m0, k)
    p1, F1, v1 = entry(eng, m1, k)
    eqs = []
    for f in F0:
        if skip_tx and f == "response_tx":
            continue
        for a, b in zip(flatten(F0[f]), flatten(F1[f])):
            eqs.append(a == b)
    return z3.And(p1 == p0, z3.Implies(p0, z3.And(*eqs)))


def build_response(ck, src, obs=None):
    eng = ck.engine() if obs is None else ck.meta_engine()
    mid, oth = src.bv("mid", 64), src.bv("other", 64)
    sender, msource, local = src.bv("sender", 64), src.bv("msg.source", 64), src.bv("local", 64)
    res_some = src.bool("msg.result_some")
    tmpl = ctx_template(eng)
    ops0 = src.map("A.ops", 64, tmpl, {"mid": mid, "other": oth})
    p0, F0, _ = entry(eng, ops0, mid)
    po0, Fo0, _ = entry(eng, ops0, oth)
    hyps = list(src.hyps) + [mid != oth] + entry_wf(F0) + entry_wf(Fo0)
    # the two pending entries own different channels
    hyps.append(z3.Implies(z3.And(p0, po0, F0["response_tx"].idx == 1, Fo0["response_tx"].idx == 1), F0["response_tx"].pay[1][0].f[0] != Fo0["response_tx"].pay[1][0].f[0]))
    chan_mid = F0["response_tx"].pay[1][0].f[0]
    chan_oth = Fo0["response_tx"].pay[1][0].f[0]
    if obs is None:
        st = State()
        rops = eng.alloc(st, ops0)
        mgr = mk_fill(eng, "DhtNetworkManager", {"active_operations": rops, "config": mk_fill(eng, "DhtNetworkConfig", {"local_peer_id": VStr(local)})})
        rm = eng.alloc(st, mgr)
        msg = mk_fill(eng, "DhtNetworkMessage", {"message_id": VStr(mid), "source": VStr(msource),
                                                "result": VEnum(OPTION, z3.If(res_some, bv(1, 8), bv(0, 8)), {0: (), 1: (VOpaque("result"),)})})
        eng.deliveries = []
        st2, out = run_async(eng, ck.fn_in("DhtNetworkManager", "handle_dht_response"), [rm, eng.alloc(st, msg), eng.alloc(st, VStr(sender))], st)
        pc = st2.pc
        ops1 = eng.load(st2, rops)
        dl = list(eng.deliveries)
        to_mid = z3.Or(*[z3.And(d["pc"], d["chan"] == chan_mid) for d in dl]) if dl else z3.BoolVal(False)
        elsewhere = z3.Or(*[z3.And(d["pc"], d["chan"] != chan_mid) for d in dl]) if dl else z3.BoolVal(False)
        twice = z3.Or(*[z3.And(dl[i]["pc"], dl[j]["pc"]) for i in range(len(dl)) for j in range(i)]) if len(dl) > 1 else z3.BoolVal(False)
        src_ok = z3.And(*[z3.Implies(d["pc"], d["value"].f[0].id == msource) for d in dl]) if dl else z3.BoolVal(True)
        okret = out.idx == bv(0, 8)
    else:
        pc = z3.BoolVal(True)
        ops1 = harness.obs_map(obs, "post.ops", 64, tmpl, {"mid": mid, "other": oth})
        to_mid = z3.BoolVal(bool(obs["delivered_mid"]))
        elsewhere = z3.BoolVal(bool(obs["delivered_other"]))
        twice = z3.BoolVal(bool(obs.get("delivered_twice", False)))
        src_ok = z3.BoolVal(bool(obs.get("delivered_source_ok", True)))
        okret = z3.BoolVal(bool(obs["ok"]))
    contacted = z3.Or(*[z3.And(z3.ULT(bv(i, 64), F0["contacted_nodes"].len), F0["contacted_nodes"].elems[i].id == sender) for i in range(NC)])
    authorised = z3.Or(F0["peer_id"].id == sender, contacted)
    tx_some = F0["response_tx"].idx == 1
    p1, F1, _ = entry(eng, ops1, mid)
    G = {}
    G["a_reply_completes_only_the_request_with_its_identifier_and_only_from_the_contacted_peer"] = z3.Implies(to_mid, z3.And(p0, authorised, tx_some, res_some))
    G["no_other_request_is_completed"] = z3.Not(elsewhere)
    G["a_request_is_completed_at_most_once"] = z3.And(z3.Not(twice), z3.Implies(to_mid, z3.And(p1, F1["response_tx"].idx == 0)))
    G["matching_reply_from_the_contacted_peer_is_delivered"] = z3.Implies(z3.And(p0, authorised, tx_some, res_some), to_mid)
    G["delivered_reply_carries_the_message_source_and_result"] = src_ok
    G["other_pending_requests_are_untouched"] = same_entry(ops0, ops1, oth, eng=eng)
    G["the_request_entry_changes_only_by_consuming_its_channel"] = z3.And(same_entry(ops0, ops1, mid, skip_tx=True, eng=eng),
                                                                         z3.Implies(z3.Not(to_mid), same_entry(ops0, ops1, mid, eng=eng)))
    G["discarded_replies_are_not_errors"] = okret
    R = {"eng": eng, "hyps": hyps, "goals": {g: z3.Implies(pc, f) for g, f in G.items()}}
    R["reach"] = {"reach_delivered": z3.And(pc, to_mid), "reach_unauthorised": z3.And(pc, p0, tx_some, res_some, z3.Not(authorised)), "reach_duplicate": z3.And(pc, p0, authorised, z3.Not(tx_some))}
    return R


def expired(F, now, factor):
    """now - started_at > factor * timeout (saturating at 0 like Instant::duration_since)"""
    from summaries import time_add, time_lt, time_sub, ZERO_DUR

    age = time_sub(now, F["started_at"])
    lim = ZERO_DUR
    for _ in range(factor):
        lim = time_add(lim, F["timeout"], "Duration")
    return z3.And(time_lt(F["started_at"], now), time_lt(lim, age))


def install_env(eng, src, uuid):
    """the environment of a request: a fresh message id, the transport send and the wait for the reply have arbitrary outcomes"""
    send_ok, wait_kind = src.bool("env.send_ok"), src.bv("env.wait_kind", 8)
    src.hyps.append(z3.ULE(wait_kind, bv(2, 8)))
    eng.sent_pcs = []

    def h_uuid(e, s, a, d, c, m):
        return VStruct([uuid], "Uuid")

    def h_uuid_str(e, s, a, d, c, m):
        v = e.load(s, a[0]) if not isinstance(a[0], VStruct) else a[0]
        return VStr(v.f[0])

    def h_send(e, s, a, d, c, m):
        eng.sent_pcs.append(s.pc)
        return VStruct([VEnum(RESULT, z3.If(send_ok, bv(0, 8), bv(1, 8)), {0: (UNIT,), 1: (VOpaque("P2PError"),)})], "ReadyFuture")

    def h_wait(e, s, a, d, c, m):
        return VStruct([VEnum(RESULT, z3.If(wait_kind == 0, bv(0, 8), bv(1, 8)), {0: (VOpaque("DhtNetworkResult"),), 1: (VOpaque("P2PError"),)})], "ReadyFuture")

    def h_timeout(e, s, a, d, c, m):
        inner = VEnum(RESULT, z3.If(wait_kind == 0, bv(0, 8), bv(1, 8)), {0: (VOpaque("reply bytes"),), 1: (VOpaque("RecvError"),)})
        return VStruct([VEnum(RESULT, z3.If(wait_kind == 2, bv(1, 8), bv(0, 8)), {0: (inner,), 1: (VOpaque("Elapsed"),)})], "ReadyFuture")

    def h_ident(e, s, a, d, c, m):
        return a[0]

    S = eng.summaries
    S.insert(0, (re.compile(r"^uuid::v4::<impl Uuid>::new_v4$"), h_uuid, "Uuid::new_v4 -> a fresh message identity (assumed not to collide with a pending one)"))
    S.insert(0, (re.compile(r"^<(uuid::)?Uuid as ToString>::to_string$"), h_uuid_str, "Uuid::to_string -> the string of that identity"))
    S.insert(0, (re.compile(r"^TransportHandle::send_message$"), h_send, "ENVIRONMENT TransportHandle::send_message -> arbitrary outcome, no effect on the pending tables"))
    S.insert(0, (re.compile(r"^DhtNetworkManager::wait_for_response$"), h_wait, "ENVIRONMENT DhtNetworkManager::wait_for_response -> reply / closed channel / timeout"))
    S.insert(0, (re.compile(r"^tokio::time::timeout::<.*>$"), h_timeout, "ENVIRONMENT tokio::time::timeout(rx) -> reply / closed channel / elapsed"))
    S.insert(0, (re.compile(r"^<tokio::time::Timeout<.*> as (std::future::)?IntoFuture>::into_future$"), h_ident, "IntoFuture for Timeout: identity"))
    return send_ok, wait_kind


def build_send(ck, src, obs=None):
    """DhtNetworkManager::send_dht_request: whatever the transport and the peer do, nothing of the request remains afterwards,
    and pending requests of other operations that are still within their own timeout are not touched"""
    from summaries import time_le

    eng = ck.engine() if obs is None else ck.meta_engine()
    tmpl = ctx_template(eng)
    oth, oth2, uuid, peer, local = src.bv("other", 64), src.bv("other2", 64), src.bv("uuid", 64), src.bv("peer", 64), src.bv("local", 64)
    prev = src.instant("prev")
    cfg_to = src.bv("cfg.timeout.s", 64)
    probes = {"other": oth, "other2": oth2, "mid": uuid}
    ops0 = src.map("A.ops", 64, tmpl, probes, finite={"other": VStr(oth), "other2": VStr(oth2), "mid": VStr(uuid)})
    ent = {l: entry(eng, ops0, k) for l, k in probes.items()}
    hyps = list(src.hyps) + [oth != oth2, uuid != oth, uuid != oth2, z3.Not(ent["mid"][0]), z3.UGE(cfg_to, 1), z3.ULE(cfg_to, bv(3600, 64))]
    for l in ("other", "other2"):
        hyps += entry_wf(ent[l][1])
        hyps.append(time_le(ent[l][1]["started_at"], prev))  # pending requests were started in the past
    now = mk_time(src.bv("now.s", 64), src.bv("now.ns", 32), "Instant")
    if obs is None:
        st = State()
        rops = eng.alloc(st, ops0)
        send_ok, wait_kind = install_env(eng, src, uuid)
        hyps += src.hyps[-1:]
        cfg = mk_fill(eng, "DhtNetworkConfig", {"local_peer_id": VStr(local), "request_timeout": mk_time(cfg_to, bv(0, 32), "Duration")})
        mgr = mk_fill(eng, "DhtNetworkManager", {"active_operations": rops, "config": cfg, "transport": eng.alloc(st, VOpaque("transport"))})
        st.clock = prev
        eng.clock_readings = []
        st2, out = run_async(eng, ck.fn_in("DhtNetworkManager", "send_dht_request"), [eng.alloc(st, mgr), eng.alloc(st, VStr(peer)), ping(eng)], st)
        pc = st2.pc
        ops1 = eng.load(st2, rops)
        retok = out.idx == bv(0, 8)
        fin = st2.clock
        hyps += [now.f[0] == fin.f[0], now.f[1] == fin.f[1]]
        prefs = [z3.And(a.f[0] == prev.f[0], a.f[1] == prev.f[1]) for a in getattr(eng, "clock_readings", [])] + [z3.Not(send_ok)]
    else:
        send_ok, wait_kind = src.bool("env.send_ok"), src.bv("env.wait_kind", 8)
        pc = z3.BoolVal(True)
        ops1 = harness.obs_map(obs, "post.ops", 64, tmpl, probes)
        retok = z3.BoolVal(bool(obs["ok"]))
        prefs = []
    G = {}
    G["nothing_of_the_request_remains_in_the_pending_table"] = z3.Not(z3.Select(ops1.present, uuid))
    live, same, inv = [], [], []
    for l in ("other", "other2"):
        p0, F0, _ = ent[l]
        live.append(z3.Implies(z3.And(p0, z3.Not(expired(F0, now, 1))), same_entry(ops0, ops1, probes[l], eng=eng)))
        inv.append(z3.Implies(z3.Select(ops1.present, probes[l]), same_entry(ops0, ops1, probes[l], eng=eng)))
    G["pending_requests_within_their_timeout_are_untouched"] = z3.And(*live)
    G["no_pending_request_is_invented_or_altered"] = z3.And(*inv)
    G["the_outcome_is_the_reply_or_the_error"] = retok == z3.And(send_ok, wait_kind == 0)
    R = {"eng": eng, "hyps": hyps, "goals": {g: z3.Implies(pc, f) for g, f in G.items()}, "prefer": prefs}
    R["reach"] = {"reach_reply": z3.And(pc, retok), "reach_send_error": z3.And(pc, z3.Not(send_ok)), "reach_timeout": z3.And(pc, send_ok, wait_kind == 2)}
    return R


RR_CAP = 256


def rr_template():
    return VStruct([VStruct([bv(0, 64)], "OneshotSender"), VStr(bv(0, 64))], "PendingRequest")


def build_rr(ck, src, obs=None):
    """TransportHandle::send_request: refused without registering anything when the pending table is at its cap; otherwise nothing of
    the request remains afterwards whatever the transport and the peer do; other pending requests untouched"""
    eng = ck.engine() if obs is None else ck.meta_engine()
    oth, uuid, peer, proto = src.bv("other", 64), src.bv("uuid", 64), src.bv("peer", 64), src.bv("proto", 64)
    probes = {"other": oth, "mid": uuid}
    tmpl = rr_template()
    reqs0 = src.map("R.reqs", 64, tmpl, probes)
    n0 = src.bv("R.reqs.count", 64)
    hyps = list(src.hyps) + [uuid != oth, z3.Not(z3.Select(reqs0.present, uuid)), z3.ULE(n0, bv(1024, 64)), z3.Implies(z3.Select(reqs0.present, oth), z3.UGE(n0, 1))]
    to_s = src.bv("timeout.s", 64)
    hyps.append(z3.ULE(to_s, bv(1 << 20, 64)))
    if obs is None:
        st = State()
        rreqs = eng.alloc(st, reqs0)
        send_ok, wait_kind = install_env(eng, src, uuid)
        hyps += src.hyps[-1:]
        proto_ok = src.bool("env.proto_ok")

        def h_proto(e, s_, a, d, c, m):
            return VEnum(RESULT, z3.If(proto_ok, bv(0, 8), bv(1, 8)), {0: (UNIT,), 1: (VOpaque("P2PError"),)})

        eng.summaries.insert(0, (re.compile(r"^(transport_handle::)?validate_protocol_name$"), h_proto, "validate_protocol_name -> arbitrary verdict (a predicate of the protocol string)"))
        th = mk_fill(eng, "TransportHandle", {"active_requests": rreqs})
        from values import VBlob

        st.clock = src.instant("prev")
        hyps += src.hyps[-2:]
        st2, out = run_async(eng, ck.fn_in("TransportHandle", "send_request"),
                             [eng.alloc(st, th), eng.alloc(st, VStr(peer)), VStr(proto), VBlob(src.bv("data.id", 64), src.bv("data.len", 64)), mk_time(to_s, bv(0, 32), "Duration")], st)
        pc = st2.pc
        reqs1 = eng.load(st2, rreqs)
        n1 = reqs1.count
        retok = out.idx == bv(0, 8)
        sent = z3.Or(*eng.sent_pcs) if eng.sent_pcs else z3.BoolVal(False)
        prefs = [z3.Not(send_ok)]
    else:
        send_ok, wait_kind, proto_ok = src.bool("env.send_ok"), src.bv("env.wait_kind", 8), src.bool("env.proto_ok")
        pc = z3.BoolVal(True)
        reqs1 = harness.obs_map(obs, "post.reqs", 64, tmpl, probes)
        n1 = bv(int(obs["post.count"]), 64)
        retok = z3.BoolVal(bool(obs["ok"]))
        sent = z3.BoolVal(bool(obs["sent"]))
        prefs = []

    def same(k):
        a = vmap(reqs0.val, lambda x: z3.Select(x, k))
        b = vmap(reqs1.val, lambda x: z3.Select(x, k))
        p0, p1 = z3.Select(reqs0.present, k), z3.Select(reqs1.present, k)
        return z3.And(p1 == p0, z3.Implies(p0, z3.And(*[x == y for x, y in zip(flatten(a), flatten(b))])))

    G = {}
    G["at_the_cap_the_request_is_refused_before_anything_is_sent"] = z3.Implies(z3.UGE(n0, bv(RR_CAP, 64)), z3.And(z3.Not(retok), z3.Not(sent)))
    G["below_the_cap_a_well_formed_request_is_sent"] = z3.Implies(z3.And(z3.ULT(n0, bv(RR_CAP, 64)), proto_ok), sent)
    G["nothing_of_the_request_remains_in_the_pending_table"] = z3.Not(z3.Select(reqs1.present, uuid))
    G["pending_table_size_is_unchanged_afterwards"] = n1 == n0
    G["other_pending_requests_are_untouched"] = same(oth)
    G["success_needs_a_sent_request_and_a_reply"] = z3.Implies(retok, z3.And(proto_ok, send_ok, wait_kind == 0, z3.ULT(n0, bv(RR_CAP, 64))))
    R = {"eng": eng, "hyps": hyps, "goals": {g: z3.Implies(pc, f) for g, f in G.items()}, "prefer": prefs}
    R["reach"] = {"reach_reply": z3.And(pc, retok), "reach_cap": z3.And(pc, z3.UGE(n0, bv(RR_CAP, 64))), "reach_send_error": z3.And(pc, proto_ok, z3.Not(send_ok), z3.ULT(n0, bv(RR_CAP, 64)))}
    return R


def build_rr_reply(ck, src, obs=None):
    """One inbound frame handled by the spawned receive loop of TransportHandle::start_message_receiving_system (its `async move` block is executed as a
    state machine: the channel yields exactly one frame, then closes).  The frame parser, the envelope decoder and the topic test are the ENVIRONMENT
    (arbitrary outcomes); the pending /rr/ table is ARBITRARY.  A pending request is completed only by a response envelope carrying its id that arrives
    from the expected peer, at most once, and nothing else in the table changes."""
    eng = ck.engine(unwind=4) if obs is None else ck.meta_engine()
    mid, oth, sender = src.bv("mid", 64), src.bv("other", 64), src.bv("sender", 64)
    keepalive, parsed, is_rr, env_ok, is_resp = src.bool("frame.keepalive"), src.bool("frame.parsed"), src.bool("frame.topic_is_rr"), src.bool("frame.envelope_ok"), src.bool("frame.is_response")
    probes = {"mid": mid, "other": oth}
    tmpl = rr_template()
    reqs0 = src.map("R.reqs", 64, tmpl, probes)
    hyps = list(src.hyps) + [mid != oth]
    chan = lambda m, k: vmap(m.val, lambda a: z3.Select(a, k)).f[0].f[0]  # noqa: E731
    expd = lambda m, k: vmap(m.val, lambda a: z3.Select(a, k)).f[1].id  # noqa: E731
    p_mid0, p_oth0 = z3.Select(reqs0.present, mid), z3.Select(reqs0.present, oth)
    hyps.append(z3.Implies(z3.And(p_mid0, p_oth0), chan(reqs0, mid) != chan(reqs0, oth)))
    if obs is None:
        st = State()
        rreqs = eng.alloc(st, reqs0)
        names = ck.crate.find(r"start_message_receiving_system::\{closure#0\}::\{closure#0\}$")
        if len(names) != 1:
            raise harness.SymError("receive loop body not found")
        body = ck.crate.body(names[0])
        up = body.upvars
        if set(up) != {"rx", "peers_for_recv", "active_requests", "event_tx"}:
            raise harness.SymError(f"receive loop captures changed: {sorted(up)}")
        caps = [None] * 4
        caps[up["rx"]] = VStruct([bv(0, 64)], "MpscReceiver")
        caps[up["peers_for_recv"]] = eng.alloc(st, VOpaque("peers"))
        caps[up["active_requests"]] = rreqs
        caps[up["event_tx"]] = VOpaque("event_tx")
        from values import VBlob, VCoroutine

        frame = VBlob(src.bv("frame.id", 64), src.bv("frame.len", 64))
        payload = VBlob(src.bv("payload.id", 64), src.bv("payload.len", 64))
        calls = {"recv": 0}
        eng.deliveries = []
        eng.broadcasts = []

        def h_recv(e, s_, a, d, c, m):
            calls["recv"] += 1
            first = calls["recv"] == 1
            item = VStruct([VOpaque("ant PeerId"), frame])
            return VStruct([VEnum(OPTION, bv(1 if first else 0, 8), {0: (), 1: (item,)})], "ReadyFuture")

        def h_pid(e, s_, a, d, c, m):
            return VStr(sender)

        def h_touch(e, s_, a, d, c, m):
            return VStruct([UNIT], "ReadyFuture")

        def h_eq(e, s_, a, d, c, m):
            return keepalive

        info = eng.enum_info("P2PEvent")
        vi = info.index("Message")
        fnames = [f for f, _ in [v for v in eng.adts["P2PEvent"][0].variants if v[0] == "Message"][0][1]]
        data = VBlob(src.bv("data.id", 64), src.bv("data.len", 64))
        fv = {"topic": VStr(src.bv("topic", 64)), "source": VStr(sender), "data": data}
        event = VEnum(info, bv(vi, 8), {vi: tuple(fv[n] for n in fnames)})

        def h_parse(e, s_, a, d, c, m):
            return VEnum(OPTION, z3.If(parsed, bv(1, 8), bv(0, 8)), {0: (), 1: (event,)})

        def h_starts(e, s_, a, d, c, m):
            return is_rr

        envv = mk_fill(eng, "RequestResponseEnvelope", {"message_id": VStr(mid), "is_response": is_resp, "payload": payload})

        def h_env(e, s_, a, d, c, m):
            return VEnum(RESULT, z3.If(env_ok, bv(0, 8), bv(1, 8)), {0: (envv,), 1: (VOpaque("postcard::Error"),)})

        def h_bcast(e, s_, a, d, c, m):
            eng.broadcasts.append(s_.pc)
            return UNIT

        S = eng.summaries
        S.insert(0, (re.compile(r"^tokio::sync::mpsc::Receiver::<.*>::recv$"), h_recv, "ENVIRONMENT mpsc::Receiver::recv -> exactly one frame from an arbitrary authenticated sender, then the channel is closed"))
        S.insert(0, (re.compile(r"^(transport_handle::)?ant_peer_id_to_string$"), h_pid, "ant_peer_id_to_string -> the transport identity of the sender"))
        S.insert(0, (re.compile(r"^(transport_handle::)?touch_peer_last_seen$"), h_touch, "touch_peer_last_seen -> no effect on the pending table"))
        S.insert(0, (re.compile(r"^<Vec<u8> as PartialEq<&\[u8\]>>::eq$"), h_eq, "frame == KEEPALIVE_PAYLOAD -> arbitrary (a predicate of the frame bytes)"))
        S.insert(0, (re.compile(r"^(network::)?parse_protocol_message$"), h_parse, "ENVIRONMENT parse_protocol_message -> arbitrary outcome; a surfaced event carries the connection identity (C05 decides that)"))
        S.insert(0, (re.compile(r"^core::str::<impl str>::starts_with::<&str>$"), h_starts, "topic.starts_with(\"/rr/\") -> arbitrary (a predicate of the topic)"))
        S.insert(0, (re.compile(r"^postcard::from_bytes::<.*RequestResponseEnvelope>$"), h_env, "ENVIRONMENT postcard::from_bytes::<RequestResponseEnvelope> -> arbitrary decode result"))
        S.insert(0, (re.compile(r"^(transport_handle::)?broadcast_event$"), h_bcast, "broadcast_event -> recorded (the frame is surfaced as an event)"))
        co = VCoroutine("{async block@receive loop}", names[0].rsplit("::{closure#0}", 1)[0], caps, bv(0, 32), {})
        ref = eng.alloc(st, co)
        r2 = eng.run_body(body, [VStruct([ref], "Pin"), eng.alloc(st, VOpaque("task::Context"))], st)
        if r2 is None:
            raise harness.SymError("receive loop diverges")
        st2, poll = r2
        eng.oblige(st2, "suspension: the receive loop returned Pending", poll.idx != bv(0, 8), kind="assert")
        pc = z3.simplify(z3.And(st2.pc, poll.idx == bv(0, 8)))
        reqs1 = eng.load(st2, rreqs)
        dl = list(eng.deliveries)
        to_mid = z3.Or(*[z3.And(d["pc"], d["chan"] == chan(reqs0, mid)) for d in dl]) if dl else z3.BoolVal(False)
        elsewhere = z3.Or(*[z3.And(d["pc"], d["chan"] != chan(reqs0, mid)) for d in dl]) if dl else z3.BoolVal(False)
        twice = z3.Or(*[z3.And(dl[i]["pc"], dl[j]["pc"]) for i in range(len(dl)) for j in range(i)]) if len(dl) > 1 else z3.BoolVal(False)
        pay_ok = z3.And(*[z3.Implies(d["pc"], flatten(d["value"])[0] == payload.id) for d in dl]) if dl else z3.BoolVal(True)
        surfaced = z3.Or(*eng.broadcasts) if eng.broadcasts else z3.BoolVal(False)
    else:
        pc = z3.BoolVal(True)
        reqs1 = harness.obs_map(obs, "post.reqs", 64, tmpl, probes)
        to_mid = z3.BoolVal(bool(obs["delivered_mid"]))
        elsewhere = z3.BoolVal(bool(obs["delivered_other"]))
        twice = z3.BoolVal(False)
        pay_ok = z3.BoolVal(bool(obs.get("payload_ok", True)))
        surfaced = z3.BoolVal(bool(obs.get("surfaced", False)))
    is_response_frame = z3.And(z3.Not(keepalive), parsed, is_rr, env_ok, is_resp)
    authorised = expd(reqs0, mid) == sender

    def same(k):
        a = vmap(reqs0.val, lambda x: z3.Select(x, k))
        b = vmap(reqs1.val, lambda x: z3.Select(x, k))
        p0, p1 = z3.Select(reqs0.present, k), z3.Select(reqs1.present, k)
        return z3.And(p1 == p0, z3.Implies(p0, z3.And(*[x == y for x, y in zip(flatten(a), flatten(b))])))

    G = {}
    G["a_reply_completes_only_the_request_with_its_identifier_and_only_from_the_expected_peer"] = z3.Implies(to_mid, z3.And(is_response_frame, p_mid0, authorised))
    G["no_other_request_is_completed"] = z3.Not(elsewhere)
    G["a_request_is_completed_at_most_once_and_then_leaves_the_table"] = z3.And(z3.Not(twice), z3.Implies(to_mid, z3.Not(z3.Select(reqs1.present, mid))))
    G["matching_reply_from_the_expected_peer_is_delivered"] = z3.Implies(z3.And(is_response_frame, p_mid0, authorised), to_mid)
    G["delivered_reply_carries_the_envelope_payload"] = pay_ok
    G["other_pending_requests_are_untouched"] = same(oth)
    G["a_reply_that_is_not_delivered_leaves_the_request_pending_and_unchanged"] = z3.Implies(z3.Not(to_mid), same(mid))
    G["an_rr_response_is_consumed_everything_else_that_parses_is_surfaced"] = surfaced == z3.And(z3.Not(keepalive), parsed, z3.Not(z3.And(is_rr, env_ok, is_resp)))
    R = {"eng": eng, "hyps": hyps, "goals": {g: z3.Implies(pc, f) for g, f in G.items()}}
    R["reach"] = {"reach_delivered": z3.And(pc, to_mid), "reach_wrong_peer": z3.And(pc, is_response_frame, p_mid0, z3.Not(authorised)), "reach_surfaced": z3.And(pc, surfaced)}
    return R


ENGINE_CAP = 10_000


def build_engine_query(ck, src, obs=None):
    """DhtCoreEngine::query_node_for_key (the core engine's own pending table, an LruCache capped at 10 000): refused at the cap before anything is registered or sent; for every
    outcome of the send and of the wait nothing of the request remains; other pending queries untouched.  DhtCoreEngine::handle_response: completes exactly the query with that id, once."""
    eng = ck.engine() if obs is None else ck.meta_engine()
    oth, uuid = src.bv("other", 64), src.bv("uuid", 64)
    probes = {"other": oth, "mid": uuid}
    tmpl = VStruct([bv(0, 64)], "OneshotSender")
    reqs0 = src.map("E.pending", 64, tmpl, probes)
    n0 = src.bv("E.pending.count", 64)
    hyps = list(src.hyps) + [uuid != oth, z3.Not(z3.Select(reqs0.present, uuid)), z3.ULE(n0, bv(20_000, 64)), z3.Implies(z3.Select(reqs0.present, oth), z3.UGE(n0, 1))]
    if obs is None:
        st = State()
        from values import VMap

        reqs0 = VMap(reqs0.ksort, reqs0.present, reqs0.val, n0, None, reqs0.enum)
        rreqs = eng.alloc(st, reqs0)
        send_ok, wait_kind = install_env(eng, src, uuid)
        hyps += src.hyps[-1:]
        ser_ok = src.bool("env.serialize_ok")

        def h_ser(e, s_, a, d, c, m):
            from values import VBlob

            return VEnum(RESULT, z3.If(ser_ok, bv(0, 8), bv(1, 8)), {0: (VBlob(e.fresh_bv("req.id", 64), e.fresh_bv("req.len", 64)),), 1: (VOpaque("postcard::Error"),)})

        def h_dyn_send(e, s_, a, d, c, m):
            eng.sent_pcs.append(s_.pc)
            return VStruct([VEnum(RESULT, z3.If(send_ok, bv(0, 8), bv(1, 8)), {0: (UNIT,), 1: (VOpaque("P2PError"),)})], "ReadyFuture")

        def h_hex(e, s_, a, d, c, m):
            return VStr(e.fresh_bv("peer.hex", 64))

        eng.summaries.insert(0, (re.compile(r"^(postcard::)?to_stdvec::<.*DhtRequestWrapper>$"), h_ser, "ENVIRONMENT postcard::to_stdvec(&request) -> arbitrary outcome"))
        eng.summaries.insert(0, (re.compile(r"^<dyn (network::)?NetworkSender as (network::)?NetworkSender>::send_message(::<.*>)?$"), h_dyn_send,
                                 "ENVIRONMENT <dyn NetworkSender>::send_message -> arbitrary outcome, no effect on the pending table"))
        eng.summaries.insert(0, (re.compile(r"^<(dht::core_engine::|core_engine::)?NodeId as ToString>::to_string$"), h_hex, "NodeId::to_string -> some string"))
        # the reply (when one arrives) is an arbitrary DhtResponse of one of three shapes: a RetrieveReply, an Error, or something else (LeaveAck)
        rinfo = eng.enum_info("DhtResponse")
        rk = src.bv("env.reply_kind", 8)
        import c05
        from values import VBlob

        ri, ei, li = rinfo.index("RetrieveReply"), rinfo.index("Error"), rinfo.index("LeaveAck")
        ef = c05.variant_fields(eng, "DhtResponse", "Error")
        evals = {"code": VOpaque("ErrorCode"), "message": VStr(src.bv("env.reply_msg", 64)), "retry_after": VEnum(OPTION, bv(0, 8), {0: ()})}
        reply = VEnum(rinfo, z3.If(rk == 0, bv(ri, 8), z3.If(rk == 1, bv(ei, 8), bv(li, 8))),
                      {ri: (VEnum(OPTION, z3.If(src.bool("env.reply_some"), bv(1, 8), bv(0, 8)), {0: (), 1: (VBlob(src.bv("env.reply_val", 64), src.bv("env.reply_len", 64)),)}),),
                       ei: tuple(evals[f] for f in ef), li: (src.bool("env.reply_confirmed"),)})

        def h_timeout2(e, s_, a, d, c, m):
            inner = VEnum(RESULT, z3.If(wait_kind == 0, bv(0, 8), bv(1, 8)), {0: (reply,), 1: (VOpaque("RecvError"),)})
            return VStruct([VEnum(RESULT, z3.If(wait_kind == 2, bv(1, 8), bv(0, 8)), {0: (inner,), 1: (VOpaque("Elapsed"),)})], "ReadyFuture")

        eng.summaries.insert(0, (re.compile(r"^tokio::time::timeout::<.*>$"), h_timeout2, "ENVIRONMENT tokio::time::timeout(rx) -> an arbitrary DhtResponse / closed channel / elapsed"))
        E = mk_fill(eng, "DhtCoreEngine", {"pending_requests": rreqs})
        node = VOpaque("NodeInfo")
        import c02

        ninfo = c02.node_info(eng, VArr([bv(1, 8)] * 32), 1)
        st.clock = src.instant("prev")
        hyps += src.hyps[-2:]
        st2, out = run_async(eng, ck.fn_in("DhtCoreEngine", "query_node_for_key"),
                             [eng.alloc(st, E), VOpaque("Arc<dyn NetworkSender>"), eng.alloc(st, ninfo), eng.alloc(st, VStruct([VArr([bv(0, 8)] * 32)], "DhtKey"))], st)
        pc = st2.pc
        reqs1 = eng.load(st2, rreqs)
        n1 = reqs1.count
        retok = out.idx == bv(0, 8)
        sent = z3.Or(*eng.sent_pcs) if eng.sent_pcs else z3.BoolVal(False)
        # outcomes a native run can force: a send error (mock transport) or a timeout
        prefs = [ser_ok, z3.Or(z3.Not(send_ok), wait_kind == 2)]
    else:
        send_ok, wait_kind, ser_ok = src.bool("env.send_ok"), src.bv("env.wait_kind", 8), src.bool("env.serialize_ok")
        pc = z3.BoolVal(True)
        reqs1 = harness.obs_map(obs, "post.pending", 64, tmpl, probes)
        n1 = bv(int(obs["post.count"]), 64)
        retok = z3.BoolVal(bool(obs["ok"]))
        sent = z3.BoolVal(bool(obs["sent"]))
        prefs = []

    def same(k):
        a = vmap(reqs0.val, lambda x: z3.Select(x, k))
        b = vmap(reqs1.val, lambda x: z3.Select(x, k))
        p0, p1 = z3.Select(reqs0.present, k), z3.Select(reqs1.present, k)
        return z3.And(p1 == p0, z3.Implies(p0, z3.And(*[x == y for x, y in zip(flatten(a), flatten(b))])))

    at_cap = z3.UGE(n0, bv(ENGINE_CAP, 64))
    G = {}
    G["at_the_cap_the_query_is_refused_before_anything_is_registered_or_sent"] = z3.Implies(at_cap, z3.And(z3.Not(retok), z3.Not(sent), n1 == n0))
    G["below_the_cap_a_serialisable_query_is_sent"] = z3.Implies(z3.And(z3.Not(at_cap), ser_ok), sent)
    # the reply path removes the entry in handle_response; every other outcome must remove it here
    G["nothing_of_the_query_remains_in_the_pending_table"] = z3.Implies(z3.Not(z3.And(z3.Not(at_cap), ser_ok, send_ok, wait_kind != 2)), z3.Not(z3.Select(reqs1.present, uuid)))
    G["a_timed_out_query_is_removed"] = z3.Implies(z3.And(z3.Not(at_cap), ser_ok, send_ok, wait_kind == 2), z3.And(z3.Not(z3.Select(reqs1.present, uuid)), n1 == n0))
    G["other_pending_queries_are_untouched"] = same(oth)
    R = {"eng": eng, "hyps": hyps, "goals": {g: z3.Implies(pc, f) for g, f in G.items()}, "prefer": prefs}
    R["reach"] = {"reach_cap": z3.And(pc, at_cap), "reach_send_error": z3.And(pc, z3.Not(at_cap), ser_ok, z3.Not(send_ok)), "reach_timeout": z3.And(pc, z3.Not(at_cap), ser_ok, send_ok, wait_kind == 2)}
    return R


def build_engine_response(ck, src, obs=None):
    """DhtCoreEngine::handle_response: one response against an ARBITRARY pending-query table completes exactly the query carrying its id, once, and removes it; nothing else changes"""
    eng = ck.engine() if obs is None else ck.meta_engine()
    mid, oth = src.bv("mid", 64), src.bv("other", 64)
    probes = {"mid": mid, "other": oth}
    tmpl = VStruct([bv(0, 64)], "OneshotSender")
    reqs0 = src.map("E.pending", 64, tmpl, probes)
    n0 = src.bv("E.pending.count", 64)
    chan = lambda m, k: vmap(m.val, lambda a: z3.Select(a, k)).f[0]  # noqa: E731
    p_mid0, p_oth0 = z3.Select(reqs0.present, mid), z3.Select(reqs0.present, oth)
    hyps = list(src.hyps) + [mid != oth, z3.Implies(z3.And(p_mid0, p_oth0), chan(reqs0, mid) != chan(reqs0, oth)), z3.ULE(n0, bv(20_000, 64)),
                             z3.Implies(z3.Or(p_mid0, p_oth0), z3.UGE(n0, 1)), z3.Implies(z3.And(p_mid0, p_oth0), z3.UGE(n0, 2))]
    if obs is None:
        st = State()
        from values import VMap

        reqs0 = VMap(reqs0.ksort, reqs0.present, reqs0.val, n0, None, reqs0.enum)
        rreqs = eng.alloc(st, reqs0)
        eng.deliveries = []
        E = mk_fill(eng, "DhtCoreEngine", {"pending_requests": rreqs})
        wrapper = mk_fill(eng, "DhtResponseWrapper", {"id": VStr(mid), "response": VOpaque("DhtResponse")})
        st2, out = run_async(eng, ck.fn_in("DhtCoreEngine", "handle_response"), [eng.alloc(st, E), wrapper], st)
        pc = st2.pc
        reqs1 = eng.load(st2, rreqs)
        n1 = reqs1.count
        dl = list(eng.deliveries)
        to_mid = z3.Or(*[z3.And(d["pc"], d["chan"] == chan(reqs0, mid)) for d in dl]) if dl else z3.BoolVal(False)
        elsewhere = z3.Or(*[z3.And(d["pc"], d["chan"] != chan(reqs0, mid)) for d in dl]) if dl else z3.BoolVal(False)
        twice = z3.Or(*[z3.And(dl[i]["pc"], dl[j]["pc"]) for i in range(len(dl)) for j in range(i)]) if len(dl) > 1 else z3.BoolVal(False)
    else:
        pc = z3.BoolVal(True)
        reqs1 = harness.obs_map(obs, "post.pending", 64, tmpl, probes)
        n1 = bv(int(obs["post.count"]), 64)
        to_mid = z3.BoolVal(bool(obs["delivered_mid"]))
        elsewhere = z3.BoolVal(bool(obs["delivered_other"]))
        twice = z3.BoolVal(False)
    p_oth1 = z3.Select(reqs1.present, oth)
    G = {}
    G["a_response_completes_exactly_the_query_with_its_identifier"] = z3.And(to_mid == p_mid0, z3.Not(elsewhere), z3.Not(twice))
    G["a_completed_query_leaves_the_table"] = z3.And(z3.Not(z3.Select(reqs1.present, mid)), n1 == z3.If(p_mid0, n0 - 1, n0))
    G["other_pending_queries_are_untouched"] = z3.And(p_oth1 == p_oth0, z3.Implies(p_oth0, chan(reqs1, oth) == chan(reqs0, oth)))
    return {"eng": eng, "hyps": hyps, "goals": {g: z3.Implies(pc, f) for g, f in G.items()}, "reach": {"reach_delivered": z3.And(pc, to_mid), "reach_unknown_id": z3.And(pc, z3.Not(p_mid0))}}


def register(ck, tag, driver, params, builder):
    src = Src()
    R = builder(src, None)
    rp = harness.make_replayer(ck, "core_engine" if driver in ("engine_query", "engine_response") else ("dht_network_manager" if driver not in ("rr_send", "rr_reply") else "transport_handle"), driver, lambda s, obs: builder(s, obs), params)
    ck.register_src(driver, params, src)
    for g, f in R["goals"].items():
        ck.prove(f"{tag}/{g}", R["eng"], R["hyps"], f, on_sat=rp, meta={"goal": g, "prefer": R.get("prefer") or []})
    for g, f in R["reach"].items():
        ck.reach(f"{tag}/{g}", R["eng"], R["hyps"], f)
    ck.side(f"{tag}/side", R["eng"], R["hyps"], on_sat=rp)
    ck.out.samples.append({"obligation": tag, "goals": list(R["goals"])})


def builder_for(ck, driver, params):
    if driver == "dht_response":
        return lambda s, obs: build_response(ck, s, obs)
    if driver == "dht_send":
        return lambda s, obs: build_send(ck, s, obs)
    if driver == "rr_send":
        return lambda s, obs: build_rr(ck, s, obs)
    if driver == "rr_reply":
        return lambda s, obs: build_rr_reply(ck, s, obs)
    if driver == "engine_query":
        return lambda s, obs: build_engine_query(ck, s, obs)
    if driver == "engine_response":
        return lambda s, obs: build_engine_response(ck, s, obs)
    raise harness.SymError("unknown driver " + driver)


def run(tier):
    ck = MirCheck("C04", tier)
    ck.guarded("dht_response", lambda: register(ck, "dht_response", "dht_response", {}, builder_for(ck, "dht_response", {})))
    ck.guarded("dht_send", lambda: register(ck, "dht_send", "dht_send", {}, builder_for(ck, "dht_send", {})))
    ck.guarded("rr_send", lambda: register(ck, "rr_send", "rr_send", {}, builder_for(ck, "rr_send", {})))
    ck.guarded("rr_reply", lambda: register(ck, "rr_reply", "rr_reply", {}, builder_for(ck, "rr_reply", {})))
    ck.guarded("engine_query", lambda: register(ck, "engine_query", "engine_query", {}, builder_for(ck, "engine_query", {})))
    ck.guarded("engine_response", lambda: register(ck, "engine_response", "engine_response", {}, builder_for(ck, "engine_response", {})))
    ck.run_queries()
    ck.out.bounds = ["DhtNetworkManager::handle_dht_response: one reply (arbitrary message id, claimed source, transport sender, result present or not) against an ARBITRARY pending table "
                     "(HashMap<String, DhtOperationContext> as SMT arrays over abstract string identities; contacted-node lists of length <= 2; channels as identities), observed at the "
                     "addressed entry and at one arbitrary other entry"]
    ck.out.outside = ["interleavings of several tasks (the pending tables are protected by one lock each; the symbolic execution is single-task)", "timeouts as real time",
                      "the /rr/ reply path inside TransportHandle's spawned receive loop", "DhtCoreEngine::pending_requests (LRU of the core engine's own queries)"]
    ck.out.assumptions = ["single-task execution; std / tokio locks uncontended", "strings are abstract identities (equal ids <=> equal strings)",
                          "oneshot::Sender::send succeeds iff the receiver is alive (uninterpreted predicate of the channel); a delivery is the call of send on the request's own sender"]
    ck.out.trusted.append("z3 4.8.12 / z3 5.1 / cvc5 1.0 portfolio")
    return ck.finish("./check C04 --tier " + tier)


def replay(path):
    return harness.replay_file(path, lambda ck, driver, params: (lambda s, obs: builder_for(ck, driver, params)(s, obs)))
