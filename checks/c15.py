"""C15 — close-group membership verdict (engine M over the real validate_membership and everything it calls)."""
import os
import sys

import z3

sys.path.insert(0, os.path.join(os.path.dirname(os.path.abspath(__file__)), "..", "lib", "mirsym"))
import harness  # noqa: E402
from engine import State  # noqa: E402
from harness import MirCheck, Src, fpv  # noqa: E402
from summaries import OPTION, mk_time  # noqa: E402
from values import VEnum, VOpaque, VSeq, VStr, VStruct, bv  # noqa: E402

F64 = z3.Float64()
RNE = z3.RNE()
FAIL = ["NotInCloseGroup", "EvictedFromCloseGroup", "InsufficientConfirmation", "LowTrustScore", "InsufficientGeographicDiversity", "SuspectedCollusion",
        "AttackModeTriggered"]


def mk_struct(eng, tyname, vals):
    adt = eng.struct_adt(tyname)
    names = [f for f, _ in adt.fields]
    if set(names) != set(vals):
        raise harness.SymError(f"struct {tyname} fields changed: {names} vs {sorted(vals)}")
    return VStruct([vals[f] for f in names], adt.name)


def fld(eng, v, tyname, fname):
    return v.f[eng.struct_adt(tyname).field_index(fname)]


def opt(some, payload):
    return VEnum(OPTION, z3.If(some, bv(1, 8), bv(0, 8)), {0: (), 1: (payload,)})


def in_unit(x):
    return z3.And(z3.fpGEQ(x, fpv(0.0)), z3.fpLEQ(x, fpv(1.0)))


GRID = [0.1, 0.29, 0.3, 0.9]
MONO_NORMAL_MAX = 3


def inputs(eng, src, N, grid, small_lat=False):
    W = []
    hyps = []
    for i in range(N):
        w = {"confirms": src.bool(f"w{i}.confirms"), "trust_some": src.bool(f"w{i}.trust_some"),
             "region_some": src.bool(f"w{i}.region_some"), "region": src.bv(f"w{i}.region", 8), "lat_s": src.bv(f"w{i}.lat_s", 64), "lat_msp": src.bv(f"w{i}.lat_msp", 32)}
        if grid:
            sel = src.bv(f"w{i}.trust_sel", 2)
            w["trust"] = z3.If(sel == 0, fpv(GRID[0]), z3.If(sel == 1, fpv(GRID[1]), z3.If(sel == 2, fpv(GRID[2]), fpv(GRID[3]))))
        else:
            w["trust"] = src.f64(f"w{i}.trust")
            hyps.append(in_unit(w["trust"]))
        w["lat_ns"] = w["lat_msp"] * bv(10**6, 32)
        hyps += [z3.ULT(w["lat_msp"], bv(1000, 32)), z3.ULT(w["lat_s"], bv(1 << 10, 64)), z3.ULT(w["region"], bv(5, 8))]
        if small_lat:
            hyps += [w["lat_s"] == 0, z3.ULT(w["lat_msp"], bv(256, 32))]
        W.append(w)
    ln = bv(N, 64)  # one obligation set per exact witness count (case split on the length keeps every query small)
    cfg = {"min_peers_to_query": src.bv("cfg.min_peers", 64), "max_peers_to_query": src.bv("cfg.max_peers", 64),
           "trust_weighted_threshold": src.f64("cfg.tw_threshold"), "bft_threshold": src.f64("cfg.bft_threshold"),
           "min_witness_trust": src.f64("cfg.min_witness_trust"), "min_regions": src.bv("cfg.min_regions", 64)}
    hyps += [z3.UGE(cfg["min_peers_to_query"], 1), z3.ULE(cfg["min_peers_to_query"], bv(N + 1, 64)), z3.ULE(cfg["min_regions"], 4),
             in_unit(cfg["trust_weighted_threshold"]), z3.fpGT(cfg["trust_weighted_threshold"], fpv(0.0)),
             in_unit(cfg["bft_threshold"]), z3.fpGT(cfg["bft_threshold"], fpv(0.0)), in_unit(cfg["min_witness_trust"])]
    cand_some, cand = src.bool("cand.trust_some"), src.f64("cand.trust")
    hyps.append(in_unit(cand))
    flip = src.bv("flip", 64)
    return W, ln, cfg, cand_some, cand, flip, hyps


def response_value(eng, w, confirms):
    return mk_struct(eng, "CloseGroupResponse", {
        "peer_id": VOpaque("peer_id"), "confirms_membership": confirms, "peer_trust_score": opt(w["trust_some"], w["trust"]),
        "peer_region": opt(w["region_some"], VStr(z3.ZeroExt(56, w["region"]))), "response_latency": mk_time(w["lat_s"], w["lat_ns"], "Duration"),
        "received_at": mk_time(bv(0, 64), bv(0, 32), "Instant")})


def run_validate(ck, eng, W, confirms, ln, cfg, bft, cand_some, cand):
    st = State()
    config = mk_struct(eng, "CloseGroupValidatorConfig", dict(
        cfg, query_timeout=mk_time(bv(5, 64), bv(0, 32), "Duration"), auto_escalate=z3.BoolVal(True),
        enforcement_mode=VEnum(eng.enum_info("CloseGroupEnforcementMode"), bv(0, 8), {0: (), 1: ()})))
    validator = mk_struct(eng, "CloseGroupValidator", {
        "config": config, "attack_mode": z3.BoolVal(bft), "attack_indicators": VOpaque("attack_indicators"), "close_group_history": VOpaque("history"),
        "validation_cache": VOpaque("cache"), "cache_ttl": mk_time(bv(60, 64), bv(0, 32), "Duration")})
    rv = eng.alloc(st, validator)
    seq = VSeq([response_value(eng, w, c) for w, c in zip(W, confirms)], ln)
    rs = eng.alloc(st, seq)
    rid = eng.alloc(st, VOpaque("node_id"))
    st2, res = eng.call(ck.fn(r"close_group_validator::<impl at [^>]*>::validate_membership$"), [rv, rid, rs, opt(cand_some, cand)], st)
    R = lambda n: fld(eng, res, "CloseGroupValidationResult", n)  # noqa: E731
    fr = R("failure_reasons")
    info = eng.enum_info("CloseGroupFailure")
    has = {}
    for name in FAIL:
        vi = info.index(name)
        has[name] = z3.Or(*[z3.And(z3.ULT(bv(i, 64), fr.len), e.idx == bv(vi, 8)) for i, e in enumerate(fr.elems)]) if fr.elems else z3.BoolVal(False)
    return {"pc": st2.pc, "valid": R("is_valid"), "ratio": R("confirmation_ratio"), "weighted": R("weighted_confirmation"), "regions": R("confirming_regions"),
            "used_bft": R("used_bft_consensus"), "has": has}


def obs_result(o):
    f = lambda bits: z3.simplify(z3.fpBVToFP(bv(int(bits), 64), F64))  # noqa: E731
    return {"pc": z3.BoolVal(True), "valid": z3.BoolVal(bool(o["valid"])), "ratio": f(o["ratio"]), "weighted": f(o["weighted"]), "regions": bv(int(o["regions"]), 64),
            "used_bft": z3.BoolVal(bool(o["used_bft"])), "has": {n: z3.BoolVal(n in o["failures"]) for n in FAIL}}


def bsum(conds):
    t = bv(0, 64)
    for c in conds:
        t = t + z3.If(c, bv(1, 64), bv(0, 64))
    return t


def build(ck, bft, N, src, obs=None, grid=None):
    eng = ck.engine(unwind=N + 2) if obs is None else ck.meta_engine()
    if grid is None:
        grid = not bft
    W, ln, cfg, cand_some, cand, flip, hyps = inputs(eng, src, N, grid, small_lat=(N >= 3))
    hyps = list(src.hyps) + hyps
    confA = [w["confirms"] for w in W]
    flip_ok = z3.And(z3.ULT(flip, ln), z3.Or(*[z3.And(flip == bv(i, 64), confA[i]) for i in range(N)])) if N else z3.BoolVal(False)
    confB = [z3.And(c, flip != bv(i, 64)) for i, c in enumerate(confA)]
    if obs is None:
        A = run_validate(ck, eng, W, confA, ln, cfg, bft, cand_some, cand)
        B = run_validate(ck, eng, W, confB, ln, cfg, bft, cand_some, cand)
    else:
        A, B = obs_result(obs["A"]), obs_result(obs["B"])
    valid = [z3.ULT(bv(i, 64), ln) for i in range(N)]
    twt = [z3.If(w["trust_some"], w["trust"], fpv(0.0)) for w in W]
    trusted = [z3.And(valid[i], z3.fpGEQ(twt[i], cfg["min_witness_trust"])) for i in range(N)]
    T = bsum(trusted)
    C = bsum([z3.And(t, c) for t, c in zip(trusted, confA)])
    reg_items = [(z3.And(valid[i], confA[i], W[i]["region_some"]), W[i]["region"]) for i in range(N)]
    regions = bv(0, 64)
    for i, (c, k) in enumerate(reg_items):
        dup = z3.Or(*[z3.And(cj, kj == k) for cj, kj in reg_items[:i]]) if i else z3.BoolVal(False)
        regions = regions + z3.If(z3.And(c, z3.Not(dup)), bv(1, 64), bv(0, 64))
    cand_low = z3.And(cand_some, z3.fpLT(cand, cfg["min_witness_trust"]))
    enough = z3.UGE(ln, cfg["min_peers_to_query"])
    toF = lambda x: z3.fpUnsignedToFP(RNE, x, F64)  # noqa: E731
    G = {}
    pcA = A["pc"]
    if bft:
        quorum = z3.And(enough, z3.Not(cand_low), z3.UGE(T, cfg["min_peers_to_query"]), z3.fpGEQ(z3.fpDiv(RNE, toF(C), toF(T)), cfg["bft_threshold"]),
                        z3.UGE(regions, cfg["min_regions"]), z3.Not(A["has"]["SuspectedCollusion"]))
        G["bft/accepted_only_with_byzantine_quorum"] = z3.Implies(A["valid"], quorum)
        for f in (1, 2, 3):
            if 3 * f + 1 <= N:
                G[f"bft/f={f}_liars_cannot_force_acceptance"] = z3.Implies(
                    z3.And(T == bv(3 * f + 1, 64), z3.ULE(C, bv(f, 64)), z3.fpGEQ(cfg["bft_threshold"], fpv(0.34))), z3.Not(A["valid"]))
        G["bft/uses_bft_flag"] = z3.Implies(z3.And(enough, z3.Not(cand_low)), A["used_bft"])
    else:
        # trust-weighted share, summed in witness order exactly as documented (unknown trust weighs 0.5)
        tot, conf = fpv(0.0), fpv(0.0)
        for i in range(N):
            wgt = z3.If(W[i]["trust_some"], W[i]["trust"], fpv(0.5))
            tot = z3.If(valid[i], z3.fpAdd(RNE, tot, wgt), tot)
            conf = z3.If(z3.And(valid[i], confA[i]), z3.fpAdd(RNE, conf, wgt), conf)
        share = z3.If(z3.fpGT(tot, fpv(0.0)), z3.fpDiv(RNE, conf, tot), fpv(0.0))
        G["normal/accepted_iff_confirming_trust_share_reaches_threshold"] = A["valid"] == z3.And(enough, z3.Not(cand_low), z3.fpGEQ(share, cfg["trust_weighted_threshold"]))
        G["normal/does_not_use_bft_flag"] = z3.Not(A["used_bft"])
    G["gate/too_few_responses_rejected_with_reason"] = z3.Implies(z3.Not(enough), z3.And(z3.Not(A["valid"]), A["has"]["InsufficientConfirmation"]))
    G["gate/low_trust_candidate_rejected_with_reason"] = z3.Implies(z3.And(enough, cand_low), z3.And(z3.Not(A["valid"]), A["has"]["LowTrustScore"]))
    if bft or N <= MONO_NORMAL_MAX:
        # normal mode compares two different f64 sums: decided for n <= MONO_NORMAL_MAX only (larger n exceed the solver cap: outside the claim)
        G["monotone/denial_never_turns_rejection_into_acceptance"] = z3.Implies(z3.And(flip_ok, B["pc"], B["valid"]), A["valid"])
    # completeness: unanimous confirmation by enough trusted, regionally spread witnesses with distinct response times
    ms = [w["lat_s"] * bv(1000, 64) + z3.ZeroExt(32, w["lat_msp"]) for w in W]  # latencies are whole milliseconds
    gaps = z3.And(*[z3.Implies(z3.And(valid[i], valid[j]), z3.Or(z3.UGE(ms[i], ms[j] + 10), z3.UGE(ms[j], ms[i] + 10)))
                    for i in range(N) for j in range(i)]) if N > 1 else z3.BoolVal(True)
    unanimous = z3.And(*[z3.Implies(valid[i], z3.And(confA[i], trusted[i])) for i in range(N)])
    if not bft or N <= COMPLETE_BFT_MAX:
        # BFT mode sorts the latencies for the collusion heuristic: with 6 or 7 witnesses no solver answers within the cap (outside the claim, not failed)
        G["complete/unanimous_trusted_spread_distinct_is_accepted"] = z3.Implies(
            z3.And(enough, z3.Not(cand_low), unanimous, z3.UGE(regions, cfg["min_regions"]), gaps, z3.fpGT(cfg["min_witness_trust"], fpv(0.0))), A["valid"])
    G["regions/reported_count_is_number_of_distinct_confirming_regions"] = z3.Implies(z3.And(enough, z3.Not(cand_low)), A["regions"] == regions)
    return {"eng": eng, "hyps": hyps, "goals": {g: z3.Implies(pcA, f) for g, f in G.items()},
            "reach": {"reach_valid": z3.And(pcA, A["valid"]), "reach_invalid": z3.And(pcA, enough, z3.Not(cand_low), z3.Not(A["valid"]))}}


COMPLETE_BFT_MAX = 5


def register(ck, bft, N):
    params = {"bft": bft, "N": N}
    tag = f"{'bft' if bft else 'normal'}[n={N}]"
    src = Src()
    R = build(ck, bft, N, src)
    rp = harness.make_replayer(ck, "close_group_validator", "validate_membership", lambda s, obs: build(ck, bft, N, s, obs), params)
    ck.register_src("validate_membership", params, src)
    for g, f in R["goals"].items():
        ck.prove(f"{tag}/{g}", R["eng"], R["hyps"], f, on_sat=rp, meta={"goal": g, "fp_lemmas": g.startswith("monotone/") or g.startswith("complete/")})
    for g, f in R["reach"].items():
        if N >= 1:
            ck.reach(f"{tag}/{g}", R["eng"], R["hyps"], f)
    ck.side(f"{tag}/side", R["eng"], R["hyps"], on_sat=rp)
    ck.out.samples.append({"obligation": tag, "inputs": f"0..{N} witnesses: confirms, trust None|" + ("any f64 in [0,1]" if bft else "{0.1,0.29,0.3,0.9}") + ", region None|5 ids, latency whole ms < 2^20; symbolic config; candidate trust None|f64",
                           "goals": list(R["goals"])})


def run(tier):
    ck = MirCheck("C15", tier)
    sizes = [0, 1, 2, 3, 4, 5] if tier == "quick" else [0, 1, 2, 3, 4, 5, 6, 7]
    for N in sizes:
        for bft in (True, False):
            ck.guarded(f"{'bft' if bft else 'normal'}[n={N}]", lambda bft=bft, N=N: register(ck, bft, N))
    ck.run_queries()
    ck.out.bounds = [f"witness sets of every size in {sizes} (one obligation set per size); every witness: confirms bool, trust None or (BFT mode) any finite f64 in [0,1] / (normal mode) one of {{0.1,0.29,0.3,0.9}} (the property's grid), region None or one of 5 ids, latency any whole number of ms < 2^20",
                     "config symbolic: min_peers 1..n+1, thresholds any f64 in (0,1], min_witness_trust any f64 in [0,1], min_regions 0..4; candidate trust None or f64 in [0,1]",
                     "both modes (attack/BFT and normal); loops unrolled n+2 with unwinding assertions"]
    ck.out.outside = [f"witness sets larger than {sizes[-1]}", f"normal-mode monotonicity for more than {MONO_NORMAL_MAX} witnesses (two different f64 sums; solver cap)", f"BFT-mode completeness for more than {COMPLETE_BFT_MAX} witnesses (sorted latencies; solver cap)", "validate()/validate_trust_only cache paths (time-based HashMap cache)", "NaN / out-of-range trust values",
                      "enforcement mode (only read by validate(), not by validate_membership)"]
    ck.out.assumptions = ["single-threaded execution (AtomicBool attack flag read once)", "f liars bound assumes bft_threshold >= 0.34"]
    ck.out.trusted.append("z3 4.8.12 / z3 5.1 / cvc5 1.0 portfolio")
    return ck.finish("./check C15 --tier " + tier)


def replay(path):
    return harness.replay_file(path, lambda ck, driver, params: (lambda s, obs: build(ck, params["bft"], params["N"], s, obs)["goals"]))
