"""C05 (partial) — framed messages: timestamp window and source identity in network::parse_protocol_message (engine M)."""
import os
import re
import sys

import z3

sys.path.insert(0, os.path.join(os.path.dirname(os.path.abspath(__file__)), "..", "lib", "mirsym"))
import harness  # noqa: E402
from engine import State  # noqa: E402
from harness import MirCheck, Src  # noqa: E402
from summaries import RESULT  # noqa: E402
from values import VArr, VEnum, VOpaque, VSeq, VStr, VStruct, bv  # noqa: E402

MAX_AGE = 300
MAX_FUTURE = 30


def install_decoder(eng, ok, msg):
    def handler(e, st, args, dty, callee, m):
        return VEnum(RESULT, z3.If(ok, bv(0, 8), bv(1, 8)), {0: (msg,), 1: (VOpaque("postcard::Error"),)})

    eng.summaries.insert(0, (re.compile(r"^postcard::from_bytes::<.*WireMessage>$"), handler,
                             "postcard::from_bytes::<WireMessage> -> ARBITRARY decode result (over-approximates every byte string the decoder accepts)"))


def build(ck, src, obs=None):
    eng = ck.engine() if obs is None else ck.meta_engine()
    ok = src.bool("decode.ok")
    protocol = src.bv("msg.protocol", 64)
    data = src.bv("msg.data", 64)
    frm_s = src.short_string("msg.from")      # claimed sender and connection identity are modelled byte by byte (<= 4 printable bytes)
    source_s = src.short_string("conn.source")
    frm, source = frm_s.id, source_s.id
    ts = src.bv("msg.timestamp", 64)
    extra = []
    # string lengths are part of the input (pinned so that the native driver can build strings of exactly these lengths)
    strlen = z3.Function("strlen", z3.BitVecSort(64), z3.BitVecSort(64))
    for nm, sid in (("msg.protocol", protocol),):
        ln = src.pin(nm + ".len", strlen(sid))
        extra.append(z3.And(z3.UGE(ln, 17), z3.ULE(ln, 200)))
    if obs is None:
        st = State()
        adt = eng.struct_adt("WireMessage")
        vals = {"protocol": VStr(protocol), "data": VStr(data), "from": frm_s, "timestamp": ts}
        msg = VStruct([vals[f] for f, _ in adt.fields], "WireMessage")
        install_decoder(eng, ok, msg)
        rbytes = eng.alloc(st, VSeq([], bv(0, 64)))
        rsrc = eng.alloc(st, source_s)
        eng.clock_readings = []
        st2, res = eng.call(ck.fn(r"^network::parse_protocol_message$|^parse_protocol_message$"), [rbytes, rsrc], st)
        now = st2.clock
        now_s = src.pin("now.s", now.f[0]) if now is not None else src.bv("now.s", 64)
        pc = st2.pc
        some = res.idx == bv(1, 8)
        info = eng.enum_info("P2PEvent")
        ev = res.pay[1][0]
        vi = info.index("Message")
        is_msg = ev.idx == bv(vi, 8)
        pay = ev.pay[vi]
        # field order of the Message variant as declared
        names = [f for f, _ in [v for v in eng.adts["P2PEvent"][0].variants if v[0] == "Message"][0][1]]
        o = {n: pay[i] for i, n in enumerate(names)}
        topic_id, source_id, data_id = o["topic"].id, o["source"].id, o["data"].id
    else:
        pc = z3.BoolVal(True)
        now_s = src.bv("now.s", 64)
        some = z3.BoolVal(bool(obs["some"]))
        is_msg = z3.BoolVal(True)
        topic_id = protocol if obs.get("topic_same") else ~protocol
        source_id = source if obs.get("source_is_connection") else (frm if obs.get("source_is_payload_from") else ~source)
        data_id = data if obs.get("data_same") else ~data
    lo = z3.If(z3.ULT(now_s, bv(MAX_AGE, 64)), bv(0, 64), now_s - MAX_AGE)
    in_window = z3.And(z3.UGE(ts, lo), z3.ULE(ts, now_s + MAX_FUTURE))
    G = {
        "surfaced_iff_decodes_and_timestamp_in_window": some == z3.And(ok, in_window),
        "source_is_the_connection_identity_never_the_payload_claim": z3.Implies(some, z3.And(is_msg, source_id == source)),
        "topic_and_payload_are_the_decoded_fields": z3.Implies(some, z3.And(topic_id == protocol, data_id == data)),
    }
    hyps = list(src.hyps) + extra + [frm != source, z3.ULT(now_s, bv(1 << 40, 64))]
    return {"eng": eng, "hyps": hyps, "goals": {g: z3.Implies(pc, f) for g, f in G.items()},
            "reach": {"reach_surfaced": z3.And(pc, some), "reach_rejected_stale": z3.And(pc, ok, z3.Not(some), z3.ULT(ts, now_s)),
                      "reach_rejected_future": z3.And(pc, ok, z3.Not(some), z3.UGT(ts, now_s))}}


# ------------------------------------------------------------------------------------------ DhtCoreEngine::handle_request: protocol caps
MAX_VALUE = 512
MAX_FIND = 20
KREP = 8


def variant_fields(eng, enum_name, vname):
    for ad in eng.adts[enum_name]:
        if ad.kind == "enum":
            for (vn, vf, d) in ad.variants:
                if vn == vname:
                    return [f for f, _ in vf]
    raise harness.SymError(f"{enum_name}::{vname} not found")


def build_dispatch(ck, kind, src, obs=None):
    """one call of DhtCoreEngine::handle_request (async) for a Store / FindNode / FindValue message from an arbitrary data store:
    oversized values are refused and leave the store untouched, accepted values are stored byte for byte under their key only,
    and the routing table is never asked for more than the protocol cap of nodes"""
    from harness import run_async
    from values import VBlob, VMap

    eng = ck.engine() if obs is None else ck.meta_engine()
    keyb = src.bytes("key", 32)
    kbv = harness_key(keyb)
    okey = harness_key(src.bytes("other", 32))
    val_id, val_len = src.bv("value.id", 64), src.bv("value.len", 64)
    count = src.bv("count", 64)
    probes = {"cand": kbv, "other": okey}
    data0 = src.map("D.data", 256, VBlob(bv(0, 64), bv(0, 64)), probes)
    hyps = list(src.hyps) + [kbv != okey, z3.ULE(val_len, bv(1 << 20, 64))]
    d0 = harness_sel(data0, kbv)
    if obs is None:
        st = State()
        meta_t = VStruct([bv(0, 64), mk_time0("SystemTime"), bv(0, 64), mk_time0("SystemTime")], "DataMetadata")
        meta0 = harness.mk_map(eng, "D.meta", 256, meta_t)
        store = VStruct([data0, meta0], "DataStore")
        # the per-key access counter is incremented once per read: a u64 counter cannot have been driven to its maximum (stated bound)
        hyps.append(z3.ULT(z3.Select(meta0.val.f[2], kbv), bv(1 << 63, 64)))
        rstore = eng.alloc(st, store)
        recorded = []

        def kernel(e, s_, args, dty, callee, m):
            recorded.append((s_.pc, args[2]))
            return VSeq([], bv(0, 64))

        import re as _re
        eng.summaries.insert(0, (_re.compile(r"^(core_engine::)?KademliaRoutingTable::find_closest_nodes$"), kernel,
                                 "CONTRACT KademliaRoutingTable::find_closest_nodes: its `count` argument is recorded (the kernel itself is C02's subject)"))
        adt = eng.struct_adt("DhtCoreEngine")
        vals = []
        for f, _ in adt.fields:
            if f == "data_store":
                vals.append(rstore)
            elif f == "routing_table":
                vals.append(eng.alloc(st, VOpaque("routing table")))
            elif f == "node_id":
                vals.append(VStruct([VStruct([VArr([bv(0, 8)] * 32)], "DhtKey")], "NodeId"))
            elif f in ("transport", "trust_peer_selector"):
                vals.append(VEnum(eng.enum_info("Option"), bv(0, 8), {0: ()}))
            else:
                vals.append(VOpaque("DhtCoreEngine." + f))
        re_ = eng.alloc(st, VStruct(vals, "DhtCoreEngine"))
        minfo = eng.enum_info("DhtMessage")
        dk = VStruct([keyb], "DhtKey")
        if kind == "store":
            names = variant_fields(eng, "DhtMessage", "Store")
            fv = {"key": dk, "value": VBlob(val_id, val_len), "ttl": mk_time0("Duration")}
            msg = VEnum(minfo, bv(minfo.index("Store"), 8), {minfo.index("Store"): tuple(fv[n] for n in names)})
        elif kind == "find_node":
            names = variant_fields(eng, "DhtMessage", "FindNode")
            fv = {"target": dk, "count": count}
            msg = VEnum(minfo, bv(minfo.index("FindNode"), 8), {minfo.index("FindNode"): tuple(fv[n] for n in names)})
        else:
            names = variant_fields(eng, "DhtMessage", "FindValue")
            msg = VEnum(minfo, bv(minfo.index("FindValue"), 8), {minfo.index("FindValue"): (dk,)})
        wrapper = mk_named(eng, "DhtRequestWrapper", {"id": VStr(bv(77, 64)), "message": msg})
        st2, resp = run_async(eng, ck.fn_in("DhtCoreEngine", "handle_request"), [re_, wrapper], st)
        pc = st2.pc
        rinfo = eng.enum_info("DhtResponse")
        r = resp.f[eng.struct_adt("DhtResponseWrapper").field_index("response")]
        is_err = r.idx == bv(rinfo.index("Error"), 8)
        is_ack = r.idx == bv(rinfo.index("StoreAck"), 8)
        S1 = eng.load(st2, rstore)
        data1 = S1.f[0]
        asked = [(p, c) for (p, c) in recorded]
        o = {"is_err": is_err, "is_ack": is_ack}
    else:
        pc = z3.BoolVal(True)
        data1 = harness.obs_map({k: (None if v is None else [v["id"], v["len"]]) for k, v in obs["data"].items()}, "D.data", 256, VBlob(bv(0, 64), bv(0, 64)), probes)
        asked = []
        o = {"is_err": z3.BoolVal(obs["resp"] == "Error"), "is_ack": z3.BoolVal(obs["resp"] == "StoreAck")}
        nodes_len = bv(int(obs.get("nodes", 0)), 64)
    G = {}
    same_other = same_blob_at(data0, data1, okey)
    if kind == "store":
        d1 = harness_sel(data1, kbv)
        too_big = z3.UGT(val_len, bv(MAX_VALUE, 64))
        G["oversized_value_is_refused_and_never_enters_the_store"] = z3.Implies(too_big, z3.And(o["is_err"], same_blob_at(data0, data1, kbv)))
        G["accepted_value_is_held_byte_for_byte_under_its_key"] = z3.Implies(z3.Not(too_big), z3.And(o["is_ack"], z3.Select(data1.present, kbv), d1.id == val_id, d1.len == val_len))
        G["no_other_key_is_touched"] = same_other
    else:
        if obs is None:
            cap = MAX_FIND if kind == "find_node" else KREP
            want = z3.If(z3.ULE(count, bv(MAX_FIND, 64)), count, bv(MAX_FIND, 64)) if kind == "find_node" else bv(KREP, 64)
            G["routing_table_is_asked_for_at_most_the_protocol_cap"] = z3.And(*[z3.Implies(p, z3.And(z3.ULE(c, bv(cap, 64)), c == want)) for (p, c) in asked]) if asked else z3.BoolVal(False)
        else:
            G["routing_table_is_asked_for_at_most_the_protocol_cap"] = z3.ULE(nodes_len, bv(MAX_FIND if kind == "find_node" else KREP, 64))
        G["store_is_not_modified_by_a_lookup"] = z3.And(same_other, same_blob_at(data0, data1, kbv))
    return {"eng": eng, "hyps": hyps, "goals": {g: z3.Implies(pc, f) for g, f in G.items()}, "reach": {"reach_end": pc}}


def harness_key(varr):
    from values import key_bv
    return key_bv(varr)


def harness_sel(m, k):
    from values import vmap
    return vmap(m.val, lambda a: z3.Select(a, k))


def same_blob_at(m0, m1, k):
    a, b = harness_sel(m0, k), harness_sel(m1, k)
    return z3.And(z3.Select(m1.present, k) == z3.Select(m0.present, k), z3.Implies(z3.Select(m0.present, k), z3.And(a.id == b.id, a.len == b.len)))


def mk_time0(ty):
    from summaries import mk_time
    return mk_time(bv(0, 64), bv(0, 32), ty)


def mk_named(eng, tyname, vals):
    adt = eng.struct_adt(tyname)
    names = [f for f, _ in adt.fields]
    if set(names) != set(vals):
        raise harness.SymError(f"struct {tyname} fields changed: {names} vs {sorted(vals)}")
    return VStruct([vals[f] for f in names], adt.name)


MAX_MESSAGE = 64 * 1024


def build_dht_message(ck, src, obs=None):
    """DhtNetworkManager::handle_dht_message (async): a frame longer than 64 KiB is refused BEFORE the postcard decoder sees it (the decoder call is
    recorded with its path condition; past the size check the decode outcome is the environment: here it fails, the dispatch is the other obligations' subject)"""
    import re as _re

    import c04
    from harness import run_async
    from summaries import RESULT
    from values import VBlob

    eng = ck.engine() if obs is None else ck.meta_engine()
    ln = src.bv("data.len", 64)
    hyps = list(src.hyps) + [z3.ULE(ln, bv(1 << 21, 64))]
    if obs is None:
        decoded = []

        def h_dec(e, s_, a, d, c, m):
            decoded.append(s_.pc)
            return VEnum(RESULT, bv(1, 8), {1: (VOpaque("postcard::Error"),)})

        eng.summaries.insert(0, (_re.compile(r"^(postcard::)?from_bytes::<.*DhtNetworkMessage>$"), h_dec,
                                 "postcard::from_bytes::<DhtNetworkMessage>: the call is recorded with its path condition; the decode outcome is the environment (fails)"))
        st = State()
        mgr = c04.mk_fill(eng, "DhtNetworkManager", {"config": c04.mk_fill(eng, "DhtNetworkConfig", {"local_peer_id": VStr(bv(1, 64))})})
        st2, out = run_async(eng, ck.fn_in("DhtNetworkManager", "handle_dht_message"),
                             [eng.alloc(st, mgr), eng.alloc(st, VBlob(src.bv("data.id", 64), ln)), eng.alloc(st, VStr(bv(2, 64)))], st)
        pc = st2.pc
        dec = z3.Or(*decoded) if decoded else z3.BoolVal(False)
        is_err = out.idx == bv(1, 8)
        refused_before = z3.And(is_err, z3.Not(dec))
    else:
        pc = z3.BoolVal(True)
        refused_before = z3.BoolVal(bool(obs["refused_before_decode"]))
        is_err = z3.BoolVal(bool(obs["is_err"]))
    big = z3.UGT(ln, bv(MAX_MESSAGE, 64))
    G = {"oversized_message_is_refused_before_decoding": z3.Implies(big, refused_before),
         "message_within_the_bound_reaches_the_decoder": z3.Implies(z3.Not(big), z3.Not(refused_before))}
    return {"eng": eng, "hyps": hyps, "goals": {g: z3.Implies(pc, f) for g, f in G.items()}, "reach": {"reach_oversized": z3.And(pc, big), "reach_decoded": z3.And(pc, z3.Not(big))}}


MAX_RECORD = 512


def build_record(ck, src, obs=None):
    """placement::dht_records::DhtRecord::deserialize: input longer than 512 bytes is refused BEFORE the postcard decoder sees it (the decoder call is recorded with
    its path condition); DhtRecord::serialize refuses an encoding longer than 512 bytes"""
    import re as _re

    from summaries import RESULT
    from values import VBlob

    eng = ck.engine() if obs is None else ck.meta_engine()
    ln = src.bv("data.len", 64)
    eln = src.bv("encoded.len", 64)
    hyps = list(src.hyps) + [z3.ULE(ln, bv(1 << 21, 64)), z3.ULE(eln, bv(1 << 21, 64))]
    if obs is None:
        decoded = []

        def h_dec(e, s_, a, d, c, m):
            decoded.append(s_.pc)
            return VEnum(RESULT, bv(1, 8), {1: (VOpaque("postcard::Error"),)})

        def h_take(e, s_, a, d, c, m):
            decoded.append(s_.pc)
            return VEnum(RESULT, bv(1, 8), {1: (VOpaque("postcard::Error"),)})

        def h_enc(e, s_, a, d, c, m):
            return VEnum(RESULT, bv(0, 8), {0: (VBlob(src.bv("encoded.id", 64), eln),), 1: (VOpaque("postcard::Error"),)})

        eng.summaries.insert(0, (_re.compile(r"^(postcard::)?(from_bytes|take_from_bytes)::<.*DhtRecord.*>$"), h_dec,
                                 "postcard::from_bytes / take_from_bytes::<DhtRecord>: the call is recorded with its path condition; the decode outcome is the environment (fails)"))
        eng.summaries.insert(0, (_re.compile(r"^(postcard::)?to_stdvec::<.*DhtRecord>$"), h_enc, "postcard::to_stdvec(&DhtRecord) -> an encoding of ARBITRARY length"))
        st = State()
        fn = [n for n in ck.crate.find(r"dht_records::<impl at [^>]*>::deserialize$") if (eng.impl_info(n) or (None, None))[1] == "DhtRecord"]
        if len(fn) != 1:
            raise harness.SymError("DhtRecord::deserialize not found: " + str(fn))
        st2, out = eng.call(fn[0], [eng.alloc(st, VBlob(src.bv("data.id", 64), ln))], st)
        pc = st2.pc
        dec = z3.Or(*decoded) if decoded else z3.BoolVal(False)
        is_err = out.idx == bv(1, 8)
        refused_before = z3.And(is_err, z3.Not(dec))
        fs = [n for n in ck.crate.find(r"dht_records::<impl at [^>]*>::serialize$") if (eng.impl_info(n) or (None, None))[1] == "DhtRecord"]
        if len(fs) != 1:
            raise harness.SymError("DhtRecord::serialize not found: " + str(fs))
        st3, out3 = eng.call(fs[0], [eng.alloc(st, VOpaque("record"))], st)
        ser_ok = z3.And(st3.pc, out3.idx == bv(0, 8))
        ser_len = out3.pay[0][0].len if 0 in out3.pay else bv(0, 64)
        ser_goal = z3.Implies(st3.pc, z3.And((out3.idx == bv(0, 8)) == z3.ULE(eln, bv(MAX_RECORD, 64)), z3.Implies(out3.idx == bv(0, 8), ser_len == eln)))
    else:
        pc = z3.BoolVal(True)
        refused_before = z3.BoolVal(bool(obs["refused_before_decode"]))
        is_err = z3.BoolVal(bool(obs["is_err"]))
        ser_goal = z3.BoolVal(True)
    big = z3.UGT(ln, bv(MAX_RECORD, 64))
    G = {"oversized_record_is_refused_before_decoding": z3.Implies(pc, z3.Implies(big, refused_before)),
         "record_within_the_bound_reaches_the_decoder": z3.Implies(pc, z3.Implies(z3.Not(big), z3.Not(refused_before))),
         "a_record_serialises_only_if_its_encoding_is_within_the_bound": ser_goal}
    return {"eng": eng, "hyps": hyps, "goals": G, "reach": {"reach_oversized": z3.And(pc, big), "reach_decoded": z3.And(pc, z3.Not(big))}}


def run(tier):
    ck = MirCheck("C05", tier)
    for kind in ("store", "find_node", "find_value"):
        def regd(kind=kind):
            src = Src()
            R = build_dispatch(ck, kind, src)
            params = {"kind": kind}
            rp = harness.make_replayer(ck, "core_engine", "dispatch", lambda s, obs: build_dispatch(ck, kind, s, obs), params)
            ck.register_src("dispatch", params, src)
            for g, f in R["goals"].items():
                ck.prove(f"dispatch[{kind}]/{g}", R["eng"], R["hyps"], f, on_sat=rp, meta={"goal": g})
            ck.reach(f"dispatch[{kind}]/reach_end", R["eng"], R["hyps"], R["reach"]["reach_end"])
            ck.side(f"dispatch[{kind}]/side", R["eng"], R["hyps"], on_sat=rp)
            ck.out.samples.append({"obligation": f"dispatch[{kind}]", "goals": list(R["goals"])})

        ck.guarded(f"dispatch[{kind}]", regd)

    def reg():
        src = Src()
        R = build(ck, src)
        rp = harness.make_replayer(ck, "network", "parse_frame", lambda s, obs: build(ck, s, obs), {})
        ck.register_src("parse_frame", {}, src)
        for g, f in R["goals"].items():
            ck.prove(f"frame/{g}", R["eng"], R["hyps"], f, on_sat=rp, meta={"goal": g})
        for g, f in R["reach"].items():
            ck.reach(f"frame/{g}", R["eng"], R["hyps"], f)
        ck.side("frame/side", R["eng"], R["hyps"], on_sat=rp)
        ck.out.samples.append({"obligation": "frame", "inputs": "arbitrary decode outcome (ok/err; protocol and data abstract; claimed `from` and the connection identity as strings of 0..4 printable bytes; timestamp: u64), arbitrary clock < 2^40 s",
                               "goals": list(R["goals"])})

    ck.guarded("frame", reg)

    def regm():
        src = Src()
        R = build_dht_message(ck, src)
        rp = harness.make_replayer(ck, "dht_network_manager", "dht_message", lambda s, obs: build_dht_message(ck, s, obs), {})
        ck.register_src("dht_message", {}, src)
        for g, f in R["goals"].items():
            ck.prove(f"dht_message/{g}", R["eng"], R["hyps"], f, on_sat=rp, meta={"goal": g})
        for g, f in R["reach"].items():
            ck.reach(f"dht_message/{g}", R["eng"], R["hyps"], f)
        ck.side("dht_message/side", R["eng"], R["hyps"], on_sat=rp)
        ck.out.samples.append({"obligation": "dht_message", "goals": list(R["goals"])})

    ck.guarded("dht_message", regm)

    def regr():
        src = Src()
        R = build_record(ck, src)
        rp = harness.make_replayer(ck, "dht_records", "record_decode", lambda s, obs: build_record(ck, s, obs), {})
        ck.register_src("record_decode", {}, src)
        for g, f in R["goals"].items():
            ck.prove(f"dht_record/{g}", R["eng"], R["hyps"], f, on_sat=rp, meta={"goal": g})
        for g, f in R["reach"].items():
            ck.reach(f"dht_record/{g}", R["eng"], R["hyps"], f)
        ck.side("dht_record/side", R["eng"], R["hyps"], on_sat=rp)
        ck.out.samples.append({"obligation": "dht_record", "goals": list(R["goals"])})

    ck.guarded("dht_record", regr)
    ck.run_queries()
    ck.out.bounds = ["network::parse_protocol_message for an ARBITRARY decode result (every WireMessage the postcard decoder can produce, or an error), every u64 timestamp, every connection identity and every claimed `from`",
                     "clock: any SystemTime with seconds < 2^40 (so now+30 cannot wrap)",
                     "DhtCoreEngine::handle_request (async): Store / FindNode / FindValue from an arbitrary data store: 512-byte value cap, find-node count cap, K for find-value",
                     "DhtNetworkManager::handle_dht_message (async): frames of any length up to 2 MiB: longer than 64 KiB is refused before the decoder is called",
                     "placement::dht_records::DhtRecord::{deserialize, serialize}: inputs / encodings of any length up to 2 MiB: longer than 512 bytes is refused, on the decode side before the decoder is called"]
    ck.out.outside = ["that message handling returns normally for every byte string up to 128 KiB and the decoders' allocation bounds (postcard decoding is summarised, not executed)",
                      "TransportHandle::parse_request_envelope"]
    ck.out.assumptions = ["tracing macros are effect-free", "topic and payload are abstract values compared by identity; the claimed sender and the connection identity are byte-level strings of at most 4 printable ASCII bytes"]
    ck.out.trusted.append("z3 4.8.12 / z3 5.1 / cvc5 1.0 portfolio")
    return ck.finish("./check C05 --tier " + tier)


def replay(path):
    def rebuild(ck, driver, params):
        if driver == "dispatch":
            return lambda s, obs: build_dispatch(ck, params["kind"], s, obs)
        if driver == "dht_message":
            return lambda s, obs: build_dht_message(ck, s, obs)
        if driver == "record_decode":
            return lambda s, obs: build_record(ck, s, obs)
        return lambda s, obs: build(ck, s, obs)

    return harness.replay_file(path, rebuild)
