"""C05 (partial) — framed messages: timestamp window and source identity in network::parse_protocol_message (engine M)."""
import os
import re
import sys

import z3

sys.path.insert(0, os.path.join(os.path.dirname(os.path.abspath(__file__)), "..", "lib", "mirsym"))
import harness  # noqa: E402
from engine import State  # noqa: E402
from harness import MirCheck, Src  # noqa: E402
from summaries import RESULT  # noqa: E402
from values import VEnum, VOpaque, VSeq, VStr, VStruct, bv  # noqa: E402

MAX_AGE = 300
MAX_FUTURE = 30


def install_decoder(eng, ok, msg):
    def handler(e, st, args, dty, callee, m):
        return VEnum(RESULT, z3.If(ok, bv(0, 8), bv(1, 8)), {0: (msg,), 1: (VOpaque("postcard::Error"),)})

    eng.summaries.insert(0, (re.compile(r"^postcard::from_bytes::<.*WireMessage>$"), handler,
                             "postcard::from_bytes::<WireMessage> -> ARBITRARY decode result (over-approximates every byte string the decoder accepts)"))


def build(ck, src, obs=None):
    eng = ck.engine() if obs is None else ck.meta_engine()
    ok = src.bool("decode.ok")
    protocol = src.bv("msg.protocol", 64)
    data = src.bv("msg.data", 64)
    frm_s = src.short_string("msg.from")      # claimed sender and connection identity are modelled byte by byte (<= 4 printable bytes)
    source_s = src.short_string("conn.source")
    frm, source = frm_s.id, source_s.id
    ts = src.bv("msg.timestamp", 64)
    extra = []
    # string lengths are part of the input (pinned so that the native driver can build strings of exactly these lengths)
    strlen = z3.Function("strlen", z3.BitVecSort(64), z3.BitVecSort(64))
    for nm, sid in (("msg.protocol", protocol),):
        ln = src.pin(nm + ".len", strlen(sid))
        extra.append(z3.And(z3.UGE(ln, 17), z3.ULE(ln, 200)))
    if obs is None:
        st = State()
        adt = eng.struct_adt("WireMessage")
        vals = {"protocol": VStr(protocol), "data": VStr(data), "from": frm_s, "timestamp": ts}
        msg = VStruct([vals[f] for f, _ in adt.fields], "WireMessage")
        install_decoder(eng, ok, msg)
        rbytes = eng.alloc(st, VSeq([], bv(0, 64)))
        rsrc = eng.alloc(st, source_s)
        eng.clock_readings = []
        st2, res = eng.call(ck.fn(r"^network::parse_protocol_message$|^parse_protocol_message$"), [rbytes, rsrc], st)
        now = st2.clock
        now_s = src.pin("now.s", now.f[0]) if now is not None else src.bv("now.s", 64)
        pc = st2.pc
        some = res.idx == bv(1, 8)
        info = eng.enum_info("P2PEvent")
        ev = res.pay[1][0]
        vi = info.index("Message")
        is_msg = ev.idx == bv(vi, 8)
        pay = ev.pay[vi]
        # field order of the Message variant as declared
        names = [f for f, _ in [v for v in eng.adts["P2PEvent"][0].variants if v[0] == "Message"][0][1]]
        o = {n: pay[i] for i, n in enumerate(names)}
        topic_id, source_id, data_id = o["topic"].id, o["source"].id, o["data"].id
    else:
        pc = z3.BoolVal(True)
        now_s = src.bv("now.s", 64)
        some = z3.BoolVal(bool(obs["some"]))
        is_msg = z3.BoolVal(True)
        topic_id = protocol if obs.get("topic_same") else ~protocol
        source_id = source if obs.get("source_is_connection") else (frm if obs.get("source_is_payload_from") else ~source)
        data_id = data if obs.get("data_same") else ~data
    lo = z3.If(z3.ULT(now_s, bv(MAX_AGE, 64)), bv(0, 64), now_s - MAX_AGE)
    in_window = z3.And(z3.UGE(ts, lo), z3.ULE(ts, now_s + MAX_FUTURE))
    G = {
        "surfaced_iff_decodes_and_timestamp_in_window": some == z3.And(ok, in_window),
        "source_is_the_connection_identity_never_the_payload_claim": z3.Implies(some, z3.And(is_msg, source_id == source)),
        "topic_and_payload_are_the_decoded_fields": z3.Implies(some, z3.And(topic_id == protocol, data_id == data)),
    }
    hyps = list(src.hyps) + extra + [frm != source, z3.ULT(now_s, bv(1 << 40, 64))]
    return {"eng": eng, "hyps": hyps, "goals": {g: z3.Implies(pc, f) for g, f in G.items()},
            "reach": {"reach_surfaced": z3.And(pc, some), "reach_rejected_stale": z3.And(pc, ok, z3.Not(some), z3.ULT(ts, now_s)),
                      "reach_rejected_future": z3.And(pc, ok, z3.Not(some), z3.UGT(ts, now_s))}}


def run(tier):
    ck = MirCheck("C05", tier)

    def reg():
        src = Src()
        R = build(ck, src)
        rp = harness.make_replayer(ck, "network", "parse_frame", lambda s, obs: build(ck, s, obs), {})
        ck.register_src("parse_frame", {}, src)
        for g, f in R["goals"].items():
            ck.prove(f"frame/{g}", R["eng"], R["hyps"], f, on_sat=rp, meta={"goal": g})
        for g, f in R["reach"].items():
            ck.reach(f"frame/{g}", R["eng"], R["hyps"], f)
        ck.side("frame/side", R["eng"], R["hyps"], on_sat=rp)
        ck.out.samples.append({"obligation": "frame", "inputs": "arbitrary decode outcome (ok/err; protocol and data abstract; claimed `from` and the connection identity as strings of 0..4 printable bytes; timestamp: u64), arbitrary clock < 2^40 s",
                               "goals": list(R["goals"])})

    ck.guarded("frame", reg)
    ck.run_queries()
    ck.out.bounds = ["network::parse_protocol_message for an ARBITRARY decode result (every WireMessage the postcard decoder can produce, or an error), every u64 timestamp, every connection identity and every claimed `from`",
                     "clock: any SystemTime with seconds < 2^40 (so now+30 cannot wrap)"]
    ck.out.outside = ["that message handling returns normally for every byte string up to 128 KiB and the decoders' allocation bounds (postcard decoding is summarised, not executed)",
                      "the 64 KiB pre-decode size check, find-node count cap and 512-byte value/record checks (async handlers: DhtNetworkManager::handle_dht_message, DhtCoreEngine::handle_request, DhtRecord)",
                      "TransportHandle::parse_request_envelope"]
    ck.out.assumptions = ["tracing macros are effect-free", "topic and payload are abstract values compared by identity; the claimed sender and the connection identity are byte-level strings of at most 4 printable ASCII bytes"]
    ck.out.trusted.append("z3 4.8.12 / z3 5.1 / cvc5 1.0 portfolio")
    return ck.finish("./check C05 --tier " + tier)


def replay(path):
    return harness.replay_file(path, lambda ck, driver, params: (lambda s, obs: build(ck, s, obs)))
