"""C09 — a peer record verifies only if its owner signed exactly it, cached or not (engine M over src/peer_record.rs; the signature
primitive and the hash are uninterpreted, collision-free functions: only the STRUCTURE of what is signed / hashed / cached is decided)."""
import os
import re
import sys

import z3

sys.path.insert(0, os.path.join(os.path.dirname(os.path.abspath(__file__)), "..", "lib", "mirsym"))
import harness  # noqa: E402
import summaries_bytes as SB  # noqa: E402
from engine import State  # noqa: E402
from harness import MirCheck, Src  # noqa: E402
from summaries import OPTION, RESULT, ok  # noqa: E402
from values import VArr, VBlob, VBytes, VEnum, VMap, VOpaque, VSeq, VStr, VStruct, bv, flatten, key_bv  # noqa: E402

PK_LEN, SIG_LEN = 1952, 3309
ECAP = 2


def mk_struct(eng, tyname, vals):
    adt = eng.struct_adt(tyname)
    names = [f for f, _ in adt.fields]
    if set(names) != set(vals):
        raise harness.SymError(f"struct {tyname} fields changed: {names} vs {sorted(vals)}")
    return VStruct([vals[f] for f in names], adt.name)


def record_inputs(src, p, has_name):
    """named inputs of one record; every field is an independent symbol"""
    f = {"version": src.bv(p + ".version", 8), "user_id": src.bytes(p + ".user_id", 32), "pk": src.bv(p + ".pk", 64), "seq": src.bv(p + ".seq", 64),
         "name": src.bv(p + ".name", 64) if has_name else None, "elen": src.bv(p + ".elen", 64),
         "ends": [{"uuid": src.bv(f"{p}.end{i}.uuid", 64), "port": src.bv(f"{p}.end{i}.port", 16), "nat": src.bv(f"{p}.end{i}.nat", 3),
                   "coords": [src.short_string(f"{p}.end{i}.coord{k}", cap=2) for k in range(2)], "clen": src.bv(f"{p}.end{i}.clen", 64), "dev_some": src.bool(f"{p}.end{i}.dev_some"), "dev": src.bv(f"{p}.end{i}.dev", 64),
                   "upd": src.bv(f"{p}.end{i}.last_updated", 64)} for i in range(ECAP)], "ttl": src.bv(p + ".ttl", 32), "ts": src.bv(p + ".ts", 64), "sig": src.bv(p + ".sig", 64)}
    return f


from summaries_coll import IPADDR  # noqa: E402


def endpoint_value(eng, e):
    """PeerEndpoint with its real fields (identities for the id / address / coordinator list / device string)"""
    info = eng.enum_info("peer_record::NatType")
    return mk_struct(eng, "PeerEndpoint", {
        "endpoint_id": VStruct([VStruct([e["uuid"]], "Uuid")], "EndpointId"),
        "external_address": VStruct([VStruct([VEnum(IPADDR, bv(0, 8), {0: (VArr([bv(192, 8), bv(168, 8), bv(1, 8), bv(1, 8)]),)}), e["port"]], "SocketAddr"),
                                     VEnum(OPTION, bv(0, 8), {0: ()})], "NetworkAddress"),
        "nat_type": VEnum(info, z3.ZeroExt(5, e["nat"]), {i: () for i in range(len(info.variants))}),
        # the coordinator names are byte-level short strings (<= 2 printable bytes each): a hash that streams them sees their CONCATENATION
        "coordinator_nodes": VSeq(list(e["coords"]), e["clen"]),
        "device_info": VEnum(OPTION, z3.If(e["dev_some"], bv(1, 8), bv(0, 8)), {0: (), 1: (VStr(e["dev"]),)}),
        "last_updated": e["upd"]})


def record_value(eng, f):
    name = VEnum(OPTION, bv(1, 8), {0: (), 1: (VStr(f["name"]),)}) if f["name"] is not None else VEnum(OPTION, bv(0, 8), {0: ()})
    return mk_struct(eng, "PeerDHTRecord", {
        "version": f["version"], "user_id": VStruct([f["user_id"]], "UserId"), "public_key": VBlob(f["pk"], bv(PK_LEN, 64)), "sequence_number": f["seq"],
        "name": name, "endpoints": VSeq([endpoint_value(eng, e) for e in f["ends"]], f["elen"]), "ttl": f["ttl"], "timestamp": f["ts"],
        "signature": VBlob(f["sig"], bv(SIG_LEN, 64))})


def same_fields(a, b, skip=()):
    eq = []
    for k in ("version", "pk", "seq", "ttl", "ts", "sig", "elen"):
        if k not in skip:
            eq.append(a[k] == b[k])
    if "user_id" not in skip:
        eq.append(key_bv(a["user_id"]) == key_bv(b["user_id"]))
    if (a["name"] is None) != (b["name"] is None):
        eq.append(z3.BoolVal(False))
    elif a["name"] is not None and "name" not in skip:
        eq.append(a["name"] == b["name"])
    for i in range(ECAP):
        ea, eb = a["ends"][i], b["ends"][i]
        same = z3.And(ea["uuid"] == eb["uuid"], ea["port"] == eb["port"], ea["nat"] == eb["nat"], ea["clen"] == eb["clen"],
                      *[z3.Implies(z3.ULT(bv(k, 64), ea["clen"]), ea["coords"][k].id == eb["coords"][k].id) for k in range(2)], ea["dev_some"] == eb["dev_some"],
                      z3.Implies(ea["dev_some"], ea["dev"] == eb["dev"]), ea["upd"] == eb["upd"])
        eq.append(z3.Implies(z3.ULT(bv(i, 64), a["elen"]), same))
    return z3.And(*eq)


def install_crypto(eng):
    """ml_dsa_verify(pk, msg, sig) -> Ok(V(pk, msg, sig)) with V an uninterpreted predicate (per message shape)"""
    def handler(e, st, args, dty, callee, m):
        pk = SB.deref(e, st, args[0])
        msg = SB.chunks_of(e, st, args[1])
        sig = SB.deref(e, st, args[2])
        k = z3.simplify(z3.Concat(pk.id, SB.bytes_key(msg), sig.id))
        V = z3.Function(f"mldsa_verify_{k.size()}", k.sort(), z3.BoolSort())
        e.last_verify = getattr(e, "last_verify", []) + [(k, V(k))]
        return ok(V(k))

    eng.summaries.insert(0, (re.compile(r"^(quantum_crypto::|crate::quantum_crypto::)?ml_dsa_verify$"), handler,
                             "ml_dsa_verify -> Ok(V(pk, message, signature)), V an uninterpreted predicate (the signature algebra itself is C08's concern)"))


def run_fn(eng, ck, st, name, args):
    return eng.call(ck.fn(r"peer_record::<impl at [^>]*>::" + name + "$"), args, st)


def msg_key(eng, ck, st, rec_ref):
    st1, r = run_fn(eng, ck, st, "create_signable_message", [rec_ref])
    if 0 not in r.pay:
        raise harness.SymError("create_signable_message never succeeds")
    return st1, r.idx == bv(0, 8), SB.bytes_key(r.pay[0][0].chunks)


def build_pair(ck, names, src, obs=None):
    """two arbitrary records r1, r2 (name presence per `names`): message coverage, cache agreement, id binding"""
    eng = ck.engine() if obs is None else ck.meta_engine()
    f1 = record_inputs(src, "r1", names[0])
    f2 = record_inputs(src, "r2", names[1])
    maxsz = src.bv("cache.max_size", 64)
    hyps = list(src.hyps) + [z3.ULE(f1["elen"], bv(ECAP, 64)), z3.ULE(f2["elen"], bv(ECAP, 64)), z3.UGE(maxsz, bv(2, 64))]
    for f in (f1, f2):
        for e in f["ends"]:
            hyps.append(z3.ULE(e["nat"], bv(5, 3)))
            hyps.append(z3.ULE(e["clen"], bv(2, 64)))
    for f in (f1, f2):
        if f["name"] is not None:
            strlen = z3.Function("strlen", z3.BitVecSort(64), z3.BitVecSort(64))
            hyps.append(z3.And(z3.UGE(strlen(f["name"]), 1), z3.ULE(strlen(f["name"]), 255)))
    G = {}
    if obs is None:
        install_crypto(eng)
        eng.path_hyps = hyps
        st = State()
        r1 = eng.alloc(st, record_value(eng, f1))
        r2 = eng.alloc(st, record_value(eng, f2))
        # (b) coverage: equal signable messages <=> equal signed fields
        s1, ok1, k1 = msg_key(eng, ck, st, r1)
        s2, ok2, k2 = msg_key(eng, ck, st, r2)
        if names[0] == names[1] and k1.size() == k2.size():
            G["signable_message_covers_every_field"] = z3.Implies(z3.And(s1.pc, s2.pc, ok1, ok2, k1 == k2), same_fields(f1, f2, skip=("sig",)))
        # direct verification verdicts
        sd1, d1 = run_fn(eng, ck, st, "verify_signature", [r1])
        sd2, d2 = run_fn(eng, ck, st, "verify_signature", [r2])
        direct1, direct2 = d1.idx == bv(0, 8), d2.idx == bv(0, 8)
        # (c) cache: empty cache, r1 then r2
        cache = mk_struct(eng, "SignatureCache", {"cache": VMap(None, None, None, bv(0, 64), None), "max_size": maxsz})
        rc = eng.alloc(st, cache)
        sc1, c1 = run_fn(eng, ck, st, "verify_cached", [rc, r1])
        sc2, c2 = run_fn(eng, ck, sc1, "verify_cached", [rc, r2])
        cached1, cached2 = c1.idx == bv(0, 8), c2.idx == bv(0, 8)
        pc = z3.And(sd1.pc, sd2.pc, sc2.pc)
        src.pin("__want.direct1", direct1)
        src.pin("__want.direct2", direct2)
        strlen = z3.Function("strlen", z3.BitVecSort(64), z3.BitVecSort(64))
        for f, pfx in ((f1, "r1"), (f2, "r2")):
            if f["name"] is not None:
                src.pin(pfx + ".name.len", strlen(f["name"]))
        # (d) id binding: user id derived from the embedded key exactly as UserId::from_public_key does (real MIR)
        pkb = eng.alloc(st, VBlob(f1["pk"], bv(PK_LEN, 64)))
        sdv, derived = eng.call(ck.fn(r"peer_record::<impl at [^>]*>::from_public_key$"), [pkb], st)
        derived_id = key_bv(derived.f[0])
        der_pin = [src.pin(f"r1.derived.{i}", z3.Extract(255 - 8 * i, 248 - 8 * i, derived_id)) for i in range(32)]
        hyps = hyps + [h for h in src.hyps if h not in hyps]
    else:
        pc = z3.BoolVal(True)
        direct1, direct2 = z3.BoolVal(bool(obs["direct1"])), z3.BoolVal(bool(obs["direct2"]))
        cached1, cached2 = z3.BoolVal(bool(obs["cached1"])), z3.BoolVal(bool(obs["cached2"]))
        derived_id = bv(int.from_bytes(bytes(obs["derived1"]), "big"), 256)
        f1 = dict(f1, user_id=VArr([bv(x, 8) for x in obs["user_id1"]]))  # the native record's actual user id
        if names[0] == names[1]:
            G["signable_message_covers_every_field"] = z3.Implies(z3.BoolVal(bool(obs["msg_equal"])), same_fields(f1, f2, skip=("sig",)))
    G["cached_verdict_of_first_record_equals_direct_verification"] = cached1 == direct1
    G["cached_verdict_of_second_record_equals_direct_verification"] = cached2 == direct2
    G["verification_succeeds_only_if_user_id_is_derived_from_the_embedded_key"] = z3.Implies(direct1, key_bv(f1["user_id"]) == derived_id)
    # replay preference: the abstract signature predicate behaves like a real scheme on these two records
    prefer = [z3.Implies(direct2, z3.Or(f2["sig"] != f1["sig"], z3.And(direct1, same_fields(f1, f2)))) if obs is None else z3.BoolVal(True)]
    return {"eng": eng, "hyps": hyps, "goals": {g: z3.Implies(pc, f) for g, f in G.items()}, "prefer": prefer,
            "reach": {"reach_both_verify": z3.And(pc, direct1, direct2), "reach_second_fails": z3.And(pc, direct1, z3.Not(direct2))}}


def build_inputs(ck, src, obs=None):
    """constructor bounds: validate_inputs accepts exactly name absent or 1..=255 bytes, 1..=16 endpoints, ttl 1..=86400"""
    eng = ck.engine() if obs is None else ck.meta_engine()
    has_name = src.bool("in.has_name")
    nlen = src.bv("in.name_len", 64)
    elen = src.bv("in.endpoints", 64)
    ttl = src.bv("in.ttl", 32)
    hyps = list(src.hyps) + [z3.ULE(nlen, bv(1000, 64)), z3.ULE(elen, bv(100, 64))]
    if obs is None:
        st = State()
        nid = z3.BitVec("in.name_id", 64)
        strlen = z3.Function("strlen", z3.BitVecSort(64), z3.BitVecSort(64))
        hyps.append(strlen(nid) == nlen)
        name = VEnum(OPTION, z3.If(has_name, bv(1, 8), bv(0, 8)), {0: (), 1: (VStr(nid),)})
        rn = eng.alloc(st, name)
        re_ = eng.alloc(st, VSeq([], elen))
        st1, r = run_fn(eng, ck, st, "validate_inputs", [rn, re_, ttl])
        okk = r.idx == bv(0, 8)
        pc = st1.pc
    else:
        okk = z3.BoolVal(bool(obs["ok"]))
        pc = z3.BoolVal(True)
    want = z3.And(z3.Or(z3.Not(has_name), z3.And(z3.UGE(nlen, 1), z3.ULE(nlen, 255))), z3.UGE(elen, 1), z3.ULE(elen, 16), z3.UGE(ttl, 1), z3.ULE(ttl, bv(86400, 32)))
    return {"eng": eng, "hyps": hyps, "goals": {"construction_accepts_exactly_the_documented_bounds": z3.Implies(pc, okk == want)},
            "reach": {"reach_ok": z3.And(pc, okk), "reach_err": z3.And(pc, z3.Not(okk))}}


def replay_prefs(R, src):
    """replay preference: the abstract signature predicate behaves like a real scheme on the two records (a record verifies
    only if it is the genuine first record or an exact copy of it) -- purely a preference for reproducible counterexamples"""
    return []


def register(ck, tag, driver, params, builder):
    src = Src()
    R = builder(src, None)
    rp = harness.make_replayer(ck, "peer_record", driver, lambda s, obs: builder(s, obs), params)
    ck.register_src(driver, params, src)
    for g, f in R["goals"].items():
        ck.prove(f"{tag}/{g}", R["eng"], R["hyps"], f, on_sat=rp, meta={"goal": g, "prefer": R.get("prefer", [])})
    for g, f in R["reach"].items():
        ck.reach(f"{tag}/{g}", R["eng"], R["hyps"], f)
    ck.side(f"{tag}/side", R["eng"], R["hyps"], on_sat=rp)
    ck.out.samples.append({"obligation": tag, "goals": list(R["goals"])})


def builder_for(ck, driver, params):
    if driver == "pair":
        return lambda s, obs: build_pair(ck, params["names"], s, obs)
    return lambda s, obs: build_inputs(ck, s, obs)


def run(tier):
    ck = MirCheck("C09", tier)
    combos = [[True, True], [False, False]] if tier == "quick" else [[True, True], [False, False], [True, False], [False, True]]
    for names in combos:
        params = {"names": names}
        tag = f"pair[name1={'some' if names[0] else 'none'},name2={'some' if names[1] else 'none'}]"
        ck.guarded(tag, lambda params=params, tag=tag: register(ck, tag, "pair", params, builder_for(ck, "pair", params)))
    ck.guarded("inputs", lambda: register(ck, "inputs", "inputs", {}, builder_for(ck, "inputs", {})))
    ck.run_queries()
    ck.out.bounds = ["two ARBITRARY records presented to an empty SignatureCache of capacity >= 2 (every field an independent symbol: version, 32-byte user id, key, sequence number, name present/absent, "
                     "up to 2 endpoints, ttl, timestamp, signature), one obligation set per name-presence combination",
                     "validate_inputs for every name length <= 1000, endpoint count <= 100 and every u32 ttl"]
    ck.out.outside = ["the signature algebra (that ML-DSA verifies only the signed message: C08) and the collision resistance of BLAKE3: both are uninterpreted, collision-free functions here",
                      "cache eviction at capacity (HashMap iteration order) and longer presentation sequences than two records", "more than 2 endpoints per record; byte-level mutations of the serialised endpoints"]
    ck.out.assumptions = ["postcard::to_stdvec is a deterministic injective encoding of the endpoint list", "single-threaded execution"]
    ck.out.trusted.append("z3 4.8.12 / z3 5.1 / cvc5 1.0 portfolio")
    return ck.finish("./check C09 --tier " + tier)


def replay(path):
    return harness.replay_file(path, lambda ck, driver, params: builder_for(ck, driver, params))
