"""C16 — eviction policy and trust-aware selection (engine M over eviction.rs / liveness.rs / trust_peer_selector.rs + Kani liveness kernel)."""
import os
import sys

import z3

sys.path.insert(0, os.path.join(os.path.dirname(os.path.abspath(__file__)), "..", "lib", "mirsym"))
import harness  # noqa: E402
from engine import State  # noqa: E402
from harness import MirCheck, Src, fpv  # noqa: E402
from summaries import OPTION, mk_time  # noqa: E402
from values import EnumInfo, VArr, VEnum, VMap, VOpaque, VSeq, VStr, VStruct, bv, flatten, key_bv, vmap  # noqa: E402

F64 = z3.Float64()
RNE = z3.RNE()


def mk_struct(eng, tyname, vals, fill=True):
    adt = eng.struct_adt(tyname)
    out = []
    for f, _ in adt.fields:
        if f in vals:
            out.append(vals[f])
        elif fill:
            out.append(VOpaque(f"{tyname}.{f}"))
        else:
            raise harness.SymError(f"missing field {f} of {tyname}")
    missing = set(vals) - {f for f, _ in adt.fields}
    if missing:
        raise harness.SymError(f"struct {tyname} has no field(s) {missing}")
    return VStruct(out, adt.name)


def fld(eng, v, tyname, fname):
    return v.f[eng.struct_adt(tyname).field_index(fname)]


def node_id(src, name):
    b = src.bytes(name, 32)
    return VStruct([VStruct([b], "DhtKey")], "NodeId"), key_bv(b)


# ------------------------------------------------------------------------------------------ eviction manager

def liveness_template():
    return VStruct([mk_time(bv(0, 64), bv(0, 32), "Instant"), bv(0, 32), bv(0, 64), bv(0, 64)], "NodeLivenessState")


def reason_template(eng):
    info = eng.enum_info("EvictionReason")
    return VEnum(info, bv(0, 8), {info.index("ConsecutiveFailures"): (bv(0, 32),), info.index("LowTrust"): (VStr(bv(0, 64)),),
                                  info.index("CloseGroupRejection"): (), info.index("Stale"): ()})


def in_manager(eng, src, probes, finite=None):
    maps = {"liveness_states": src.map("M.live", 256, liveness_template(), probes, finite=finite),
            "trust_scores": src.map("M.trust", 256, fpv(0.0), probes, finite=finite),
            "marked_for_eviction": src.map("M.marked", 256, reason_template(eng), probes, finite=finite)}
    cfg = {"max_consecutive_failures": src.bv("cfg.max_failures", 32), "min_trust_threshold": src.f64("cfg.min_trust")}
    return maps, cfg


def manager_value(eng, maps, cfg):
    config = mk_struct(eng, "MaintenanceConfig", cfg)
    return mk_struct(eng, "EvictionManager", dict(maps, config=config), fill=False)


def obs_maps(eng, obs, prefix, probes):
    def conv_live(o):
        return None if o is None else [0, 0, o[0], o[1], o[2]]

    o2 = dict(obs)
    for label in probes:
        k = f"{prefix}.live@{label}"
        o2[k] = conv_live(obs.get(k))
        k = f"{prefix}.marked@{label}"
        r = obs.get(k)
        if r is not None:
            info = eng.enum_info("EvictionReason")
            # leaves of the reason template in flatten order: idx, then payloads by variant index
            o2[k] = [info.index(r["variant"]), r.get("failures", 0), 0]
    return {"liveness_states": harness.obs_map(o2, prefix + ".live", 256, liveness_template(), probes),
            "trust_scores": harness.obs_map(o2, prefix + ".trust", 256, fpv(0.0), probes),
            "marked_for_eviction": harness.obs_map(o2, prefix + ".marked", 256, reason_template(eng), probes)}


def sel(m, k):
    return vmap(m.val, lambda a: z3.Select(a, k))


def pres(m, k):
    return z3.Select(m.present, k)


def same_at(m0, m1, k, fp=False):
    eqs = []
    for x, y in zip(flatten(sel(m0, k)), flatten(sel(m1, k))):
        eqs.append(z3.Or(z3.fpEQ(x, y), z3.And(z3.fpIsNaN(x), z3.fpIsNaN(y))) if z3.is_fp(x) else x == y)
    return z3.And(pres(m1, k) == pres(m0, k), z3.Implies(pres(m0, k), z3.And(*eqs)))


def same_live_counts(m0, m1, k):
    a, b = sel(m0, k), sel(m1, k)
    return z3.And(pres(m1, k) == pres(m0, k), z3.Implies(pres(m0, k), z3.And(a.f[1] == b.f[1], a.f[2] == b.f[2], a.f[3] == b.f[3])))


OPS = ["record_failure", "record_success", "update_trust_score", "record_eviction", "remove_node", "query", "candidates"]


def build_eviction(ck, op, src, obs=None):
    eng = ck.engine() if obs is None else ck.meta_engine()
    nid, k = node_id(src, "n")
    oid, k2 = node_id(src, "other")
    probes = {"cand": k, "other": k2}
    maps0, cfg = in_manager(eng, src, probes, finite=({"cand": nid, "other": oid} if op == "candidates" else None))
    score_in = src.f64("in.score")
    hyps = list(src.hyps) + [k2 != k, z3.UGE(cfg["max_consecutive_failures"], 1),
                             z3.ULT(sel(maps0["liveness_states"], k).f[1], bv(1 << 31, 32)), z3.ULT(sel(maps0["liveness_states"], k).f[2], bv(1 << 62, 64)),
                             z3.ULT(sel(maps0["liveness_states"], k).f[3], bv(1 << 62, 64))]
    info = eng.enum_info("EvictionReason") if obs is None else ck.meta_engine().enum_info("EvictionReason")
    rej = VEnum(info, bv(info.index("CloseGroupRejection"), 8), {info.index("CloseGroupRejection"): ()})
    live0, trust0, marked0 = maps0["liveness_states"], maps0["trust_scores"], maps0["marked_for_eviction"]
    c0 = z3.If(pres(live0, k), sel(live0, k).f[1], bv(0, 32))
    G = {}
    if obs is None:
        st = State()
        M = manager_value(eng, maps0, cfg)
        rM = eng.alloc(st, M)
        rn = eng.alloc(st, nid)
        F = lambda n: ck.fn(r"eviction::<impl at [^>]*>::" + n + "$")  # noqa: E731
        if op == "candidates":
            st1, cands = eng.call(F("get_eviction_candidates"), [rM], st)
            pc = st1.pc
            maps1 = maps0
            occ = {}
            for lbl, kk in (("cand", k), ("other", k2)):
                t = bv(0, 64)
                for i, e in enumerate(cands.elems):
                    t = t + z3.If(z3.And(z3.ULT(bv(i, 64), cands.len), key_bv(e.f[0]) == kk), bv(1, 64), bv(0, 64))
                occ[lbl] = t
            rv = {"occ": occ, "n": cands.len}
        elif op == "query":
            st1, reason = eng.call(F("get_eviction_reason"), [rM, rn], st)
            st2, se = eng.call(F("should_evict"), [rM, rn], st)
            st3, set_ = eng.call(F("should_evict_for_trust"), [rM, rn], st)
            st4, cf = eng.call(F("get_consecutive_failures"), [rM, rn], st)
            pc = z3.And(st1.pc, st2.pc, st3.pc, st4.pc)
            rv = {"some": reason.idx == bv(1, 8), "variant": reason.pay[1][0].idx if 1 in reason.pay else bv(0, 8),
                  "failures": reason.pay[1][0].pay[info.index("ConsecutiveFailures")][0] if 1 in reason.pay else bv(0, 32),
                  "should_evict": se, "should_evict_for_trust": set_, "consecutive": cf}
            maps1 = maps0
        else:
            args = [rM, rn]
            if op == "update_trust_score":
                args.append(score_in)
            if op == "record_eviction":
                args.append(rej)
            eng.clock_readings = []
            st1, _ = eng.call(F(op), args, st)
            M1 = eng.load(st1, rM)
            maps1 = {n: fld(eng, M1, "EvictionManager", n) for n in maps0}
            pc = st1.pc
            rv = None
    else:
        pc = z3.BoolVal(True)
        maps1 = obs_maps(eng, obs, "post", probes) if op not in ("query", "candidates") else maps0
        if op == "candidates":
            rv = {"occ": {"cand": bv(int(obs["occ_cand"]), 64), "other": bv(int(obs["occ_other"]), 64)}, "n": bv(int(obs["n"]), 64)}
        elif op == "query":
            r = obs["reason"]
            rv = {"some": z3.BoolVal(r is not None), "variant": bv(info.index(r["variant"]) if r else 0, 8), "failures": bv(r.get("failures", 0) if r else 0, 32),
                  "should_evict": z3.BoolVal(bool(obs["should_evict"])), "should_evict_for_trust": z3.BoolVal(bool(obs["should_evict_for_trust"])),
                  "consecutive": bv(int(obs["consecutive"]), 32)}
    live1, trust1, marked1 = maps1["liveness_states"], maps1["trust_scores"], maps1["marked_for_eviction"]
    if op == "candidates":
        def has_reason(kk):
            return z3.Or(pres(marked0, kk), z3.And(pres(live0, kk), z3.UGE(sel(live0, kk).f[1], cfg["max_consecutive_failures"])),
                         z3.And(pres(trust0, kk), z3.fpLT(sel(trust0, kk), cfg["min_trust_threshold"])))
        G["candidate_list_names_exactly_the_peers_with_a_reason_each_once"] = z3.And(
            rv["occ"]["cand"] == z3.If(has_reason(k), bv(1, 64), bv(0, 64)), rv["occ"]["other"] == z3.If(has_reason(k2), bv(1, 64), bv(0, 64)),
            rv["n"] == rv["occ"]["cand"] + rv["occ"]["other"])
    elif op == "query":
        by_fail = z3.And(pres(live0, k), z3.UGE(sel(live0, k).f[1], cfg["max_consecutive_failures"]))
        by_trust = z3.And(pres(trust0, k), z3.fpLT(sel(trust0, k), cfg["min_trust_threshold"]))
        marked = pres(marked0, k)
        G["candidate_iff_marked_or_failures_or_low_trust"] = rv["some"] == z3.Or(marked, by_fail, by_trust)
        G["reason_precedence_marked_then_failures_then_trust"] = z3.And(
            z3.Implies(marked, rv["variant"] == sel(marked0, k).idx),
            z3.Implies(z3.And(z3.Not(marked), by_fail), z3.And(rv["variant"] == bv(info.index("ConsecutiveFailures"), 8), rv["failures"] == sel(live0, k).f[1])),
            z3.Implies(z3.And(z3.Not(marked), z3.Not(by_fail), by_trust), rv["variant"] == bv(info.index("LowTrust"), 8)))
        G["should_evict_iff_consecutive_failures_reach_limit"] = rv["should_evict"] == by_fail
        G["should_evict_for_trust_iff_known_score_below_threshold"] = rv["should_evict_for_trust"] == by_trust
        G["consecutive_failures_reported"] = rv["consecutive"] == c0
    else:
        others_same = z3.And(same_live_counts(live0, live1, k2), same_at(trust0, trust1, k2), same_at(marked0, marked1, k2))
        G["other_nodes_unaffected"] = others_same
        if op == "record_failure":
            G["failure_increments_consecutive_counter"] = z3.And(pres(live1, k), sel(live1, k).f[1] == c0 + 1)
            G["trust_and_marks_untouched"] = z3.And(same_at(trust0, trust1, k), same_at(marked0, marked1, k))
        elif op == "record_success":
            G["one_success_clears_failure_based_candidacy"] = z3.And(pres(live1, k), sel(live1, k).f[1] == 0)
            G["trust_and_marks_untouched"] = z3.And(same_at(trust0, trust1, k), same_at(marked0, marked1, k))
        elif op == "update_trust_score":
            s1 = sel(trust1, k)
            G["score_recorded"] = z3.And(pres(trust1, k), z3.Or(z3.fpEQ(s1, score_in), z3.And(z3.fpIsNaN(s1), z3.fpIsNaN(score_in))))
            G["liveness_and_marks_untouched"] = z3.And(same_live_counts(live0, live1, k), same_at(marked0, marked1, k))
        elif op == "record_eviction":
            G["node_is_marked_with_the_reason"] = z3.And(pres(marked1, k), sel(marked1, k).idx == bv(info.index("CloseGroupRejection"), 8))
            G["liveness_and_trust_untouched"] = z3.And(same_live_counts(live0, live1, k), same_at(trust0, trust1, k))
        elif op == "remove_node":
            G["everything_about_the_node_is_forgotten"] = z3.And(z3.Not(pres(live1, k)), z3.Not(pres(trust1, k)), z3.Not(pres(marked1, k)))
    return {"eng": eng, "hyps": hyps, "goals": {g: z3.Implies(pc, f) for g, f in G.items()}, "reach": {"reach_end": pc}}


def register_eviction(ck, op):
    params = {"op": op}
    src = Src()
    R = build_eviction(ck, op, src)
    rp = harness.make_replayer(ck, "eviction", "eviction_op", lambda s, obs: build_eviction(ck, op, s, obs), params)
    ck.register_src("eviction_op", params, src)
    for g, f in R["goals"].items():
        ck.prove(f"eviction/{op}/{g}", R["eng"], R["hyps"], f, on_sat=rp, meta={"goal": g})
    ck.reach(f"eviction/{op}/reach_end", R["eng"], R["hyps"], R["reach"]["reach_end"])
    ck.side(f"eviction/{op}/side", R["eng"], R["hyps"], on_sat=rp)
    ck.out.samples.append({"obligation": f"eviction/{op}", "state": "arbitrary EvictionManager: three HashMaps as SMT arrays over 256-bit node ids, symbolic thresholds", "goals": list(R["goals"])})


def run(tier):
    ck = MirCheck("C16", tier)
    for op in OPS:
        ck.guarded(f"eviction/{op}", lambda op=op: register_eviction(ck, op))
    import c16_selector

    c16_selector.register_all(ck, tier)
    # "an evicted or failed peer appears in no closest-node answer until it is added again": the routing-table removal reached through the
    # async engine API (same builders and native driver as C02's engine obligations)
    import c02

    for params, tag in c02.engine_cases(only_removal=True):
        ck.guarded(tag, lambda params=params, tag=tag: c02.register(ck, tag, "engine_ops", params, c02.builder_for(ck, "engine_ops", params)))
    ck.run_queries()
    import kanicheck

    kanicheck.discharge(ck.out, "liveness", {"c16_liveness_counter": "NodeLivenessState: k failures after a success give counter k; should_evict iff counter >= limit; one success resets"},
                        timeout_s=2400, logname="c16-kani-" + tier)
    ck.out.bounds = ["EvictionManager: one event (failure / success / trust update / mark / forget) or one query from an ARBITRARY manager state (three HashMaps as SMT arrays over 256-bit ids), two distinct symbolic node ids, symbolic thresholds",
                     "consecutive counter < 2^31, totals < 2^62 (overflow of the statistics counters needs that many events)"] + c16_selector.BOUNDS
    ck.out.bounds.append("routing removal through the async engine API on one table layout ([3,7], <= 2 peers per bucket, count <= 2): handle_node_failure / evict_node of a listed peer "
                         "(optionally re-announced under another address first) followed by find_nodes: the peer appears in no answer and the answer is exact over the remaining peers")
    ck.out.outside = ["DhtCoreEngine::{select_query_peers with trust enabled, select_storage_peers} (async)", "the maintenance task that applies evictions",
                      "get_eviction_candidates on managers tracking more than two peers (the listing obligation uses a finite manager with two arbitrary peers)"] + c16_selector.OUTSIDE
    ck.out.assumptions = ["single-threaded execution"] + c16_selector.ASSUMPTIONS
    ck.out.trusted.append("z3 4.8.12 / z3 5.1 / cvc5 1.0 portfolio")
    return ck.finish("./check C16 --tier " + tier)


def replay(path):
    import c16_selector

    def rebuild(ck, driver, params):
        if driver == "eviction_op":
            return lambda s, obs: build_eviction(ck, params["op"], s, obs)["goals"]
        if driver == "engine_ops":
            import c02

            return c02.builder_for(ck, driver, params)
        return c16_selector.rebuild(ck, driver, params)

    return harness.replay_file(path, rebuild)
