"""C14 — join and request rate limits hold for every arrival pattern (engine M over src/rate_limit.rs)."""
import os
import sys

import z3

sys.path.insert(0, os.path.join(os.path.dirname(os.path.abspath(__file__)), "..", "lib", "mirsym"))
import harness  # noqa: E402
from engine import State  # noqa: E402
from harness import MirCheck, f64, fp_of_uint, fpv, mk_map  # noqa: E402
from summaries import fresh_instant, mk_time, time_eq, time_le, time_lt, time_sub  # noqa: E402
from values import VArr, VEnum, VMap, VRef, VStruct, bv, key_bv, vmap  # noqa: E402

F64 = z3.Float64()
RNE = z3.RNE()
MAXCFG = 1_000_000


def dur(secs):
    return mk_time(bv(secs, 64), bv(0, 32), "Duration")


def sym_bucket(eng, st, name):
    tokens = f64(name + ".tokens")
    riw = z3.BitVec(name + ".riw", 32)
    lu = fresh_instant(eng, st, name + ".lu")
    ws = fresh_instant(eng, st, name + ".ws")
    return VStruct([tokens, lu, riw, ws], "Bucket")


def bucket_inv(b, maxr, burst):
    return z3.And(z3.fpGEQ(b.f[0], fpv(0.0)), z3.fpLEQ(b.f[0], fp_of_uint(burst)), z3.ULE(b.f[2], maxr))


def cfg_ok(maxr, burst):
    return z3.And(z3.UGE(maxr, 1), z3.ULE(maxr, MAXCFG), z3.UGE(burst, 1), z3.ULE(burst, MAXCFG))


def step_post(pre, post, admitted, now, maxr, burst, window_s):
    """the property-level step relation of one attempt on one bucket (see DESIGN 4/C14)"""
    W = dur(window_s)
    D = time_sub(now, pre.f[3])  # now - window_start (now >= window_start by clock monotonicity)
    rolled_allowed = time_le(W, D)  # a count may only be reset after a full window has elapsed
    one = z3.If(admitted, bv(1, 32), bv(0, 32))
    count_ok = z3.Or(post.f[2] == pre.f[2] + one, z3.And(rolled_allowed, post.f[2] == one))
    # a reset also restarts the window at `now`; otherwise the window start is kept
    win_ok = z3.Or(time_eq(post.f[3], pre.f[3]), z3.And(rolled_allowed, time_eq(post.f[3], now)))
    no_wrap = z3.ULE(pre.f[2], maxr)
    # built with the same constructors as the engine's summaries so that the solver sees shared sub-terms
    import summaries as S
    elapsed = S._duration_since(None, None, [now, pre.f[1]], None, "", None)
    e_f = S._as_secs_f64(None, None, [elapsed], None, "", None)
    rate = z3.fpDiv(RNE, fp_of_uint(maxr), S._as_secs_f64(None, None, [W], None, "", None))
    ub = z3.fpAdd(RNE, pre.f[0], z3.fpMul(RNE, e_f, rate))
    ub_s = ub  # exact f64 refill formula of the documented rule: tokens + elapsed * (max / window)
    tokens_ok = z3.And(
        z3.fpLEQ(post.f[0], z3.If(admitted, z3.fpSub(RNE, ub_s, fpv(1.0)), ub_s)),  # never more than old + refill (- 1 when admitted)
        z3.fpLEQ(post.f[0], z3.If(admitted, z3.fpSub(RNE, fp_of_uint(burst), fpv(1.0)), fp_of_uint(burst))),
        z3.fpGEQ(post.f[0], fpv(0.0)),
    )
    admitted_needs = z3.Implies(admitted, z3.And(z3.UGE(post.f[2], 1), z3.ULE(post.f[2], maxr)))
    return {
        "invariant_preserved": z3.And(bucket_inv(post, maxr, burst), time_eq(post.f[1], now)),
        "window_count": z3.And(count_ok, win_ok, z3.ULE(post.f[2], maxr)),
        "token_budget": tokens_ok,
        "admission_consumes": admitted_needs,
    }


def group_bucket_step(ck, window_s):
    eng = ck.engine()
    st = State()
    b = sym_bucket(eng, st, "b")
    maxr = z3.BitVec("cfg.max", 32)
    burst = z3.BitVec("cfg.burst", 32)
    cfg = VStruct([dur(window_s), maxr, burst], "EngineConfig")
    rb = eng.alloc(st, b)
    rc = eng.alloc(st, cfg)
    prev = fresh_instant(eng, st, "prev")
    st.clock = prev
    hyps = [cfg_ok(maxr, burst), bucket_inv(b, maxr, burst), time_le(b.f[1], prev), time_le(b.f[3], prev)]
    name = ck.fn(r"rate_limit::<impl at [^>]*>::try_consume$")
    st2, ret = eng.call(name, [rb, rc], st)
    post = eng.load(st2, rb)
    now = st2.clock
    rel = step_post(b, post, ret, now, maxr, burst, window_s)
    tag = f"bucket_step[w={window_s}]"
    for k, g in rel.items():
        ck.prove(f"{tag}/{k}", eng, hyps + [st2.pc], g, on_sat=ck.replayer("bucket_step", {"window_s": window_s}))
    ck.side(tag, eng, hyps, on_sat=ck.replayer("bucket_step", {"window_s": window_s}))
    ck.reach(f"{tag}/reach_admit", eng, hyps + [st2.pc], ret)
    ck.reach(f"{tag}/reach_deny", eng, hyps + [st2.pc], z3.Not(ret))
    ck.out.samples.append({"obligation": tag, "pre": "arbitrary Bucket with 0<=tokens<=burst, riw<=max, timestamps <= now", "cfg": "1<=max,burst<=1e6",
                           "post": list(rel)})


def sym_engine(eng, st, name, window_s, kwidth, maxr, burst):
    gb = sym_bucket(eng, st, name + ".global")
    m = mk_map(eng, name + ".keyed", kwidth, sym_bucket_template(), cap=100_000)
    cfg = VStruct([dur(window_s), maxr, burst], "EngineConfig")
    return VStruct([cfg, gb, m], "Engine")


def sym_bucket_template():
    return VStruct([fpv(0.0), mk_time(bv(0, 64), bv(0, 32), "Instant"), bv(0, 32), mk_time(bv(0, 64), bv(0, 32), "Instant")], "Bucket")


def map_bucket(m, k):
    return vmap(m.val, lambda a: z3.Select(a, k))


def group_engine_key(ck, window_s):
    """Engine::<K>::try_consume_key with K = Ipv6Addr (128-bit keys): frame property + charged bucket"""
    eng = ck.engine()
    st = State()
    maxr = z3.BitVec("cfg.max", 32)
    burst = z3.BitVec("cfg.burst", 32)
    e = sym_engine(eng, st, "E", window_s, 128, maxr, burst)
    re_ = eng.alloc(st, e)
    key = VArr([z3.BitVec(f"key.{i}", 8) for i in range(16)])
    rk = eng.alloc(st, key)
    k = key_bv(key)
    prev = fresh_instant(eng, st, "prev")
    st.clock = prev
    m0 = e.f[2]
    b0 = map_bucket(m0, k)
    pres0 = z3.Select(m0.present, k)
    hyps = [cfg_ok(maxr, burst), z3.Implies(pres0, z3.And(bucket_inv(b0, maxr, burst), time_le(b0.f[1], prev), time_le(b0.f[3], prev))),
            z3.ULT(b0.f[1].f[1], bv(10**9, 32)), z3.ULT(b0.f[3].f[1], bv(10**9, 32))]
    name = ck.fn(r"rate_limit::<impl at [^>]*>::try_consume_key$")
    st2, ret = eng.call(name, [re_, rk], st)
    e2 = eng.load(st2, re_)
    m1 = e2.f[2]
    b1 = map_bucket(m1, k)
    now = st2.clock
    tag = f"engine_key[w={window_s}]"
    rp = ck.replayer("engine_key", {"window_s": window_s})
    # other keys are untouched
    k2 = z3.BitVec("other_key", 128)
    same = [z3.Select(m1.present, k2) == z3.Select(m0.present, k2)]
    from values import flatten
    for a1, a0 in zip(flatten(m1.val), flatten(m0.val)):
        same.append(z3.Select(a1, k2) == z3.Select(a0, k2))
    ck.prove(f"{tag}/other_keys_untouched", eng, hyps + [st2.pc, k2 != k], z3.And(*same), on_sat=rp)
    ck.prove(f"{tag}/global_bucket_untouched", eng, hyps + [st2.pc], z3.And(*[x == y for x, y in zip(flatten(e2.f[1]), flatten(e.f[1]))]), on_sat=rp)
    ck.prove(f"{tag}/key_is_tracked_afterwards", eng, hyps + [st2.pc], z3.Select(m1.present, k), on_sat=rp)
    # existing key: full step relation on its bucket
    rel = step_post(b0, b1, ret, now, maxr, burst, window_s)
    for kk, g in rel.items():
        if kk == "token_budget":
            continue  # decided on Bucket::try_consume itself (same body); through the map arrays the f64 query exceeds the cap
        ck.prove(f"{tag}/existing_key/{kk}", eng, hyps + [st2.pc, pres0], g, on_sat=rp)
    # new key: starts from a full bucket, an admission leaves count 1 and burst-1 tokens at most
    newrel = z3.And(bucket_inv(b1, maxr, burst), b1.f[2] == z3.If(ret, bv(1, 32), bv(0, 32)),
                    z3.fpLEQ(b1.f[0], z3.If(ret, z3.fpSub(RNE, fp_of_uint(burst), fpv(1.0)), fp_of_uint(burst))),
                    time_le(b1.f[3], now), time_le(prev, b1.f[3]))
    ck.prove(f"{tag}/new_key/fresh_bucket_charged", eng, hyps + [st2.pc, z3.Not(pres0)], newrel, on_sat=rp)
    ck.side(tag, eng, hyps, on_sat=rp)
    ck.reach(f"{tag}/reach_admit_existing", eng, hyps + [st2.pc, pres0], ret)
    ck.reach(f"{tag}/reach_deny_existing", eng, hyps + [st2.pc, pres0], z3.Not(ret))
    ck.reach(f"{tag}/reach_new", eng, hyps + [st2.pc, z3.Not(pres0)], ret)
    ck.out.samples.append({"obligation": tag, "state": "arbitrary LruCache<Ipv6Addr,Bucket> (SMT arrays), arbitrary 128-bit key", "post": ["other keys untouched", "key tracked", "step relation"]})


IPADDR = None


def sym_limiter(eng, st, cfg5):
    """arbitrary JoinRateLimiter whose four engines carry the configs JoinRateLimiter::new derives from `cfg5`"""
    c64, c48, c24, gmax, gburst = cfg5
    config = VStruct([c64, c48, c24, gmax, gburst], "JoinRateLimiterConfig")
    e64 = sym_engine(eng, st, "L.e64", 3600, 128, c64, c64)
    e48 = sym_engine(eng, st, "L.e48", 3600, 128, c48, c48)
    e24 = sym_engine(eng, st, "L.e24", 3600, 32, c24, c24)
    eg = sym_engine(eng, st, "L.eg", 60, 8, gmax, gburst)
    return VStruct([config, e64, e48, e24, eg], "JoinRateLimiter")


def engine_key_hyps(e, k, prev):
    m = e.f[2]
    b = map_bucket(m, k)
    pres = z3.Select(m.present, k)
    maxr, burst = e.f[0].f[1], e.f[0].f[2]
    return z3.And(z3.Implies(pres, z3.And(bucket_inv(b, maxr, burst), time_le(b.f[1], prev), time_le(b.f[3], prev))),
                  z3.ULT(b.f[1].f[1], bv(10**9, 32)), z3.ULT(b.f[3].f[1], bv(10**9, 32)))


def charged(e0, e1, k, admitted):
    """bucket of key k in engine e was charged by one admitted attempt (count +1 within the window, or restarted at 1)"""
    m0, m1 = e0.f[2], e1.f[2]
    b0, b1 = map_bucket(m0, k), map_bucket(m1, k)
    pres0 = z3.Select(m0.present, k)
    maxr = e0.f[0].f[1]
    return z3.And(z3.Select(m1.present, k), z3.UGE(b1.f[2], 1), z3.ULE(b1.f[2], maxr),
                  z3.Or(z3.And(pres0, b1.f[2] == b0.f[2] + 1), b1.f[2] == 1))


def engine_unchanged(e0, e1):
    from values import flatten
    return z3.And(*[x == y for x, y in zip(flatten(e0), flatten(e1))])


def engine_unchanged_except(e0, e1, k, k2):
    """maps agree at every key k2 != k (k2 fresh)"""
    from values import flatten
    m0, m1 = e0.f[2], e1.f[2]
    conj = [z3.Select(m1.present, k2) == z3.Select(m0.present, k2)]
    for a1, a0 in zip(flatten(m1.val), flatten(m0.val)):
        conj.append(z3.Select(a1, k2) == z3.Select(a0, k2))
    return z3.Implies(k2 != k, z3.And(*conj))


def mask(ipbv, keep_bytes, total_bytes):
    w = total_bytes * 8
    m = ((1 << (keep_bytes * 8)) - 1) << ((total_bytes - keep_bytes) * 8)
    return ipbv & bv(m, w)


def group_join_step(ck, v6):
    eng = ck.engine()
    st = State()
    cfg5 = [z3.BitVec(n, 32) for n in ("cfg.per64", "cfg.per48", "cfg.per24", "cfg.gmax", "cfg.gburst")]
    L = sym_limiter(eng, st, cfg5)
    rl = eng.alloc(st, L)
    from values import EnumInfo
    info = EnumInfo("IpAddr", ["V4", "V6"])
    if v6:
        ipb = [z3.BitVec(f"ip.{i}", 8) for i in range(16)]
        ip = VEnum(info, bv(1, 8), {1: (VArr(ipb),)})
    else:
        ipb = [z3.BitVec(f"ip.{i}", 8) for i in range(4)]
        ip = VEnum(info, bv(0, 8), {0: (VArr(ipb),)})
    rip = eng.alloc(st, ip)
    ipbv = key_bv(VArr(ipb))
    prev = fresh_instant(eng, st, "prev")
    st.clock = prev
    hyps = [z3.And(*[z3.And(z3.UGE(c, 1), z3.ULE(c, MAXCFG)) for c in cfg5])]
    k0 = bv(0, 8)
    hyps.append(engine_key_hyps(L.f[4], k0, prev))
    if v6:
        k64, k48 = mask(ipbv, 8, 16), mask(ipbv, 6, 16)
        hyps += [engine_key_hyps(L.f[1], k64, prev), engine_key_hyps(L.f[2], k48, prev)]
    else:
        k24 = mask(ipbv, 3, 4)
        hyps.append(engine_key_hyps(L.f[3], k24, prev))
    name = ck.fn(r"rate_limit::<impl at [^>]*>::check_join_allowed$")
    st2, ret = eng.call(name, [rl, rip], st)
    L2 = eng.load(st2, rl)
    okk = ret.idx == bv(0, 8)
    tag = "join_step[v6]" if v6 else "join_step[v4]"
    rp = ck.replayer("join_step", {"v6": v6})
    H = hyps + [st2.pc]
    o128 = z3.BitVec("other128", 128)
    o32 = z3.BitVec("other32", 32)
    o8 = z3.BitVec("other8", 8)
    if v6:
        ck.prove(f"{tag}/ok_charges_global_and_64_and_48", eng, H + [okk],
                 z3.And(charged(L.f[4], L2.f[4], k0, True), charged(L.f[1], L2.f[1], k64, True), charged(L.f[2], L2.f[2], k48, True)), on_sat=rp)
        ck.prove(f"{tag}/only_own_prefix_buckets_touched", eng, H,
                 z3.And(engine_unchanged_except(L.f[1], L2.f[1], k64, o128), engine_unchanged_except(L.f[2], L2.f[2], k48, o128),
                        engine_unchanged(L.f[3], L2.f[3]), engine_unchanged_except(L.f[4], L2.f[4], k0, o8)), on_sat=rp)
    else:
        ck.prove(f"{tag}/ok_charges_global_and_24", eng, H + [okk], z3.And(charged(L.f[4], L2.f[4], k0, True), charged(L.f[3], L2.f[3], k24, True)), on_sat=rp)
        ck.prove(f"{tag}/only_own_prefix_buckets_touched", eng, H,
                 z3.And(engine_unchanged_except(L.f[3], L2.f[3], k24, o32), engine_unchanged(L.f[1], L2.f[1]), engine_unchanged(L.f[2], L2.f[2]),
                        engine_unchanged_except(L.f[4], L2.f[4], k0, o8)), on_sat=rp)
    # a denial never resets or lowers a count without a window roll, and never raises tokens above burst: per-bucket invariants hold after any outcome
    levels = [("global", L.f[4], L2.f[4], k0)] + ([("per64", L.f[1], L2.f[1], k64), ("per48", L.f[2], L2.f[2], k48)] if v6 else [("per24", L.f[3], L2.f[3], k24)])
    for (lname, e0, e1, k) in levels:
        b1 = map_bucket(e1.f[2], k)
        ck.prove(f"{tag}/bucket_invariant_after_any_outcome[{lname}]", eng, H,
                 z3.Implies(z3.Select(e1.f[2].present, k), bucket_inv(b1, e0.f[0].f[1], e0.f[0].f[2])), on_sat=rp)
    ck.prove(f"{tag}/config_unchanged", eng, H, engine_unchanged(L.f[0], L2.f[0]), on_sat=rp)
    ck.side(tag, eng, hyps, on_sat=rp)
    ck.reach(f"{tag}/reach_ok", eng, H, okk)
    ck.reach(f"{tag}/reach_denied", eng, H, z3.Not(okk))
    ck.out.samples.append({"obligation": tag, "state": "arbitrary JoinRateLimiter (4 engines, SMT-array maps)", "input": "arbitrary address",
                           "post": ["Ok => global, /64 and /48 (or /24) buckets of exactly the masked prefix are charged", "no other key touched"]})


def run(tier):
    ck = MirCheck("C14", tier)
    import c14_replay

    ck.replayer = lambda kind, params: c14_replay.make(ck, kind, params)
    for w in (3600, 60):
        ck.guarded(f"bucket_step[w={w}]", lambda w=w: group_bucket_step(ck, w))
    ck.guarded("engine_key[w=3600]", lambda: group_engine_key(ck, 3600))
    ck.guarded("join_step[v6]", lambda: group_join_step(ck, True))
    ck.guarded("join_step[v4]", lambda: group_join_step(ck, False))
    ck.run_queries()
    ck.out.bounds = [
        "Bucket::try_consume: one step from an arbitrary bucket (0<=tokens<=burst finite f64, count<=max, timestamps<=now), cfg 1<=max,burst<=1e6, window in {60s,3600s} (the two the limiter constructs)",
        "Engine::try_consume_key: arbitrary LruCache contents as SMT arrays over 128-bit keys, arbitrary key, below the 100k-key LRU bound",
        "clock: arbitrary non-decreasing Instants, seconds < 2^40",
    ]
    ck.out.outside = ["concurrent callers (locks are identity)", "LRU eviction at 100k keys", "validation::RateLimiter::check_ip and TransportHandle listener wiring (async)",
                      "symbolic window lengths other than 60 s / 3600 s"]
    ck.out.assumptions = ["single-threaded execution", "refill upper bound is the documented formula tokens + elapsed_secs_f64 * (max as f64 / window_secs_f64) evaluated in f64 round-to-nearest"]
    ck.out.trusted.append("z3 4.8.12 / z3 5.1 / cvc5 1.0 portfolio")
    return ck.finish("./check C14 --tier " + tier)


def replay(path):
    import c14_replay

    return c14_replay.replay_file(path)
