"""C14 — join and request rate limits hold for every arrival pattern (engine M over src/rate_limit.rs + Kani prefix kernels)."""
import os
import sys

import z3

sys.path.insert(0, os.path.join(os.path.dirname(os.path.abspath(__file__)), "..", "lib", "mirsym"))
import harness  # noqa: E402
from engine import State  # noqa: E402
from harness import MirCheck, Src, fp_of_uint, fpv  # noqa: E402
from summaries import mk_time, time_eq, time_le, time_sub  # noqa: E402
from values import EnumInfo, VArr, VEnum, VMap, VStruct, bv, flatten, key_bv, vmap  # noqa: E402

F64 = z3.Float64()
RNE = z3.RNE()
MAXCFG = 1_000_000


def dur(secs):
    return mk_time(bv(secs, 64), bv(0, 32), "Duration")


def in_bucket(src, name):
    return VStruct([src.f64(name + ".tokens"), src.instant(name + ".lu"), src.bv(name + ".riw", 32), src.instant(name + ".ws")], "Bucket")


def bucket_template():
    z = mk_time(bv(0, 64), bv(0, 32), "Instant")
    return VStruct([fpv(0.0), z, bv(0, 32), z], "Bucket")


def bucket_inv(b, maxr, burst):
    return z3.And(z3.fpGEQ(b.f[0], fpv(0.0)), z3.fpLEQ(b.f[0], fp_of_uint(burst)), z3.ULE(b.f[2], maxr))


def bucket_wf(b, prev):
    """well-formed stored bucket: timestamps not after the last clock reading, nanos in range"""
    return z3.And(time_le(b.f[1], prev), time_le(b.f[3], prev), z3.ULT(b.f[1].f[1], bv(10**9, 32)), z3.ULT(b.f[3].f[1], bv(10**9, 32)))


def cfg_ok(maxr, burst):
    return z3.And(z3.UGE(maxr, 1), z3.ULE(maxr, MAXCFG), z3.UGE(burst, 1), z3.ULE(burst, MAXCFG))


def obs_bucket(o):
    """[tokens_bits, lu_s, lu_ns, riw, ws_s, ws_ns] -> Bucket value"""
    return VStruct([z3.simplify(z3.fpBVToFP(bv(int(o[0]), 64), F64)), mk_time(bv(int(o[1]), 64), bv(int(o[2]), 32), "Instant"), bv(int(o[3]), 32),
                    mk_time(bv(int(o[4]), 64), bv(int(o[5]), 32), "Instant")], "Bucket")


def step_post(pre, post, admitted, now, maxr, burst, window_s):
    """the property-level step relation of one attempt on one bucket (DESIGN 4/C14)"""
    import summaries as S

    W = dur(window_s)
    D = time_sub(now, pre.f[3])  # now - window_start (now >= window_start by clock monotonicity)
    rolled_allowed = time_le(W, D)  # a count may only be reset after a full window has elapsed
    one = z3.If(admitted, bv(1, 32), bv(0, 32))
    # either the attempt is counted in the running window, or (only after a full window) a new window starts at `now` with this attempt
    count_ok = z3.Or(z3.And(post.f[2] == pre.f[2] + one, time_eq(post.f[3], pre.f[3])),
                     z3.And(rolled_allowed, post.f[2] == one, time_eq(post.f[3], now)))
    win_ok = z3.BoolVal(True)
    # built with the same constructors as the engine's summaries so that the solver sees shared sub-terms
    elapsed = S._duration_since(None, None, [now, pre.f[1]], None, "", None)
    e_f = S._as_secs_f64(None, None, [elapsed], None, "", None)
    rate = z3.fpDiv(RNE, fp_of_uint(maxr), S._as_secs_f64(None, None, [W], None, "", None))
    ub = z3.fpAdd(RNE, pre.f[0], z3.fpMul(RNE, e_f, rate))  # the documented refill rule, in f64
    tokens_ok = z3.fpLEQ(post.f[0], z3.If(admitted, z3.fpSub(RNE, ub, fpv(1.0)), ub))  # never more than old + refill (- 1 when admitted)
    cap_ok = z3.And(z3.fpLEQ(post.f[0], z3.If(admitted, z3.fpSub(RNE, fp_of_uint(burst), fpv(1.0)), fp_of_uint(burst))), z3.fpGEQ(post.f[0], fpv(0.0)))
    admitted_needs = z3.Implies(admitted, z3.And(z3.UGE(post.f[2], 1), z3.ULE(post.f[2], maxr)))
    return {
        "invariant_preserved": z3.And(bucket_inv(post, maxr, burst), time_eq(post.f[1], now)),
        "window_count": z3.And(count_ok, win_ok, z3.ULE(post.f[2], maxr)),
        "token_budget": tokens_ok,
        "token_cap": cap_ok,
        "admission_consumes": admitted_needs,
    }


def pin_clock(src, eng, st):
    """name the last clock reading of the run so that it appears in models"""
    now = st.clock
    n0 = len(src.hyps)
    t = mk_time(src.pin("now.s", now.f[0]), src.pin("now.ns", now.f[1]), "Instant")
    return t, src.hyps[n0:]


def clock_freeze_pref(eng):
    """replay preference: every clock reading taken during the call is the same instant (a legal, non-decreasing clock)"""
    rs = list(getattr(eng, "clock_readings", []))
    return [z3.And(a.f[0] == b.f[0], a.f[1] == b.f[1]) for a, b in zip(rs, rs[1:])]


# ------------------------------------------------------------------------------------------ A. Bucket::try_consume

def build_bucket_step(ck, window_s, src, obs=None):
    eng = ck.engine() if obs is None else ck.meta_engine()
    b = in_bucket(src, "b")
    maxr, burst = src.bv("cfg.max", 32), src.bv("cfg.burst", 32)
    prev = src.instant("prev")
    hyps = list(src.hyps) + [cfg_ok(maxr, burst), bucket_inv(b, maxr, burst), bucket_wf(b, prev)]
    if obs is None:
        st = State()
        cfg = VStruct([dur(window_s), maxr, burst], "EngineConfig")
        rb, rc = eng.alloc(st, b), eng.alloc(st, cfg)
        st.clock = prev
        st2, ret = eng.call(ck.fn(r"rate_limit::<impl at [^>]*>::try_consume$"), [rb, rc], st)
        post = eng.load(st2, rb)
        now, ph = pin_clock(src, eng, st2)
        hyps += ph
        pc = st2.pc
    else:
        ret = z3.BoolVal(bool(obs["ret"]))
        post = obs_bucket(obs["post"])
        now = mk_time(src.bv("now.s", 64), src.bv("now.ns", 32), "Instant")
        pc = z3.BoolVal(True)
    rel = step_post(b, post, ret, now, maxr, burst, window_s)
    return {"eng": eng, "hyps": hyps, "goals": {k: z3.Implies(pc, g) for k, g in rel.items()},
            "reach": {"reach_admit": z3.And(pc, ret), "reach_deny": z3.And(pc, z3.Not(ret))}}


# ------------------------------------------------------------------------------------------ assume-guarantee: contract of try_consume

def install_bucket_contract(ck, eng):
    """In the map-level obligations `Bucket::try_consume` is replaced by its CONTRACT (the step relation that group A proves on the
    real body for both windows): fresh post-state constrained by the contract, precondition turned into an obligation."""
    import re as _re

    from summaries import _instant_now, fresh_instant
    from values import as_int

    def handler(e, st, args, dty, callee, m):
        rb, rc = args
        b0 = e.load(st, rb)
        cfg = e.load(st, rc)
        w = as_int(cfg.f[0].f[0])
        if w not in (60, 3600) or as_int(cfg.f[0].f[1]) != 0:
            raise harness.SymError("try_consume contract used with a window other than 60 s / 3600 s")
        maxr, burst = cfg.f[1], cfg.f[2]
        prev = st.clock
        now = _instant_now(e, st, [], None, callee, m)
        n = next(e._fresh)
        b1 = VStruct([z3.FP(f"tc{n}.tokens", F64), now, z3.BitVec(f"tc{n}.riw", 32),
                      mk_time(z3.BitVec(f"tc{n}.ws.s", 64), z3.BitVec(f"tc{n}.ws.ns", 32), "Instant")], "Bucket")
        ret = z3.Bool(f"tc{n}.ret")
        pre = z3.And(cfg_ok(maxr, burst), bucket_inv(b0, maxr, burst), bucket_wf(b0, prev) if prev is not None else z3.BoolVal(True))
        e.oblige(st, "contract-precondition:Bucket::try_consume", z3.Not(pre), kind="assert")
        rel = step_post(b0, b1, ret, now, maxr, burst, w)
        e.assume(z3.Implies(st.pc, z3.And(rel["invariant_preserved"], rel["window_count"], rel["token_cap"], rel["admission_consumes"])))
        e.store(st, rb, b1)
        return ret

    eng.summaries.insert(0, (_re.compile(r"^(rate_limit::)?Bucket::try_consume$"), handler,
                             "CONTRACT Bucket::try_consume (invariant_preserved + window_count + token_cap + admission_consumes, proved on the real body by bucket_step[w=60|3600])"))


# ------------------------------------------------------------------------------------------ B/C. engines with keyed maps

def in_engine(src, name, window_s, kwidth, maxr, burst, probes):
    gb = in_bucket(src, name + ".global")
    m = src.map(name + ".keyed", kwidth, bucket_template(), probes, cap=100_000)
    return VStruct([VStruct([dur(window_s), maxr, burst], "EngineConfig"), gb, m], "Engine")


def obs_engine(obs, name, kwidth, probes):
    gb = obs_bucket(obs[name + ".global"])
    m = harness.obs_map(obs, name + ".keyed", kwidth, bucket_template(), probes)
    c = obs[name + ".cfg"]
    return VStruct([VStruct([mk_time(bv(int(c[0]), 64), bv(int(c[1]), 32), "Duration"), bv(int(c[2]), 32), bv(int(c[3]), 32)], "EngineConfig"), gb, m], "Engine")


def map_bucket(m, k):
    return vmap(m.val, lambda a: z3.Select(a, k))


def _leaf_eq(x, y):
    if z3.is_fp(x):
        return z3.Or(z3.fpEQ(x, y), z3.And(z3.fpIsNaN(x), z3.fpIsNaN(y)))
    return x == y


def same_value(v0, v1):
    return z3.And(*[_leaf_eq(x, y) for x, y in zip(flatten(v1), flatten(v0))])


def same_bucket_at(m0, m1, k):
    return z3.And(z3.Select(m1.present, k) == z3.Select(m0.present, k), z3.Implies(z3.Select(m0.present, k), same_value(map_bucket(m0, k), map_bucket(m1, k))))


def key_hyps(e, k, prev):
    m = e.f[2]
    b = map_bucket(m, k)
    maxr, burst = e.f[0].f[1], e.f[0].f[2]
    return z3.And(z3.Implies(z3.Select(m.present, k), bucket_inv(b, maxr, burst)), bucket_wf(b, prev))


def charged(e0, e1, k):
    """bucket of key k was charged by one admitted attempt (count +1 within the window, or restarted at 1), never above max"""
    m0, m1 = e0.f[2], e1.f[2]
    b0, b1 = map_bucket(m0, k), map_bucket(m1, k)
    pres0 = z3.Select(m0.present, k)
    maxr = e0.f[0].f[1]
    return z3.And(z3.Select(m1.present, k), z3.UGE(b1.f[2], 1), z3.ULE(b1.f[2], maxr), z3.Or(z3.And(pres0, b1.f[2] == b0.f[2] + 1), b1.f[2] == 1))


def build_engine_key(ck, window_s, src, obs=None, contract=True):
    eng = ck.engine() if obs is None else ck.meta_engine()
    maxr, burst = src.bv("cfg.max", 32), src.bv("cfg.burst", 32)
    key = src.bytes("key", 16)
    k = key_bv(key)
    k2 = key_bv(src.bytes("other", 16))
    probes = {"cand": k, "other": k2}
    prev = src.instant("prev")
    e = in_engine(src, "E", window_s, 128, maxr, burst, probes)
    m0 = e.f[2]
    b0 = map_bucket(m0, k)
    pres0 = z3.Select(m0.present, k)
    hyps = list(src.hyps) + [cfg_ok(maxr, burst), key_hyps(e, k, prev), key_hyps(e, k2, prev), bucket_wf(e.f[1], prev)]
    if obs is None:
        st = State()
        re_, rk = eng.alloc(st, e), eng.alloc(st, key)
        st.clock = prev
        eng.clock_readings = []
        if contract:
            install_bucket_contract(ck, eng)
        st2, ret = eng.call(ck.fn(r"rate_limit::<impl at [^>]*>::try_consume_key$"), [re_, rk], st)
        e2 = eng.load(st2, re_)
        now, ph = pin_clock(src, eng, st2)
        hyps += ph
        pc = st2.pc
    else:
        ret = z3.BoolVal(bool(obs["ret"]))
        e2 = obs_engine(obs, "E", 128, probes)
        now = mk_time(src.bv("now.s", 64), src.bv("now.ns", 32), "Instant")
        pc = z3.BoolVal(True)
    m1 = e2.f[2]
    b1 = map_bucket(m1, k)
    G = {}
    G["other_keys_untouched"] = z3.Implies(k2 != k, same_bucket_at(m0, m1, k2))
    G["global_bucket_and_config_untouched"] = z3.And(same_value(e.f[1], e2.f[1]), same_value(e.f[0], e2.f[0]))
    G["key_is_tracked_afterwards"] = z3.Select(m1.present, k)
    rel = step_post(b0, b1, ret, now, maxr, burst, window_s)
    for kk, g in rel.items():
        if kk == "token_budget":
            continue  # decided on Bucket::try_consume itself; at this level try_consume is represented by its contract
        G[f"existing_key/{kk}"] = z3.Implies(pres0, g)
    G["new_key/fresh_bucket_charged"] = z3.Implies(z3.Not(pres0), z3.And(
        bucket_inv(b1, maxr, burst), b1.f[2] == z3.If(ret, bv(1, 32), bv(0, 32)),
        z3.fpLEQ(b1.f[0], z3.If(ret, z3.fpSub(RNE, fp_of_uint(burst), fpv(1.0)), fp_of_uint(burst))), time_le(b1.f[3], now), time_le(prev, b1.f[3])))
    return {"eng": eng, "hyps": hyps, "goals": {g: z3.Implies(pc, f) for g, f in G.items()},
            "reach": {"reach_admit_existing": z3.And(pc, pres0, ret), "reach_deny_existing": z3.And(pc, pres0, z3.Not(ret)), "reach_new": z3.And(pc, z3.Not(pres0), ret)}}


def mask(ipbv, keep_bytes, total_bytes):
    return ipbv & bv(((1 << (keep_bytes * 8)) - 1) << ((total_bytes - keep_bytes) * 8), total_bytes * 8)


ENG = [("e64", 3600, 128), ("e48", 3600, 128), ("e24", 3600, 32), ("eg", 60, 8)]


def build_join_step(ck, v6, src, obs=None, contract=True):
    eng = ck.engine() if obs is None else ck.meta_engine()
    cfg5 = [src.bv(n, 32) for n in ("cfg.per64", "cfg.per48", "cfg.per24", "cfg.gmax", "cfg.gburst")]
    ipb = src.bytes("ip", 16 if v6 else 4)
    ipbv = key_bv(ipb)
    info = EnumInfo("IpAddr", ["V4", "V6"])
    ip = VEnum(info, bv(1 if v6 else 0, 8), {(1 if v6 else 0): (ipb,)})
    prev = src.instant("prev")
    cand = {"e64": mask(ipbv, 8, 16) if v6 else None, "e48": mask(ipbv, 6, 16) if v6 else None, "e24": None if v6 else mask(ipbv, 3, 4), "eg": bv(0, 8)}
    other = {"e64": key_bv(src.bytes("other.e64", 16)), "e48": key_bv(src.bytes("other.e48", 16)), "e24": key_bv(src.bytes("other.e24", 4)), "eg": src.bv("other.eg", 8)}
    cfgs = {"e64": (cfg5[0], cfg5[0]), "e48": (cfg5[1], cfg5[1]), "e24": (cfg5[2], cfg5[2]), "eg": (cfg5[3], cfg5[4])}
    E0 = {}
    probes = {}
    for (n, w, kw) in ENG:
        probes[n] = {"other": other[n]}
        if cand[n] is not None:
            probes[n]["cand"] = cand[n]
        E0[n] = in_engine(src, "L." + n, w, kw, cfgs[n][0], cfgs[n][1], probes[n])
    hyps = list(src.hyps) + [z3.And(*[z3.And(z3.UGE(c, 1), z3.ULE(c, MAXCFG)) for c in cfg5])]
    for (n, w, kw) in ENG:
        hyps.append(bucket_wf(E0[n].f[1], prev))
        for k in probes[n].values():
            hyps.append(key_hyps(E0[n], k, prev))
    if obs is None:
        st = State()
        config = VStruct(cfg5, "JoinRateLimiterConfig")
        L = VStruct([config, E0["e64"], E0["e48"], E0["e24"], E0["eg"]], "JoinRateLimiter")
        rl, rip = eng.alloc(st, L), eng.alloc(st, ip)
        st.clock = prev
        eng.clock_readings = []
        if contract:
            install_bucket_contract(ck, eng)
        st2, ret = eng.call(ck.fn(r"rate_limit::<impl at [^>]*>::check_join_allowed$"), [rl, rip], st)
        L2 = eng.load(st2, rl)
        E1 = {"e64": L2.f[1], "e48": L2.f[2], "e24": L2.f[3], "eg": L2.f[4]}
        cfg_same = same_value(L.f[0], L2.f[0])
        okk = ret.idx == bv(0, 8)
        _, ph = pin_clock(src, eng, st2)
        hyps += ph
        pc = st2.pc
    else:
        E1 = {n: obs_engine(obs, "L." + n, kw, probes[n]) for (n, w, kw) in ENG}
        cfg_same = z3.And(*[bv(int(x), 32) == c for x, c in zip(obs["L.config"], cfg5)])
        okk = z3.BoolVal(bool(obs["ok"]))
        pc = z3.BoolVal(True)
    used = [n for (n, _, _) in ENG if cand[n] is not None]
    G = {}
    G["ok_charges_global_and_every_prefix_level_of_the_address"] = z3.Implies(okk, z3.And(*[charged(E0[n], E1[n], cand[n]) for n in used]))
    fr = []
    for (n, w, kw) in ENG:
        m0, m1 = E0[n].f[2], E1[n].f[2]
        if cand[n] is not None:
            fr.append(z3.Implies(other[n] != cand[n], same_bucket_at(m0, m1, other[n])))
        else:
            fr.append(same_bucket_at(m0, m1, other[n]))
        fr.append(same_value(E0[n].f[1], E1[n].f[1]))  # the engines' own `global` buckets are not used by the join limiter
        fr.append(same_value(E0[n].f[0], E1[n].f[0]))
    G["only_the_addresses_own_prefix_buckets_are_touched"] = z3.And(*fr)
    for n in used:
        b1 = map_bucket(E1[n].f[2], cand[n])
        G[f"bucket_invariant_after_any_outcome[{n}]"] = z3.Implies(z3.Select(E1[n].f[2].present, cand[n]), bucket_inv(b1, cfgs[n][0], cfgs[n][1]))
        b0 = map_bucket(E0[n].f[2], cand[n])
        G[f"counts_only_grow_within_a_window[{n}]"] = z3.Implies(
            z3.And(z3.Select(E0[n].f[2].present, cand[n]), z3.Select(E1[n].f[2].present, cand[n]), time_eq(b1.f[3], b0.f[3])), z3.UGE(b1.f[2], b0.f[2]))
    G["config_unchanged"] = cfg_same
    return {"eng": eng, "hyps": hyps, "goals": {g: z3.Implies(pc, f) for g, f in G.items()},
            "reach": {"reach_ok": z3.And(pc, okk), "reach_denied": z3.And(pc, z3.Not(okk))}}


def build_check_ip(ck, v6, src, obs=None, contract=True):
    """validation::RateLimiter::check_ip (the per-IP limiter on accepted connections): one attempt from an ARBITRARY limiter state.
    The limiter is one Engine<IpAddr>: its global bucket, then the bucket keyed by the address."""
    eng = ck.engine() if obs is None else ck.meta_engine()
    maxr, burst = src.bv("cfg.max", 32), src.bv("cfg.burst", 32)
    n = 16 if v6 else 4
    ipb, ob = src.bytes("ip", n), src.bytes("other", n)
    fam = bv(1 if v6 else 0, 8)
    k, k2 = z3.Concat(fam, key_bv(ipb)), z3.Concat(fam, key_bv(ob))
    probes = {"cand": k, "other": k2}
    prev = src.instant("prev")
    e = in_engine(src, "V", 60, 8 + 8 * n, maxr, burst, probes)
    hyps = list(src.hyps) + [cfg_ok(maxr, burst), key_hyps(e, k, prev), key_hyps(e, k2, prev), bucket_wf(e.f[1], prev), bucket_inv(e.f[1], maxr, burst)]
    if obs is None:
        st = State()
        info = EnumInfo("IpAddr", ["V4", "V6"])
        ip = VEnum(info, fam, {(1 if v6 else 0): (ipb,)})
        re_ = eng.alloc(st, e)
        adt = eng.struct_adt("validation::RateLimiter")
        from values import VOpaque

        lim = VStruct([re_ if f == "engine" else VOpaque("RateLimiter." + f) for f, _ in adt.fields], adt.name)
        st.clock = prev
        eng.clock_readings = []
        if contract:
            install_bucket_contract(ck, eng)
        st2, ret = eng.call(ck.fn_in("RateLimiter", "check_ip"), [eng.alloc(st, lim), eng.alloc(st, ip)], st)
        e2 = eng.load(st2, re_)
        okk = ret.idx == bv(0, 8)
        _, ph = pin_clock(src, eng, st2)
        hyps += ph
        pc = st2.pc
    else:
        e2 = obs_engine(obs, "V", 8 + 8 * n, probes)
        okk = z3.BoolVal(bool(obs["ok"]))
        pc = z3.BoolVal(True)
    g0, g1 = e.f[1], e2.f[1]
    G = {}
    G["ok_charges_the_global_bucket_and_the_addresses_own_bucket"] = z3.Implies(okk, z3.And(
        charged(e, e2, k), z3.UGE(g1.f[2], 1), z3.ULE(g1.f[2], maxr), z3.Or(g1.f[2] == g0.f[2] + 1, g1.f[2] == 1)))
    G["other_addresses_never_pay_for_this_one"] = z3.Implies(k2 != k, same_bucket_at(e.f[2], e2.f[2], k2))
    G["configuration_untouched"] = same_value(e.f[0], e2.f[0])
    b0, b1 = map_bucket(e.f[2], k), map_bucket(e2.f[2], k)
    G["bucket_invariants_after_any_outcome"] = z3.And(bucket_inv(g1, maxr, burst), z3.Implies(z3.Select(e2.f[2].present, k), bucket_inv(b1, maxr, burst)))
    G["counts_only_grow_within_a_window"] = z3.And(
        z3.Implies(time_eq(g1.f[3], g0.f[3]), z3.UGE(g1.f[2], g0.f[2])),
        z3.Implies(z3.And(z3.Select(e.f[2].present, k), z3.Select(e2.f[2].present, k), time_eq(b1.f[3], b0.f[3])), z3.UGE(b1.f[2], b0.f[2])))
    G["a_refusal_by_the_global_level_leaves_the_addresses_bucket_alone"] = z3.Implies(
        z3.And(z3.Not(okk), z3.Or(z3.And(time_eq(g1.f[3], g0.f[3]), g1.f[2] == g0.f[2]), z3.And(z3.Not(time_eq(g1.f[3], g0.f[3])), g1.f[2] == 0))), same_bucket_at(e.f[2], e2.f[2], k))
    return {"eng": eng, "hyps": hyps, "goals": {g: z3.Implies(pc, f) for g, f in G.items()},
            "reach": {"reach_ok": z3.And(pc, okk), "reach_denied": z3.And(pc, z3.Not(okk))}}


def build_limiter_new(ck, src, obs=None):
    """JoinRateLimiter::new wires the configuration into four engines: per-/64, per-/48, per-/24 with a one-hour window and
    burst = max = the configured per-hour number; global with a one-minute window, max = per-minute number, burst = configured burst"""
    eng = ck.engine() if obs is None else ck.meta_engine()
    cfg5 = [src.bv(n, 32) for n in ("cfg.per64", "cfg.per48", "cfg.per24", "cfg.gmax", "cfg.gburst")]
    hyps = list(src.hyps)
    want = {"e64": (3600, cfg5[0], cfg5[0]), "e48": (3600, cfg5[1], cfg5[1]), "e24": (3600, cfg5[2], cfg5[2]), "eg": (60, cfg5[3], cfg5[4])}
    if obs is None:
        st = State()
        config = VStruct(cfg5, "JoinRateLimiterConfig")
        st1, L = eng.call(ck.fn_in("JoinRateLimiter", "new"), [config], st)
        pc = st1.pc
        got = {}
        for i, n in enumerate(["e64", "e48", "e24", "eg"]):
            e = L.f[1 + i]
            c = e.f[0]
            m = e.f[2]
            empty = z3.BoolVal(True) if (not isinstance(m, VMap) or m.present is None) else z3.Not(z3.Select(m.present, z3.BitVec("anykey." + n, m.ksort.size())))
            got[n] = (c.f[0].f[0], c.f[0].f[1], c.f[1], c.f[2], e.f[1].f[0], e.f[1].f[2], empty)
        cfg_kept = z3.And(*[x == y for x, y in zip(flatten(L.f[0]), cfg5)])
    else:
        pc = z3.BoolVal(True)
        got = {}
        for n in ["e64", "e48", "e24", "eg"]:
            o = obs[n]
            got[n] = (bv(int(o["window_s"]), 64), bv(int(o["window_ns"]), 32), bv(int(o["max"]), 32), bv(int(o["burst"]), 32),
                      z3.simplify(z3.fpBVToFP(bv(int(o["global_tokens"]), 64), F64)), bv(int(o["global_riw"]), 32), z3.BoolVal(int(o["keys"]) == 0))
        cfg_kept = z3.And(*[bv(int(x), 32) == c for x, c in zip(obs["config"], cfg5)])
    G = {}
    for n, (w, mx, bu) in want.items():
        ws, wns, gmax, gburst, gtok, griw, empty = got[n]
        G[f"engine_{n}_gets_its_window_and_budget_from_the_right_configuration_field"] = z3.And(ws == bv(w, 64), wns == 0, gmax == mx, gburst == bu)
        G[f"engine_{n}_starts_empty"] = z3.And(empty, griw == 0, z3.fpLEQ(gtok, fp_of_uint(bu)))
    G["configuration_is_kept"] = cfg_kept
    return {"eng": eng, "hyps": hyps, "goals": {g: z3.Implies(pc, f) for g, f in G.items()}, "reach": {"reach_end": pc}}


def register(ck, tag, driver, params, builder):
    src = Src()
    R = builder(src, None)
    rp = harness.make_replayer(ck, "validation" if driver == "check_ip" else "rate_limit", driver, lambda s, obs: builder(s, obs), params,
                               race_driver=("engine_key_race" if driver in ("engine_key", "join_step") else None))
    ck.register_src(driver, params, src)
    prefs = clock_freeze_pref(R["eng"])
    precise = {}

    def refine_for(g):
        """the same obligation with Bucket::try_consume executed on its real body instead of its contract (built on demand, once)"""
        if driver not in ("engine_key", "join_step", "check_ip"):
            return None

        def mk():
            if "R" not in precise:
                precise["R"] = builder(Src(), None, contract=False)
            R2 = precise["R"]
            return {"formulas": list(R2["eng"].assumptions) + list(R2["hyps"]) + [z3.Not(R2["goals"][g])], "prefer": clock_freeze_pref(R2["eng"])}

        return mk

    for g, f in R["goals"].items():
        ck.prove(f"{tag}/{g}", R["eng"], R["hyps"], f, on_sat=rp, meta={"goal": g, "prefer": prefs, "refine": refine_for(g)})
    for g, f in R["reach"].items():
        ck.reach(f"{tag}/{g}", R["eng"], R["hyps"], f)
    ck.side(f"{tag}/side", R["eng"], R["hyps"], on_sat=rp)
    if driver in ("engine_key", "join_step"):
        ck.single_critical_section(tag, R["eng"], R["hyps"], on_sat=rp)
    ck.out.samples.append({"obligation": tag, "goals": list(R["goals"])})


def builder_for(ck, driver, params):
    if driver == "limiter_new":
        return lambda s, obs: build_limiter_new(ck, s, obs)
    if driver == "bucket_step":
        return lambda s, obs: build_bucket_step(ck, params["window_s"], s, obs)
    if driver == "check_ip":
        return lambda s, obs, contract=True: build_check_ip(ck, params["v6"], s, obs, contract)
    if driver == "engine_key":
        return lambda s, obs, contract=True: build_engine_key(ck, params["window_s"], s, obs, contract)
    return lambda s, obs, contract=True: build_join_step(ck, params["v6"], s, obs, contract)


def run(tier):
    ck = MirCheck("C14", tier)
    for w in (3600, 60):
        p = {"window_s": w}
        ck.guarded(f"bucket_step[w={w}]", lambda p=p, w=w: register(ck, f"bucket_step[w={w}]", "bucket_step", p, builder_for(ck, "bucket_step", p)))
    p = {"window_s": 3600}
    ck.guarded("engine_key[w=3600]", lambda: register(ck, "engine_key[w=3600]", "engine_key", p, builder_for(ck, "engine_key", p)))
    for v6 in (True, False):
        pp = {"v6": v6}
        t = "join_step[v6]" if v6 else "join_step[v4]"
        ck.guarded(t, lambda pp=pp, t=t: register(ck, t, "join_step", pp, builder_for(ck, "join_step", pp)))
    for v6 in ((True, False) if tier != "quick" else (False,)):
        pp = {"v6": v6}
        t = "check_ip[v6]" if v6 else "check_ip[v4]"
        ck.guarded(t, lambda pp=pp, t=t: register(ck, t, "check_ip", pp, builder_for(ck, "check_ip", pp)))
    ck.guarded("limiter_new", lambda: register(ck, "limiter_new", "limiter_new", {}, builder_for(ck, "limiter_new", {})))
    ck.run_queries()
    import kanicheck

    kanicheck.discharge(ck.out, "rate_limit", {"c14_prefix_helpers": "extract_ipv6_subnet_{64,48,32} / extract_ipv4_subnet_24 are exact byte masks for every address"},
                        timeout_s=2400, logname="c14-kani-" + tier)
    ck.out.bounds = [
        "Bucket::try_consume: one step from an arbitrary bucket (0<=tokens<=burst finite f64, count<=max, timestamps<=now), cfg 1<=max,burst<=1e6, window in {60s,3600s} (the two the limiter constructs)",
        "Engine::try_consume_key / JoinRateLimiter::check_join_allowed: one call from an ARBITRARY limiter state: LruCaches as SMT arrays over 128/32/8-bit keys, arbitrary address, below the 100k-key LRU bound",
        "validation::RateLimiter::check_ip (per-IP limiter on accepted connections, 60 s window): one attempt from an arbitrary limiter state, IPv4 address (quick) / IPv4 and IPv6 (thorough)",
        "clock: arbitrary non-decreasing Instants, seconds < 2^40",
        "Kani: prefix helpers for all 2^128 / 2^32 addresses (unwind 18)",
    ]
    ck.out.outside = ["concurrent callers: locks are identity in the symbolic execution; the only concurrency obligation is structural (each lock acquired at most once per call, so lookup+update of a key is one critical section), confirmed natively by a multi-threaded stress driver when violated", "LRU eviction at 100k keys", "TransportHandle listener wiring (where check_ip is called: spawned accept loop)",
                      "symbolic window lengths other than 60 s / 3600 s",
                      "multi-step arrival sequences are covered by induction over the one-step relations (bucket invariant + count/window relation), not unrolled"]
    ck.out.assumptions = ["single-threaded execution",
                          "assume-guarantee: inside try_consume_key / check_join_allowed the callee Bucket::try_consume is represented by its contract; the contract is proved on the real body by the bucket_step obligations of the same run, its precondition is an obligation at every call site", "refill upper bound is the documented formula tokens + elapsed_secs_f64 * (max as f64 / window_secs_f64) evaluated in f64 round-to-nearest"]
    ck.out.trusted.append("z3 4.8.12 / z3 5.1 / cvc5 1.0 portfolio")
    ck.out.trusted.append("Kani 0.68 / CBMC 6.11 for the prefix kernel")
    return ck.finish("./check C14 --tier " + tier)


def replay(path):
    return harness.replay_file(path, lambda ck, driver, params: (lambda s, obs: builder_for(ck, driver, params)(s, obs)["goals"]))
