#!/bin/bash
# Build caches from files on disk only (offline). Checks rebuild what they need themselves if this is skipped.
set -u
cd "$(dirname "$0")"
export CARGO_NET_OFFLINE=true
mkdir -p .cache/logs evidence replays
clang -shared -fPIC -O1 -o .cache/libverifclock.so lib/native/clockshim.c -ldl || true
# three independent warm-ups in parallel: Kani target dir, MIR dump (nightly), native replay test build
( ./check C12 --tier quick > .cache/logs/setup-kani.log 2>&1 ) &
( python3-vt lib/mirsym/mirdump.py > .cache/logs/setup-mir.log 2>&1 ) &
( python3-vt - > .cache/logs/setup-replay.log 2>&1 <<'PY'
import sys
sys.path.insert(0, "lib")
import kanicheck
print(kanicheck.native_driver("security", "analyze", {"__params": {}})[0])
PY
) &
wait
exit 0
