#!/bin/bash
# Build caches from files on disk only (offline). Checks rebuild what they need themselves if this is skipped.
set -u
cd "$(dirname "$0")"
export CARGO_NET_OFFLINE=true
mkdir -p .cache evidence replays
# warm the Kani target dir (3-4 min cold) by running the cheapest harness
./check C12 --tier quick >/dev/null 2>&1 || true
exit 0
