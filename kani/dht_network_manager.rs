// C04 — src/dht_network_manager.rs: native observation drivers for the pending-request table (handle_dht_response, send_dht_request).
use super::*;

#[cfg(all(test, verif_replay))]
mod driver {
    use super::*;
    use serde_json::{json, Map, Value};

    fn un(case: &Value, k: &str) -> u64 {
        match case.get(k) {
            Some(Value::Bool(b)) => *b as u64,
            Some(v) => v.as_u64().unwrap_or(0),
            None => 0,
        }
    }
    /// abstract string identity -> a real string (injective)
    pub fn s(id: u64) -> String {
        format!("s{id:016x}")
    }
    fn sid(t: &str) -> u64 {
        u64::from_str_radix(t.trim_start_matches('s'), 16).unwrap_or(u64::MAX)
    }

    pub async fn manager(local: &str) -> DhtNetworkManager {
        let node_config = crate::network::NodeConfig::builder().peer_id(local.to_string()).listen_port(0).ipv6(false).build().expect("node config");
        let transport = Arc::new(
            crate::transport_handle::TransportHandle::new(crate::transport_handle::TransportConfig {
                peer_id: local.to_string(),
                listen_addr: node_config.listen_addr,
                enable_ipv6: node_config.enable_ipv6,
                connection_timeout: node_config.connection_timeout,
                stale_peer_threshold: node_config.stale_peer_threshold,
                max_connections: node_config.max_connections,
                production_config: node_config.production_config.clone(),
                event_channel_capacity: crate::DEFAULT_EVENT_CHANNEL_CAPACITY,
            })
            .await
            .expect("transport"),
        );
        let config = DhtNetworkConfig {
            local_peer_id: local.to_string(),
            dht_config: DHTConfig::default(),
            node_config,
            request_timeout: Duration::from_secs(5),
            max_concurrent_operations: 10,
            replication_factor: 3,
            enable_security: false,
        };
        DhtNetworkManager::new(transport, None, config).await.expect("manager")
    }

    type Rx = oneshot::Receiver<(PeerId, DhtNetworkResult)>;

    /// pending entry from the flat leaves (order of checks/c04.py::ctx_template): v0 operation, v1 peer_id, v2/v3 started_at, v4/v5 timeout,
    /// v6 contacted len, v7 v8 contacted ids, v9 tx present, v10 channel identity
    fn read_entry(case: &Value, label: &str, base: Instant) -> Option<(DhtOperationContext, Option<Rx>)> {
        if un(case, &format!("A.ops@{label}.present")) == 0 {
            return None;
        }
        let l = |i: usize| un(case, &format!("A.ops@{label}.v{i}"));
        let n = (l(6) as usize).min(2);
        let contacted: Vec<PeerId> = (0..n).map(|i| s(l(7 + i))).collect();
        let (tx, rx) = if l(9) == 1 {
            let (tx, rx) = oneshot::channel();
            (Some(tx), Some(rx))
        } else {
            (None, None)
        };
        Some((
            DhtOperationContext {
                operation: DhtNetworkOperation::Ping,
                peer_id: s(l(1)),
                started_at: base + Duration::new(l(2), l(3) as u32),
                timeout: Duration::new(l(4), l(5) as u32),
                contacted_nodes: contacted,
                response_tx: tx,
            },
            rx,
        ))
    }
    fn flat_entry(case: &Value, label: &str, e: Option<&DhtOperationContext>, base: Instant) -> Value {
        let e = match e {
            Some(e) => e,
            None => return Value::Null,
        };
        let st = e.started_at.saturating_duration_since(base);
        let mut v = vec![json!(4u64), json!(sid(&e.peer_id)), json!(st.as_secs()), json!(st.subsec_nanos() as u64), json!(e.timeout.as_secs()), json!(e.timeout.subsec_nanos() as u64),
                         json!(e.contacted_nodes.len() as u64), json!(0u64), json!(0u64), json!(e.response_tx.is_some() as u64), json!(0u64)];
        for (i, c) in e.contacted_nodes.iter().take(2).enumerate() {
            v[7 + i] = json!(sid(c));
        }
        // leaves the code cannot have changed without it being visible elsewhere are echoed from the input: unused list slots, the channel identity of a still-present sender
        for i in (e.contacted_nodes.len().min(2))..2 {
            v[7 + i] = json!(un(case, &format!("A.ops@{label}.v{}", 7 + i)));
        }
        if e.response_tx.is_some() {
            v[10] = json!(un(case, &format!("A.ops@{label}.v10")));
        }
        Value::Array(v)
    }

    pub fn dht_response(case: &Value) -> Value {
        let rt = tokio::runtime::Builder::new_multi_thread().worker_threads(2).enable_all().build().unwrap();
        rt.block_on(async {
            let mgr = manager(&s(un(case, "local"))).await;
            let base = Instant::now();
            let (mid, oth) = (s(un(case, "mid")), s(un(case, "other")));
            let mut rx_mid: Option<Rx> = None;
            let mut rx_oth: Option<Rx> = None;
            {
                let mut ops = mgr.active_operations.lock().unwrap();
                if let Some((e, rx)) = read_entry(case, "other", base) {
                    ops.insert(oth.clone(), e);
                    rx_oth = rx;
                }
                if let Some((e, rx)) = read_entry(case, "mid", base) {
                    ops.insert(mid.clone(), e);
                    rx_mid = rx;
                }
            }
            let source = s(un(case, "msg.source"));
            let result = if un(case, "msg.result_some") == 1 { Some(DhtNetworkResult::LeaveSuccess) } else { None };
            let message = DhtNetworkMessage {
                message_id: mid.clone(),
                source: source.clone(),
                target: None,
                message_type: DhtMessageType::Response,
                payload: DhtNetworkOperation::Ping,
                result,
                timestamp: 0,
                ttl: 10,
                hop_count: 0,
            };
            let ok = mgr.handle_dht_response(&message, &s(un(case, "sender"))).await.is_ok();
            let mut out = Map::new();
            out.insert("ok".into(), json!(ok));
            let mut src_ok = true;
            let mut got = |rx: &mut Option<Rx>| -> (bool, bool) {
                match rx.as_mut().map(|r| r.try_recv()) {
                    Some(Ok((from, _))) => {
                        if from != source {
                            src_ok = false;
                        }
                        let again = matches!(rx.as_mut().map(|r| r.try_recv()), Some(Ok(_)));
                        (true, again)
                    }
                    _ => (false, false),
                }
            };
            let (dm, twice_m) = got(&mut rx_mid);
            let (dother, twice_o) = got(&mut rx_oth);
            out.insert("delivered_mid".into(), json!(dm));
            out.insert("delivered_other".into(), json!(dother));
            out.insert("delivered_twice".into(), json!(twice_m || twice_o));
            out.insert("delivered_source_ok".into(), json!(src_ok));
            let ops = mgr.active_operations.lock().unwrap();
            out.insert("post.ops@mid".into(), flat_entry(case, "mid", ops.get(&mid), base));
            out.insert("post.ops@other".into(), flat_entry(case, "other", ops.get(&oth), base));
            Value::Object(out)
        })
    }
    /// C05: handle_dht_message on `data.len` bytes that no decoder accepts: refused by the size check or by the decoder?
    pub fn dht_message(case: &Value) -> Value {
        let rt = tokio::runtime::Builder::new_multi_thread().worker_threads(2).enable_all().build().unwrap();
        rt.block_on(async {
            let mgr = manager("verif-local").await;
            let data = vec![0xffu8; (un(case, "data.len") as usize).min(1 << 22)];
            let r = mgr.handle_dht_message(&data, &"verif-sender".to_string()).await;
            let text = r.as_ref().err().map(|e| e.to_string()).unwrap_or_default();
            json!({"is_err": r.is_err(), "refused_before_decode": r.is_err() && text.contains("exceeds maximum allowed size")})
        })
    }

    /// send_dht_request towards a peer that is not connected: the transport send fails (the only environment outcome a native run can force)
    pub fn dht_send(case: &Value) -> Value {
        if un(case, "env.send_ok") == 1 {
            panic!("unknown driver outcome: a successful transport send cannot be forced natively");
        }
        let rt = tokio::runtime::Builder::new_multi_thread().worker_threads(2).enable_all().build().unwrap();
        rt.block_on(async {
            let mut mgr = manager(&s(un(case, "local"))).await;
            mgr.config.request_timeout = Duration::from_secs(un(case, "cfg.timeout.s").max(1));
            let prev = Duration::new(un(case, "prev.s"), un(case, "prev.ns") as u32);
            let now0 = Instant::now();
            let labels = ["other", "other2"];
            let mut keep: Vec<Rx> = Vec::new();
            {
                let mut ops = mgr.active_operations.lock().unwrap();
                for label in labels {
                    if un(case, &format!("A.ops@{label}.present")) == 0 {
                        continue;
                    }
                    let l = |i: usize| un(case, &format!("A.ops@{label}.v{i}"));
                    let started = Duration::new(l(2), l(3) as u32);
                    let age = prev.saturating_sub(started);
                    let n = (l(6) as usize).min(2);
                    let (tx, rx) = oneshot::channel();
                    let tx = if l(9) == 1 {
                        keep.push(rx);
                        Some(tx)
                    } else {
                        None
                    };
                    ops.insert(s(un(case, label)), DhtOperationContext {
                        operation: DhtNetworkOperation::Ping,
                        peer_id: s(l(1)),
                        started_at: now0.checked_sub(age).unwrap_or(now0),
                        timeout: Duration::new(l(4), l(5) as u32),
                        contacted_nodes: (0..n).map(|i| s(l(7 + i))).collect(),
                        response_tx: tx,
                    });
                }
            }
            let ok = mgr.send_dht_request(&s(un(case, "peer")), DhtNetworkOperation::Ping).await.is_ok();
            let mut out = Map::new();
            out.insert("ok".into(), json!(ok));
            let ops = mgr.active_operations.lock().unwrap();
            let flat = |label: &str, e: Option<&DhtOperationContext>| -> Value {
                let e = match e {
                    Some(e) => e,
                    None => return Value::Null,
                };
                // model time of the entry: prev - (now0 - started_at)
                let st = prev.saturating_sub(now0.saturating_duration_since(e.started_at));
                let mut v = vec![json!(4u64), json!(sid(&e.peer_id)), json!(st.as_secs()), json!(st.subsec_nanos() as u64), json!(e.timeout.as_secs()), json!(e.timeout.subsec_nanos() as u64),
                                 json!(e.contacted_nodes.len() as u64), json!(0u64), json!(0u64), json!(e.response_tx.is_some() as u64), json!(0u64)];
                for i in 0..2 {
                    v[7 + i] = match e.contacted_nodes.get(i) {
                        Some(c) => json!(sid(c)),
                        None => json!(un(case, &format!("A.ops@{label}.v{}", 7 + i))),
                    };
                }
                if e.response_tx.is_some() {
                    v[10] = json!(un(case, &format!("A.ops@{label}.v10")));
                }
                Value::Array(v)
            };
            for label in labels {
                out.insert(format!("post.ops@{label}"), flat(label, ops.get(&s(un(case, label)))));
            }
            let known: Vec<String> = labels.iter().map(|l| s(un(case, l))).collect();
            let leftover = ops.iter().find(|(k, _)| !known.contains(k)).map(|(_, e)| e);
            out.insert("post.ops@mid".into(), flat("mid", leftover));
            Value::Object(out)
        })
    }

    /// C02 (reply merge): find_closest_nodes_local / handle_lookup_request on a manager whose routing table (local id 0) and connected-peer book are the model's
    pub fn closest_local(case: &Value) -> Value {
        use crate::dht::core_engine::{NodeCapacity, NodeId, NodeInfo};
        let rt = tokio::runtime::Builder::new_multi_thread().worker_threads(2).enable_all().build().unwrap();
        rt.block_on(async {
            let params = case.get("__params").cloned().unwrap_or(Value::Null);
            let lookup = params.get("lookup").and_then(|v| v.as_bool()).unwrap_or(false);
            let t = params.get("t").and_then(|v| v.as_u64());
            let mut mgr = manager(&s(un(case, "local.peer_id"))).await;
            mgr.local_dht_key = DhtKey::from_bytes([0u8; 32]);
            mgr.local_dht_key_hex = hex::encode([0u8; 32]);
            mgr.local_transport_peer_id = if un(case, "local.transport_id_some") == 1 { Some(s(un(case, "local.transport_id"))) } else { None };
            // id with its first differing bit (from the all-zero local id) at position j, remaining bits from the case
            let id_in_bucket = |name: &str, j: usize| -> [u8; 32] {
                let mut out = [0u8; 32];
                for byte in 0..32 {
                    let raw = un(case, &format!("{name}.{byte}")) as u8;
                    let (lo, hi) = (byte * 8, byte * 8 + 7);
                    if hi < j {
                        out[byte] = 0;
                    } else if lo > j {
                        out[byte] = raw;
                    } else {
                        let k = j - lo;
                        let keep: u8 = ((1u16 << (7 - k)) - 1) as u8;
                        out[byte] = (raw & keep) | (1u8 << (7 - k));
                    }
                }
                out
            };
            let mut engine = crate::dht::core_engine::DhtCoreEngine::new(NodeId::from_bytes([0u8; 32])).expect("engine");
            let mut boot = Vec::new();
            if let Some(layout) = params.get("layout").and_then(|v| v.as_array()) {
                for e in layout {
                    let (j, cap) = match e {
                        Value::Array(a) => (a[0].as_u64().unwrap_or(0) as usize, a[1].as_u64().unwrap_or(1) as usize),
                        v => (v.as_u64().unwrap_or(0) as usize, 1),
                    };
                    let ln = (un(case, &format!("len{j}")) as usize).min(cap);
                    for sl in 0..ln {
                        boot.push(NodeInfo {
                            id: NodeId::from_bytes(id_in_bucket(&format!("b{j}s{sl}"), j)),
                            address: format!("127.0.0.1:{}", 4000 + j * 8 + sl),
                            last_seen: SystemTime::now(),
                            capacity: NodeCapacity::default(),
                        });
                    }
                }
            }
            engine.join_network(boot).await.expect("join");
            mgr.dht = Arc::new(RwLock::new(engine));
            {
                let mut peers = mgr.dht_peers.write().await;
                for (n, label) in ["pa", "pb"].iter().enumerate() {
                    if un(case, &format!("P.peers@{label}.present")) == 0 {
                        continue;
                    }
                    let l = |i: usize| un(case, &format!("P.peers@{label}.v{i}"));
                    let mut key = [0u8; 32];
                    for (i, b) in key.iter_mut().enumerate() {
                        *b = l(1 + i) as u8;
                    }
                    let addresses: Vec<Multiaddr> = if l(33) >= 1 {
                        vec![format!("127.0.0.1:{}", 5000 + n).parse().expect("address")]
                    } else {
                        Vec::new()
                    };
                    let pid = s(un(case, label));
                    peers.insert(pid.clone(), DhtPeerInfo {
                        peer_id: pid,
                        dht_key: key,
                        addresses,
                        last_seen: Instant::now(),
                        is_connected: l(37) == 1,
                        avg_latency: Duration::from_millis(50),
                        reliability_score: 1.0,
                    });
                }
            }
            let key: Key = match t {
                Some(t) => id_in_bucket("key", t as usize),
                None => [0u8; 32],
            };
            let (nodes, shape_ok) = if lookup {
                match mgr.handle_lookup_request(&key, &s(un(case, "requester")), LookupRequestKind::FindNode).await {
                    Ok(DhtNetworkResult::NodesFound { nodes, .. }) => {
                        let ok = !nodes.is_empty();
                        (nodes, ok)
                    }
                    Ok(DhtNetworkResult::GetNotFound { .. }) => (Vec::new(), true),
                    _ => (Vec::new(), false),
                }
            } else {
                (mgr.find_closest_nodes_local(&key, un(case, "count") as usize).await, true)
            };
            let result: Vec<Value> = nodes
                .iter()
                .map(|n| {
                    let k: Vec<u8> = match &n.cached_dht_key {
                        Some(k) => k.as_bytes().to_vec(),
                        None => crate::dht::derive_dht_key_from_peer_id(&n.peer_id).to_vec(),
                    };
                    let is_hex = n.peer_id == hex::encode(&k);
                    json!({"key": k, "name_is_hex": is_hex, "name": if is_hex { 0 } else { sid(&n.peer_id) }, "keyed": n.cached_dht_key.is_some()})
                })
                .collect();
            json!({"result": result, "shape_ok": shape_ok})
        })
    }

    /// C02 (reply cap): a node that knows 40 peers answers a remote lookup; how many does it name?
    pub fn lookup_cap(case: &Value) -> Value {
        use crate::dht::core_engine::{NodeCapacity, NodeId, NodeInfo};
        let rt = tokio::runtime::Builder::new_multi_thread().worker_threads(2).enable_all().build().unwrap();
        rt.block_on(async {
            let mut mgr = manager(&s(un(case, "local.peer_id"))).await;
            let mut engine = crate::dht::core_engine::DhtCoreEngine::new(NodeId::from_bytes([0u8; 32])).expect("engine");
            let mut boot = Vec::new();
            for j in 0..40usize {
                // five peers in each of the buckets 0..8 (ids 1xxxxxxx, 01xxxxxx, ...)
                let bucket = j % 8;
                let mut id = [0u8; 32];
                id[0] = 0x80u8 >> bucket;
                id[31] = j as u8 + 1;
                boot.push(NodeInfo { id: NodeId::from_bytes(id), address: format!("127.0.0.1:{}", 4000 + j), last_seen: SystemTime::now(), capacity: NodeCapacity::default() });
            }
            engine.join_network(boot).await.expect("join");
            mgr.dht = Arc::new(RwLock::new(engine));
            let kind = match un(case, "kind") {
                0 => LookupRequestKind::FindNode,
                1 => LookupRequestKind::FindValue,
                _ => LookupRequestKind::Get,
            };
            let n = match mgr.handle_lookup_request(&[0xffu8; 32], &s(un(case, "requester")), kind).await {
                Ok(DhtNetworkResult::NodesFound { nodes, .. }) => nodes.len(),
                _ => 0,
            };
            json!({"reply_len": n})
        })
    }

    /// C03: the replica side of a PUT (handle_dht_request) and the value side of a lookup (handle_lookup_request) on a manager whose engine (local id 0) holds the model's
    /// table and data; data is seeded through the engine's unconditional Store handler and observed through its local retrieve
    pub fn kv_manager(case: &Value) -> Value {
        use crate::dht::core_engine::{NodeCapacity, NodeId, NodeInfo};
        use crate::dht::core_engine::DhtRequestWrapper;
        use crate::dht::network_integration::DhtMessage;
        let rt = tokio::runtime::Builder::new_multi_thread().worker_threads(2).enable_all().build().unwrap();
        rt.block_on(async {
            let mut mgr = manager(&s(un(case, "local.peer_id"))).await;
            let id_in_bucket = |name: &str, j: usize| -> [u8; 32] {
                let mut out = [0u8; 32];
                for byte in 0..32 {
                    let raw = un(case, &format!("{name}.{byte}")) as u8;
                    let (lo, hi) = (byte * 8, byte * 8 + 7);
                    if hi < j {
                        out[byte] = 0;
                    } else if lo > j {
                        out[byte] = raw;
                    } else {
                        let k = j - lo;
                        let keep: u8 = ((1u16 << (7 - k)) - 1) as u8;
                        out[byte] = (raw & keep) | (1u8 << (7 - k));
                    }
                }
                out
            };
            let raw32 = |name: &str| -> [u8; 32] {
                let mut out = [0u8; 32];
                for (i, b) in out.iter_mut().enumerate() {
                    *b = un(case, &format!("{name}.{i}")) as u8;
                }
                out
            };
            let mut engine = crate::dht::core_engine::DhtCoreEngine::new(NodeId::from_bytes([0u8; 32])).expect("engine");
            let mut boot = Vec::new();
            for j in [3usize, 7] {
                if un(case, &format!("len{j}")) >= 1 {
                    boot.push(NodeInfo { id: NodeId::from_bytes(id_in_bucket(&format!("b{j}s0"), j)), address: format!("127.0.0.1:{}", 4000 + j), last_seen: SystemTime::now(), capacity: NodeCapacity::default() });
                }
            }
            engine.join_network(boot).await.expect("join");
            let is_store = case["__params"]["op"].as_str() == Some("store");
            let key: Key = if is_store { id_in_bucket("key", case["__params"]["t"].as_u64().unwrap_or(3) as usize) } else { raw32("key") };
            let other: Key = raw32("other");
            fn blob(id: u64, len: u64) -> Vec<u8> {
                let mut v = vec![0xabu8; len as usize];
                for (i, b) in id.to_be_bytes().iter().enumerate() {
                    if i < v.len() {
                        v[i] = *b;
                    }
                }
                v
            }
            fn unblob(v: &Vec<u8>) -> Value {
                let mut idb = [0u8; 8];
                for i in 0..8.min(v.len()) {
                    idb[i] = v[i];
                }
                json!({"id": u64::from_be_bytes(idb), "len": v.len() as u64})
            }
            for (label, k) in [("other", &other), ("cand", &key)] {
                if un(case, &format!("D.data@{label}.present")) == 1 {
                    let len = un(case, &format!("D.data@{label}.v1"));
                    if len > 512 {
                        panic!("unknown driver outcome: a stored value over 512 bytes cannot be seeded through the engine's Store handler");
                    }
                    let _ = engine.handle_request(DhtRequestWrapper { id: "seed".into(), message: DhtMessage::Store { key: DhtKey::from_bytes(*k), value: blob(un(case, &format!("D.data@{label}.v0")), len), ttl: Duration::from_secs(60) } }).await;
                }
            }
            mgr.dht = Arc::new(RwLock::new(engine));
            let mut out = Map::new();
            if is_store {
                let message = DhtNetworkMessage {
                    message_id: "m".into(), source: s(un(case, "msg.source")), target: None, message_type: DhtMessageType::Request,
                    payload: DhtNetworkOperation::Put { key, value: blob(un(case, "value.id"), un(case, "value.len").min(1 << 20)) },
                    result: None, timestamp: 0, ttl: 10, hop_count: 0,
                };
                let r = mgr.handle_dht_request(&message).await;
                out.insert("accepted".into(), json!(matches!(r, Ok(DhtNetworkResult::PutSuccess { .. }))));
            } else {
                let kind = if un(case, "kind") == 0 { LookupRequestKind::Get } else { LookupRequestKind::FindValue };
                let r = mgr.handle_lookup_request(&key, &s(un(case, "requester")), kind).await;
                out.insert("ok".into(), json!(r.is_ok()));
                let (val, key_ok) = match &r {
                    Ok(DhtNetworkResult::GetSuccess { key: k, value, .. }) | Ok(DhtNetworkResult::ValueFound { key: k, value, .. }) => (unblob(value), *k == key),
                    _ => (Value::Null, true),
                };
                out.insert("value".into(), val);
                out.insert("key_ok".into(), json!(key_ok));
            }
            let mut data = Map::new();
            for (label, k) in [("other", &other), ("cand", &key)] {
                let v = mgr.dht.read().await.retrieve(&DhtKey::from_bytes(*k)).await.ok().flatten();
                data.insert(format!("D.data@{label}"), v.as_ref().map(unblob).unwrap_or(Value::Null));
            }
            out.insert("data".into(), Value::Object(data));
            Value::Object(out)
        })
    }

}

#[cfg(all(test, verif_replay))]
#[test]
fn verif_replay_entry() {
    let h = std::env::var("VERIF_REPLAY_HARNESS").unwrap_or_default();
    let case: serde_json::Value = serde_json::from_str(&std::env::var("VERIF_REPLAY_CASE").unwrap_or_default()).expect("case json");
    let obs = match h.as_str() {
        "dht_response" => driver::dht_response(&case),
        "dht_send" => driver::dht_send(&case),
        "dht_message" => driver::dht_message(&case),
        "closest_local" => driver::closest_local(&case),
        "lookup_cap" => driver::lookup_cap(&case),
        "kv_manager_put" | "kv_manager_lookup" => driver::kv_manager(&case),
        other => panic!("unknown driver {other}"),
    };
    println!("VERIF-OBS {}", obs);
}
