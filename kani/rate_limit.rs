// C14 — src/rate_limit.rs: Kani kernel for the prefix helpers + native observation drivers for engine-M counterexamples.
use super::*;

#[path = "/verif/kani/prelude.rs"]
mod vp;

#[cfg_attr(kani, kani::proof)]
#[cfg_attr(kani, kani::unwind(18))]
pub fn c14_prefix_helpers() {
    let o: [u8; 16] = vp::any();
    let a = Ipv6Addr::from(o);
    let s64 = extract_ipv6_subnet_64(&a).octets();
    let s48 = extract_ipv6_subnet_48(&a).octets();
    let s32 = extract_ipv6_subnet_32(&a).octets();
    let mut i = 0;
    while i < 16 {
        vp::check(s64[i] == if i < 8 { o[i] } else { 0 }, "ipv6_64_mask");
        vp::check(s48[i] == if i < 6 { o[i] } else { 0 }, "ipv6_48_mask");
        vp::check(s32[i] == if i < 4 { o[i] } else { 0 }, "ipv6_32_mask");
        i += 1;
    }
    let v: [u8; 4] = vp::any();
    let s24 = extract_ipv4_subnet_24(&Ipv4Addr::from(v)).octets();
    vp::check(s24[0] == v[0] && s24[1] == v[1] && s24[2] == v[2] && s24[3] == 0, "ipv4_24_mask");
}

#[cfg(all(test, verif_replay))]
pub(crate) mod driver {
    use super::*;
    use serde_json::{json, Map, Value};

    fn u(case: &Value, k: &str) -> u64 {
        case.get(k).and_then(|v| v.as_u64()).unwrap_or(0)
    }
    fn b(case: &Value, k: &str) -> bool {
        case.get(k).and_then(|v| v.as_bool()).unwrap_or(false)
    }
    fn bytes<const N: usize>(case: &Value, name: &str) -> [u8; N] {
        let mut o = [0u8; N];
        for i in 0..N {
            o[i] = u(case, &format!("{name}.{i}")) as u8;
        }
        o
    }
    fn inst(case: &Value, name: &str) -> Instant {
        vp::clock::instant_at(u(case, &format!("{name}.s")), u(case, &format!("{name}.ns")) as u32)
    }
    fn bucket(case: &Value, name: &str) -> Bucket {
        Bucket {
            tokens: f64::from_bits(u(case, &format!("{name}.tokens"))),
            last_update: inst(case, &format!("{name}.lu")),
            requests_in_window: u(case, &format!("{name}.riw")) as u32,
            window_start: inst(case, &format!("{name}.ws")),
        }
    }
    /// bucket stored in a probed map slot: leaves v0..v5 = tokens, lu.s, lu.ns, riw, ws.s, ws.ns
    fn slot_bucket(case: &Value, name: &str) -> Option<Bucket> {
        if !b(case, &format!("{name}.present")) {
            return None;
        }
        Some(Bucket {
            tokens: f64::from_bits(u(case, &format!("{name}.v0"))),
            last_update: vp::clock::instant_at(u(case, &format!("{name}.v1")), u(case, &format!("{name}.v2")) as u32),
            requests_in_window: u(case, &format!("{name}.v3")) as u32,
            window_start: vp::clock::instant_at(u(case, &format!("{name}.v4")), u(case, &format!("{name}.v5")) as u32),
        })
    }
    fn abs(i: Instant) -> (u64, u32) {
        let d = i.duration_since(vp::clock::instant_at(0, 0));
        (d.as_secs(), d.subsec_nanos())
    }
    fn obs_bucket(bk: &Bucket) -> Value {
        let (ls, ln) = abs(bk.last_update);
        let (ws, wn) = abs(bk.window_start);
        json!([bk.tokens.to_bits(), ls, ln, bk.requests_in_window, ws, wn])
    }
    pub(crate) fn freeze_clock_at(case: &Value) {
        vp::clock::reset();
        vp::clock::push_mono(u(case, "now.s"), u(case, "now.ns") as u32);
        vp::clock::arm(true);
    }
    pub(crate) fn thaw() {
        vp::clock::arm(false);
        vp::clock::reset();
    }

    pub fn bucket_step(case: &Value) -> Value {
        let w = case["__params"]["window_s"].as_u64().unwrap_or(3600);
        let cfg = EngineConfig { window: Duration::from_secs(w), max_requests: u(case, "cfg.max") as u32, burst_size: u(case, "cfg.burst") as u32 };
        let mut bk = bucket(case, "b");
        freeze_clock_at(case);
        let ret = bk.try_consume(&cfg);
        thaw();
        json!({"ret": ret, "post": obs_bucket(&bk), "shim": vp::clock::available()})
    }

    pub(crate) fn obs_engine<K: Eq + std::hash::Hash + Clone + ToString>(e: &Engine<K>, name: &str, probes: &[(String, K)], out: &mut Map<String, Value>) {
        {
            let g = e.global.lock().unwrap();
            out.insert(format!("{name}.global"), obs_bucket(&g));
        }
        out.insert(format!("{name}.cfg"), json!([e.cfg.window.as_secs(), e.cfg.window.subsec_nanos(), e.cfg.max_requests, e.cfg.burst_size]));
        let m = e.keyed.read();
        for (label, k) in probes {
            out.insert(format!("{name}.keyed@{label}"), m.peek(k).map(obs_bucket).unwrap_or(Value::Null));
        }
    }
    pub(crate) fn fill_engine<K: Eq + std::hash::Hash + Clone + ToString>(e: &Engine<K>, case: &Value, name: &str, probes: &[(String, K)]) {
        *e.global.lock().unwrap() = bucket(case, &format!("{name}.global"));
        let mut m = e.keyed.write();
        for pass in ["other", "cand"] {
            for (label, k) in probes {
                if label == pass {
                    if let Some(bk) = slot_bucket(case, &format!("{name}.keyed@{label}")) {
                        m.put(k.clone(), bk);
                    }
                }
            }
        }
    }

    pub fn engine_key(case: &Value) -> Value {
        let w = case["__params"]["window_s"].as_u64().unwrap_or(3600);
        let cfg = EngineConfig { window: Duration::from_secs(w), max_requests: u(case, "cfg.max") as u32, burst_size: u(case, "cfg.burst") as u32 };
        let e: Engine<Ipv6Addr> = Engine::new(cfg);
        let key = Ipv6Addr::from(bytes::<16>(case, "key"));
        let other = Ipv6Addr::from(bytes::<16>(case, "other"));
        let probes = vec![("cand".to_string(), key), ("other".to_string(), other)];
        fill_engine(&e, case, "E", &probes);
        freeze_clock_at(case);
        let ret = e.try_consume_key(&key);
        thaw();
        let mut out = Map::new();
        out.insert("ret".into(), json!(ret));
        obs_engine(&e, "E", &probes, &mut out);
        Value::Object(out)
    }

    /// stress driver for the structural atomicity obligation: many threads make the FIRST request for the same fresh key of an
    /// engine with burst 1 / max 1; more than one admission for a key means lookup and insert were not one critical section
    pub fn engine_key_race(_case: &Value) -> Value {
        use std::sync::atomic::{AtomicUsize, Ordering};
        use std::sync::{Arc as SArc, Barrier};
        let cfg = EngineConfig { window: Duration::from_secs(3600), max_requests: 1, burst_size: 1 };
        let e: SArc<Engine<u64>> = SArc::new(Engine::new(cfg));
        let threads = 8usize;
        let rounds = 3000u64;
        let over = SArc::new(AtomicUsize::new(0));
        for chunk in 0..(rounds / 100) {
            let barrier = SArc::new(Barrier::new(threads));
            let admitted: SArc<Vec<AtomicUsize>> = SArc::new((0..100).map(|_| AtomicUsize::new(0)).collect());
            let mut hs = Vec::new();
            for _ in 0..threads {
                let (e, barrier, admitted) = (e.clone(), barrier.clone(), admitted.clone());
                hs.push(std::thread::spawn(move || {
                    barrier.wait();
                    for k in 0..100u64 {
                        if e.try_consume_key(&(chunk * 100 + k)) {
                            admitted[k as usize].fetch_add(1, Ordering::SeqCst);
                        }
                    }
                }));
            }
            for h in hs {
                let _ = h.join();
            }
            over.fetch_add(admitted.iter().filter(|a| a.load(Ordering::SeqCst) > 1).count(), Ordering::SeqCst);
        }
        let n = over.load(Ordering::SeqCst);
        json!({"race_observed": n > 0, "detail": format!("{n} of {rounds} fresh keys admitted more than burst=1 request under 8 racing threads")})
    }

    pub fn limiter_new(case: &Value) -> Value {
        let config = JoinRateLimiterConfig {
            max_joins_per_64_per_hour: u(case, "cfg.per64") as u32,
            max_joins_per_48_per_hour: u(case, "cfg.per48") as u32,
            max_joins_per_24_per_hour: u(case, "cfg.per24") as u32,
            max_global_joins_per_minute: u(case, "cfg.gmax") as u32,
            global_burst_size: u(case, "cfg.gburst") as u32,
        };
        let l = JoinRateLimiter::new(config);
        fn eng<K: Eq + std::hash::Hash + Clone + ToString>(e: &Engine<K>) -> Value {
            let g = e.global.lock().unwrap();
            json!({"window_s": e.cfg.window.as_secs(), "window_ns": e.cfg.window.subsec_nanos(), "max": e.cfg.max_requests, "burst": e.cfg.burst_size,
                   "global_tokens": g.tokens.to_bits(), "global_riw": g.requests_in_window, "keys": e.keyed.read().len()})
        }
        let c = &l.config;
        json!({"e64": eng(&l.per_subnet_64), "e48": eng(&l.per_subnet_48), "e24": eng(&l.per_subnet_24), "eg": eng(&l.global),
               "config": [c.max_joins_per_64_per_hour, c.max_joins_per_48_per_hour, c.max_joins_per_24_per_hour, c.max_global_joins_per_minute, c.global_burst_size]})
    }

    pub fn join_step(case: &Value) -> Value {
        let v6 = case["__params"]["v6"].as_bool().unwrap_or(true);
        let config = JoinRateLimiterConfig {
            max_joins_per_64_per_hour: u(case, "cfg.per64") as u32,
            max_joins_per_48_per_hour: u(case, "cfg.per48") as u32,
            max_joins_per_24_per_hour: u(case, "cfg.per24") as u32,
            max_global_joins_per_minute: u(case, "cfg.gmax") as u32,
            global_burst_size: u(case, "cfg.gburst") as u32,
        };
        let l = JoinRateLimiter::new(config);
        let mut p64 = vec![("other".to_string(), Ipv6Addr::from(bytes::<16>(case, "other.e64")))];
        let mut p48 = vec![("other".to_string(), Ipv6Addr::from(bytes::<16>(case, "other.e48")))];
        let mut p24 = vec![("other".to_string(), Ipv4Addr::from(bytes::<4>(case, "other.e24")))];
        let pg = vec![("other".to_string(), u(case, "other.eg") as u8), ("cand".to_string(), 0u8)];
        let ip: IpAddr = if v6 {
            let o = bytes::<16>(case, "ip");
            let mut m64 = [0u8; 16];
            m64[..8].copy_from_slice(&o[..8]);
            let mut m48 = [0u8; 16];
            m48[..6].copy_from_slice(&o[..6]);
            p64.push(("cand".to_string(), Ipv6Addr::from(m64)));
            p48.push(("cand".to_string(), Ipv6Addr::from(m48)));
            IpAddr::V6(Ipv6Addr::from(o))
        } else {
            let o = bytes::<4>(case, "ip");
            p24.push(("cand".to_string(), Ipv4Addr::new(o[0], o[1], o[2], 0)));
            IpAddr::V4(Ipv4Addr::from(o))
        };
        fill_engine(&l.per_subnet_64, case, "L.e64", &p64);
        fill_engine(&l.per_subnet_48, case, "L.e48", &p48);
        fill_engine(&l.per_subnet_24, case, "L.e24", &p24);
        fill_engine(&l.global, case, "L.eg", &pg);
        freeze_clock_at(case);
        let r = l.check_join_allowed(&ip);
        thaw();
        let mut out = Map::new();
        out.insert("ok".into(), json!(r.is_ok()));
        obs_engine(&l.per_subnet_64, "L.e64", &p64, &mut out);
        obs_engine(&l.per_subnet_48, "L.e48", &p48, &mut out);
        obs_engine(&l.per_subnet_24, "L.e24", &p24, &mut out);
        obs_engine(&l.global, "L.eg", &pg, &mut out);
        let c = &l.config;
        out.insert("L.config".into(), json!([c.max_joins_per_64_per_hour, c.max_joins_per_48_per_hour, c.max_joins_per_24_per_hour,
                                              c.max_global_joins_per_minute, c.global_burst_size]));
        Value::Object(out)
    }
}

#[cfg(all(test, verif_replay))]
#[test]
fn verif_replay_entry() {
    let h = std::env::var("VERIF_REPLAY_HARNESS").unwrap_or_default();
    if h == "c14_prefix_helpers" {
        vp::load_vals_from_env();
        return c14_prefix_helpers();
    }
    let case: serde_json::Value = serde_json::from_str(&std::env::var("VERIF_REPLAY_CASE").unwrap_or_default()).expect("case json");
    let obs = match h.as_str() {
        "bucket_step" => driver::bucket_step(&case),
        "engine_key" => driver::engine_key(&case),
        "join_step" => driver::join_step(&case),
        "engine_key_race" => driver::engine_key_race(&case),
        "limiter_new" => driver::limiter_new(&case),
        other => panic!("unknown driver {other}"),
    };
    println!("VERIF-OBS {}", obs);
}
