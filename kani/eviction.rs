// C16 — native observation driver for engine-M counterexamples on EvictionManager.
use super::*;

#[path = "/verif/kani/prelude.rs"]
mod vp;

#[cfg(all(test, verif_replay))]
mod driver {
    use super::*;
    use serde_json::{json, Map, Value};

    fn u(case: &Value, k: &str) -> u64 {
        case.get(k).and_then(|v| v.as_u64()).unwrap_or(0)
    }
    fn b(case: &Value, k: &str) -> bool {
        case.get(k).and_then(|v| v.as_bool()).unwrap_or(false)
    }
    fn id(case: &Value, name: &str) -> DhtNodeId {
        let mut o = [0u8; 32];
        for i in 0..32 {
            o[i] = u(case, &format!("{name}.{i}")) as u8;
        }
        DhtNodeId::from_bytes(o)
    }
    const VARIANTS: [&str; 4] = ["ConsecutiveFailures", "LowTrust", "CloseGroupRejection", "Stale"];

    fn build(case: &Value) -> (EvictionManager, Vec<(String, DhtNodeId)>) {
        let mut cfg = MaintenanceConfig::default();
        cfg.max_consecutive_failures = u(case, "cfg.max_failures") as u32;
        cfg.min_trust_threshold = f64::from_bits(u(case, "cfg.min_trust"));
        let mut m = EvictionManager::new(cfg);
        let probes = vec![("other".to_string(), id(case, "other")), ("cand".to_string(), id(case, "n"))];
        for (label, nid) in &probes {
            if b(case, &format!("M.live@{label}.present")) {
                let mut s = NodeLivenessState::new();
                s.consecutive_failures = u(case, &format!("M.live@{label}.v2")) as u32;
                s.total_successes = u(case, &format!("M.live@{label}.v3"));
                s.total_failures = u(case, &format!("M.live@{label}.v4"));
                m.liveness_states.insert(nid.clone(), s);
            }
            if b(case, &format!("M.trust@{label}.present")) {
                m.trust_scores.insert(nid.clone(), f64::from_bits(u(case, &format!("M.trust@{label}.v0"))));
            }
            if b(case, &format!("M.marked@{label}.present")) {
                let r = match (u(case, &format!("M.marked@{label}.v0")) as usize) % 4 {
                    0 => EvictionReason::ConsecutiveFailures(u(case, &format!("M.marked@{label}.v1")) as u32),
                    1 => EvictionReason::LowTrust(format!("S{}", u(case, &format!("M.marked@{label}.v2")))),
                    2 => EvictionReason::CloseGroupRejection,
                    _ => EvictionReason::Stale,
                };
                m.marked_for_eviction.insert(nid.clone(), r);
            }
        }
        (m, probes)
    }

    fn reason_json(r: &EvictionReason) -> Value {
        match r {
            EvictionReason::ConsecutiveFailures(n) => json!({"variant": "ConsecutiveFailures", "failures": n}),
            EvictionReason::LowTrust(_) => json!({"variant": "LowTrust"}),
            EvictionReason::CloseGroupRejection => json!({"variant": "CloseGroupRejection"}),
            EvictionReason::Stale => json!({"variant": "Stale"}),
        }
    }

    pub fn eviction_op(case: &Value) -> Value {
        let op = case["__params"]["op"].as_str().unwrap_or("query").to_string();
        let (mut m, probes) = build(case);
        let n = id(case, "n");
        let mut out = Map::new();
        match op.as_str() {
            "record_failure" => m.record_failure(&n),
            "record_success" => m.record_success(&n),
            "update_trust_score" => m.update_trust_score(&n, f64::from_bits(u(case, "in.score"))),
            "record_eviction" => m.record_eviction(&n, EvictionReason::CloseGroupRejection),
            "remove_node" => m.remove_node(&n),
            "candidates" => {
                let c = m.get_eviction_candidates();
                let o = id(case, "other");
                out.insert("n".into(), json!(c.len()));
                out.insert("occ_cand".into(), json!(c.iter().filter(|(i, _)| *i == n).count()));
                out.insert("occ_other".into(), json!(c.iter().filter(|(i, _)| *i == o).count()));
            }
            _ => {
                out.insert("reason".into(), m.get_eviction_reason(&n).map(|r| reason_json(&r)).unwrap_or(Value::Null));
                out.insert("should_evict".into(), json!(m.should_evict(&n)));
                out.insert("should_evict_for_trust".into(), json!(m.should_evict_for_trust(&n)));
                out.insert("consecutive".into(), json!(m.get_consecutive_failures(&n)));
            }
        }
        for (label, nid) in &probes {
            out.insert(format!("post.live@{label}"),
                       m.liveness_states.get(nid).map(|s| json!([s.consecutive_failures, s.total_successes, s.total_failures])).unwrap_or(Value::Null));
            out.insert(format!("post.trust@{label}"), m.trust_scores.get(nid).map(|s| json!(s.to_bits())).unwrap_or(Value::Null));
            out.insert(format!("post.marked@{label}"), m.marked_for_eviction.get(nid).map(reason_json).unwrap_or(Value::Null));
        }
        Value::Object(out)
    }
}

#[cfg(all(test, verif_replay))]
#[test]
fn verif_replay_entry() {
    let case: serde_json::Value = serde_json::from_str(&std::env::var("VERIF_REPLAY_CASE").unwrap_or_default()).expect("case json");
    let obs = driver::eviction_op(&case);
    println!("VERIF-OBS {}", obs);
}
