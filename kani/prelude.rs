// Shared prelude of every /verif Kani harness module.
//
// The same harness body is used twice:
//   * under `cfg(kani)`  : values come from kani::any(), checks are assert!, clock is a Kani stub;
//   * under `cfg(verif_replay)` (native `cargo test`): values come from the byte vectors of a Kani
//     concrete-playback counterexample (env VERIF_REPLAY_VALS), checks print a marker and panic.
// That is how a solver counterexample is replayed against the natively compiled crate before it is
// reported (contract: only natively reproduced violations are VIOLATIONs).
#![allow(dead_code, unused_imports, static_mut_refs)]

#[cfg(kani)]
pub fn any<T: kani::Arbitrary>() -> T {
    kani::any()
}
#[cfg(kani)]
pub fn assume(b: bool) {
    kani::assume(b)
}
#[cfg(kani)]
pub fn check(b: bool, _name: &'static str) {
    assert!(b, "{}", _name);
}
#[cfg(kani)]
pub fn cover(b: bool, _name: &'static str) {
    kani::cover!(b);
}

// ---------------------------------------------------------------- native replay side
#[cfg(not(kani))]
thread_local! {
    static VALS: std::cell::RefCell<std::collections::VecDeque<Vec<u8>>> = std::cell::RefCell::new(Default::default());
}

#[cfg(not(kani))]
pub fn load_vals_from_env() {
    // VERIF_REPLAY_VALS = "1,2,3;255;0,0,0,0,0,0,0,1;..."  (one group per kani::any() of a primitive)
    let s = std::env::var("VERIF_REPLAY_VALS").unwrap_or_default();
    let mut q = std::collections::VecDeque::new();
    for g in s.split(';') {
        if g.trim().is_empty() {
            continue;
        }
        q.push_back(g.split(',').map(|x| x.trim().parse::<u8>().unwrap()).collect::<Vec<u8>>());
    }
    VALS.with(|v| *v.borrow_mut() = q);
}

#[cfg(not(kani))]
pub fn next_bytes(n: usize) -> Vec<u8> {
    VALS.with(|v| {
        let mut b = v.borrow_mut().pop_front().unwrap_or_else(|| vec![0u8; n]);
        b.resize(n, 0);
        b
    })
}

#[cfg(not(kani))]
pub trait Arb: Sized {
    fn arb() -> Self;
}
#[cfg(not(kani))]
macro_rules! arb_int {
    ($($t:ty),*) => {$(
        impl Arb for $t {
            fn arb() -> Self {
                let b = next_bytes(std::mem::size_of::<$t>());
                let mut a = [0u8; std::mem::size_of::<$t>()];
                a.copy_from_slice(&b);
                <$t>::from_le_bytes(a)
            }
        }
    )*};
}
#[cfg(not(kani))]
arb_int!(u8, u16, u32, u64, u128, usize, i8, i16, i32, i64, i128, isize, f64, f32);
#[cfg(not(kani))]
impl Arb for bool {
    fn arb() -> Self {
        u8::arb() == 1
    }
}
#[cfg(not(kani))]
impl<T: Arb, const N: usize> Arb for [T; N] {
    fn arb() -> Self {
        [(); N].map(|_| T::arb())
    }
}
#[cfg(not(kani))]
pub fn any<T: Arb>() -> T {
    T::arb()
}
#[cfg(not(kani))]
pub fn assume(b: bool) {
    if !b {
        println!("VERIF-REPLAY-ASSUME-FAILED");
        panic!("VERIF-REPLAY-ASSUME-FAILED");
    }
}
#[cfg(not(kani))]
pub fn check(b: bool, name: &'static str) {
    if !b {
        println!("VERIF-REPLAY-CHECK-FAILED {}", name);
        panic!("VERIF-REPLAY-CHECK-FAILED {}", name);
    }
}
#[cfg(not(kani))]
pub fn cover(_b: bool, _name: &'static str) {}

// ---------------------------------------------------------------- clock (seconds since epoch)
// Under Kani the module-local `current_timestamp()` helpers are stubbed with `stub_ts`; natively the
// real clock is read and the harness' timestamps are shifted by (real_now - model_now) so that the
// counterexample lands in the same place relative to "now".
pub static mut NOW_S: u64 = 0;
pub fn stub_ts() -> u64 {
    unsafe { NOW_S }
}

/// returns (effective now, shift to apply to model timestamps)
#[cfg(kani)]
pub fn set_now_secs(now: u64) -> (u64, i128) {
    unsafe { NOW_S = now };
    (now, 0)
}
#[cfg(not(kani))]
pub fn set_now_secs(now: u64) -> (u64, i128) {
    // with the LD_PRELOAD clock shim the real-time clock is pinned to the model's `now` exactly
    if clock::available() {
        clock::reset();
        clock::push_real(now, 0);
        clock::arm(true);
        unsafe { NOW_S = now };
        return (now, 0);
    }
    let real = std::time::SystemTime::now().duration_since(std::time::UNIX_EPOCH).map(|d| d.as_secs()).unwrap_or(0);
    unsafe { NOW_S = real };
    (real, real as i128 - now as i128)
}

/// control of clock_gettime through /verif/lib/native/clockshim.c (native replay only)
#[cfg(not(kani))]
pub mod clock {
    use std::ffi::c_void;
    unsafe extern "C" {
        fn dlsym(handle: *mut c_void, symbol: *const u8) -> *mut c_void;
    }
    fn sym(name: &'static [u8]) -> *mut c_void {
        unsafe { dlsym(std::ptr::null_mut(), name.as_ptr()) }
    }
    pub fn available() -> bool {
        !sym(b"verif_clock_push\0").is_null()
    }
    pub fn reset() {
        let p = sym(b"verif_clock_reset\0");
        if !p.is_null() {
            let f: extern "C" fn() = unsafe { std::mem::transmute(p) };
            f();
        }
    }
    pub fn arm(on: bool) {
        let p = sym(b"verif_clock_arm\0");
        if !p.is_null() {
            let f: extern "C" fn(i32) = unsafe { std::mem::transmute(p) };
            f(on as i32);
        }
    }
    fn push(which: i32, s: u64, ns: u32) {
        let p = sym(b"verif_clock_push\0");
        if !p.is_null() {
            let f: extern "C" fn(i32, i64, i64) = unsafe { std::mem::transmute(p) };
            f(which, s as i64, ns as i64);
        }
    }
    /// next reading of Instant::now()
    pub fn push_mono(s: u64, ns: u32) {
        push(0, s, ns)
    }
    /// next reading of SystemTime::now()
    pub fn push_real(s: u64, ns: u32) {
        push(1, s, ns)
    }
    /// an Instant with the given absolute monotonic reading (requires the shim)
    pub fn instant_at(s: u64, ns: u32) -> std::time::Instant {
        reset();
        push_mono(s, ns);
        arm(true);
        let i = std::time::Instant::now();
        arm(false);
        reset();
        i
    }
}
pub fn shift_ts(ts: u64, delta: i128) -> u64 {
    let v = ts as i128 + delta;
    if v < 0 || v > u64::MAX as i128 {
        ts
    } else {
        v as u64
    }
}

pub fn zero_random_state() -> std::collections::hash_map::RandomState {
    unsafe { std::mem::zeroed() }
}
