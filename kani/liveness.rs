// C16 — Kani kernel for NodeLivenessState (consecutive-failure counter policy).
use super::*;

#[path = "/verif/kani/prelude.rs"]
mod vp;

fn zero_instant() -> Instant {
    unsafe { std::mem::zeroed() }
}

#[cfg_attr(kani, kani::proof)]
#[cfg_attr(kani, kani::unwind(10))]
#[cfg_attr(kani, kani::stub(std::time::Instant::now, zero_instant))]
pub fn c16_liveness_counter() {
    let mut cfg = MaintenanceConfig::default();
    let limit: u32 = vp::any();
    vp::assume(limit >= 1);
    cfg.max_consecutive_failures = limit;
    let c0: u32 = vp::any();
    vp::assume(c0 < (1u32 << 31));
    let tf: u64 = vp::any();
    let ts: u64 = vp::any();
    vp::assume(tf < (1u64 << 62) && ts < (1u64 << 62));
    let mut s = NodeLivenessState { last_seen: zero_instant(), consecutive_failures: c0, total_successes: ts, total_failures: tf };
    vp::check(s.should_evict(&cfg) == (c0 >= limit), "should_evict_iff_counter_reaches_limit");
    // one success clears failure-based candidacy
    s.record_success();
    vp::check(s.consecutive_failures == 0 && !s.should_evict(&cfg), "success_resets");
    // then k failures give exactly k
    let k: u8 = vp::any();
    vp::assume(k <= 8);
    let mut i = 0u8;
    while i < k {
        s.record_failure();
        i += 1;
    }
    vp::check(s.consecutive_failures == k as u32, "k_failures_count_k");
    vp::check(s.should_evict(&cfg) == (k as u32 >= limit), "candidate_exactly_at_limit");
    vp::check(s.total_failures == tf + k as u64 && s.total_successes == ts + 1, "totals_track_events");
}

#[cfg(all(test, verif_replay))]
#[test]
fn verif_replay_entry() {
    vp::load_vals_from_env();
    c16_liveness_counter();
}
