// C13 — src/security.rs: Kani kernel for prefix extraction + native observation driver for engine-M counterexamples.
use super::*;

#[path = "/verif/kani/prelude.rs"]
mod vp;

// ---------------------------------------------------------------- Kani: extract_subnet_prefix keeps exactly the first p bits
#[cfg_attr(kani, kani::proof)]
#[cfg_attr(kani, kani::unwind(130))]
pub fn c13_prefix_generic() {
    let o: [u8; 16] = vp::any();
    let p: u8 = vp::any();
    vp::assume(p <= 128);
    let s = IPDiversityEnforcer::extract_subnet_prefix(Ipv6Addr::from(o), p).octets();
    let mut i = 0usize;
    while i < 128 {
        let bit_in = (o[i / 8] >> (7 - (i % 8))) & 1;
        let bit_out = (s[i / 8] >> (7 - (i % 8))) & 1;
        if i < p as usize {
            vp::check(bit_in == bit_out, "prefix_bits_kept");
        } else {
            vp::check(bit_out == 0, "host_bits_zeroed");
        }
        i += 1;
    }
}

#[cfg_attr(kani, kani::proof)]
#[cfg_attr(kani, kani::unwind(6))]
pub fn c13_prefix_v4() {
    let v: [u8; 4] = vp::any();
    let a = Ipv4Addr::from(v);
    let s24 = IPDiversityEnforcer::extract_ipv4_subnet_24(a).octets();
    let s16 = IPDiversityEnforcer::extract_ipv4_subnet_16(a).octets();
    let s8 = IPDiversityEnforcer::extract_ipv4_subnet_8(a).octets();
    vp::check(s24 == [v[0], v[1], v[2], 0], "v4_24");
    vp::check(s16 == [v[0], v[1], 0, 0], "v4_16");
    vp::check(s8 == [v[0], 0, 0, 0], "v4_8");
}

// ---------------------------------------------------------------- native driver (cfg(verif_replay))
#[cfg(all(test, verif_replay))]
pub(crate) mod driver {
    use super::*;
    use serde_json::{json, Map, Value};

    fn u(case: &Value, k: &str) -> u64 {
        case.get(k).and_then(|v| v.as_u64()).unwrap_or(0)
    }
    fn b(case: &Value, k: &str) -> bool {
        case.get(k).and_then(|v| v.as_bool()).unwrap_or(false)
    }
    fn bytes<const N: usize>(case: &Value, name: &str) -> [u8; N] {
        let mut o = [0u8; N];
        for i in 0..N {
            o[i] = u(case, &format!("{name}.{i}")) as u8;
        }
        o
    }
    fn key_bytes<const N: usize>(case: &Value, name: &str) -> [u8; N] {
        // a probe key given as one big-endian integer split in bytes: name.b0 .. name.b{N-1}
        bytes::<N>(case, name)
    }

    fn config(case: &Value) -> IPDiversityConfig {
        IPDiversityConfig {
            max_nodes_per_64: u(case, "cfg.max_nodes_per_64") as usize,
            max_nodes_per_48: u(case, "cfg.max_nodes_per_48") as usize,
            max_nodes_per_32: u(case, "cfg.max_nodes_per_32") as usize,
            max_nodes_per_ipv4_32: u(case, "cfg.max_nodes_per_ipv4_32") as usize,
            max_nodes_per_ipv4_24: u(case, "cfg.max_nodes_per_ipv4_24") as usize,
            max_nodes_per_ipv4_16: u(case, "cfg.max_nodes_per_ipv4_16") as usize,
            max_per_ip_cap: u(case, "cfg.max_per_ip_cap") as usize,
            max_network_fraction: case["__params"]["fraction"].as_f64().unwrap_or(0.005),
            max_nodes_per_asn: u(case, "cfg.max_nodes_per_asn") as usize,
            enable_geolocation_check: b(case, "cfg.enable_geolocation_check"),
            min_geographic_diversity: u(case, "cfg.min_geographic_diversity") as usize,
        }
    }

    const V6MAPS: [&str; 3] = ["subnet_64_counts", "subnet_48_counts", "subnet_32_counts"];
    const V4MAPS: [&str; 3] = ["ipv4_32_counts", "ipv4_24_counts", "ipv4_16_counts"];

    fn v6map<'a>(e: &'a mut IPDiversityEnforcer, n: &str) -> &'a mut LruCache<Ipv6Addr, usize> {
        match n {
            "subnet_64_counts" => &mut e.subnet_64_counts,
            "subnet_48_counts" => &mut e.subnet_48_counts,
            _ => &mut e.subnet_32_counts,
        }
    }
    fn v4map<'a>(e: &'a mut IPDiversityEnforcer, n: &str) -> &'a mut LruCache<Ipv4Addr, usize> {
        match n {
            "ipv4_32_counts" => &mut e.ipv4_32_counts,
            "ipv4_24_counts" => &mut e.ipv4_24_counts,
            _ => &mut e.ipv4_16_counts,
        }
    }

    pub(crate) fn country_of(id: u64) -> String {
        format!("C{id:016x}")
    }

    /// keys probed in map `n`: label -> key
    struct Probes {
        v6: Vec<(String, String, Ipv6Addr)>,
        v4: Vec<(String, String, Ipv4Addr)>,
        asn: Vec<(String, u32)>,
        country: Vec<(String, String)>,
    }

    fn probes(case: &Value) -> Probes {
        let v6 = case["__params"]["v6"].as_bool().unwrap_or(true);
        let mut p = Probes { v6: vec![], v4: vec![], asn: vec![], country: vec![] };
        let cand6 = [("subnet_64_counts", "a.s64"), ("subnet_48_counts", "a.s48"), ("subnet_32_counts", "a.s32")];
        let cand4 = [("ipv4_32_counts", "a.ip"), ("ipv4_24_counts", "a.s24"), ("ipv4_16_counts", "a.s16")];
        for (m, src) in cand6 {
            if v6 {
                p.v6.push((m.to_string(), "cand".into(), Ipv6Addr::from(bytes::<16>(case, src))));
            }
            p.v6.push((m.to_string(), "other".into(), Ipv6Addr::from(key_bytes::<16>(case, &format!("other.{m}")))));
        }
        for (m, src) in cand4 {
            if !v6 {
                p.v4.push((m.to_string(), "cand".into(), Ipv4Addr::from(bytes::<4>(case, src))));
            }
            p.v4.push((m.to_string(), "other".into(), Ipv4Addr::from(key_bytes::<4>(case, &format!("other.{m}")))));
        }
        // keys a routing-table peer holds according to its slot record (engine-level step obligations)
        for (m, _) in cand6 {
            if case.get(&format!("held.{m}.0")).is_some() {
                p.v6.push((m.to_string(), "held".into(), Ipv6Addr::from(key_bytes::<16>(case, &format!("held.{m}")))));
            }
        }
        for (m, _) in cand4 {
            if case.get(&format!("held.{m}.0")).is_some() {
                p.v4.push((m.to_string(), "held".into(), Ipv4Addr::from(key_bytes::<4>(case, &format!("held.{m}")))));
            }
        }
        if case.get("held.asn_counts").is_some() {
            p.asn.push(("held".into(), u(case, "held.asn_counts") as u32));
        }
        if case.get("held.country_counts").is_some() {
            p.country.push(("held".into(), country_of(u(case, "held.country_counts"))));
        }
        p.asn.push(("cand".into(), u(case, "a.asn") as u32));
        p.asn.push(("other".into(), u(case, "other.asn_counts") as u32));
        p.country.push(("cand".into(), country_of(u(case, "a.country"))));
        p.country.push(("other".into(), country_of(u(case, "other.country_counts"))));
        p
    }

    pub(crate) fn build(case: &Value) -> IPDiversityEnforcer {
        let mut e = IPDiversityEnforcer::new(config(case));
        e.set_network_size(u(case, "network_size") as usize);
        let p = probes(case);
        // 'other' first so that a coinciding 'cand' pin wins (they agree in a consistent model anyway)
        for pass in ["other", "held", "cand"] {
            for (m, label, k) in &p.v6 {
                if label == pass && b(case, &format!("E.{m}@{label}.present")) {
                    v6map(&mut e, m).put(*k, u(case, &format!("E.{m}@{label}.v0")) as usize);
                }
            }
            for (m, label, k) in &p.v4 {
                if label == pass && b(case, &format!("E.{m}@{label}.present")) {
                    v4map(&mut e, m).put(*k, u(case, &format!("E.{m}@{label}.v0")) as usize);
                }
            }
            for (label, k) in &p.asn {
                if label == pass && b(case, &format!("E.asn_counts@{label}.present")) {
                    e.asn_counts.put(*k, u(case, &format!("E.asn_counts@{label}.v0")) as usize);
                }
            }
            for (label, k) in &p.country {
                if label == pass && b(case, &format!("E.country_counts@{label}.present")) {
                    e.country_counts.put(k.clone(), u(case, &format!("E.country_counts@{label}.v0")) as usize);
                }
            }
        }
        e
    }

    pub(crate) fn observe(e: &IPDiversityEnforcer, case: &Value, prefix: &str, out: &mut Map<String, Value>) {
        let p = probes(case);
        let mut put = |k: String, v: Option<&usize>| {
            out.insert(k, v.map(|c| json!(*c as u64)).unwrap_or(Value::Null));
        };
        for (m, label, k) in &p.v6 {
            let v = match m.as_str() {
                "subnet_64_counts" => e.subnet_64_counts.peek(k),
                "subnet_48_counts" => e.subnet_48_counts.peek(k),
                _ => e.subnet_32_counts.peek(k),
            };
            put(format!("{prefix}.{m}@{label}"), v);
        }
        for (m, label, k) in &p.v4 {
            let v = match m.as_str() {
                "ipv4_32_counts" => e.ipv4_32_counts.peek(k),
                "ipv4_24_counts" => e.ipv4_24_counts.peek(k),
                _ => e.ipv4_16_counts.peek(k),
            };
            put(format!("{prefix}.{m}@{label}"), v);
        }
        for (label, k) in &p.asn {
            put(format!("{prefix}.asn_counts@{label}"), e.asn_counts.peek(k));
        }
        for (label, k) in &p.country {
            put(format!("{prefix}.country_counts@{label}"), e.country_counts.peek(k));
        }
        out.insert(format!("{prefix}.network_size"), json!(e.network_size as u64));
        let c = &e.config;
        out.insert(
            format!("{prefix}.cfg"),
            json!([c.max_nodes_per_64 as u64, c.max_nodes_per_48 as u64, c.max_nodes_per_32 as u64, c.max_nodes_per_ipv4_32 as u64,
                   c.max_nodes_per_ipv4_24 as u64, c.max_nodes_per_ipv4_16 as u64, c.max_per_ip_cap as u64, c.max_nodes_per_asn as u64,
                   c.min_geographic_diversity as u64]),
        );
    }

    fn analysis(case: &Value) -> UnifiedIPAnalysis {
        let asn = if b(case, "a.asn_some") { Some(u(case, "a.asn") as u32) } else { None };
        let country = if b(case, "a.country_some") { Some(country_of(u(case, "a.country"))) } else { None };
        let rep = f64::from_bits(u(case, "a.rep"));
        if case["__params"]["v6"].as_bool().unwrap_or(true) {
            UnifiedIPAnalysis::IPv6(IPAnalysis {
                subnet_64: Ipv6Addr::from(bytes::<16>(case, "a.s64")),
                subnet_48: Ipv6Addr::from(bytes::<16>(case, "a.s48")),
                subnet_32: Ipv6Addr::from(bytes::<16>(case, "a.s32")),
                asn,
                country,
                is_hosting_provider: b(case, "a.hosting"),
                is_vpn_provider: b(case, "a.vpn"),
                reputation_score: rep,
            })
        } else {
            UnifiedIPAnalysis::IPv4(IPv4Analysis {
                ip_addr: Ipv4Addr::from(bytes::<4>(case, "a.ip")),
                subnet_24: Ipv4Addr::from(bytes::<4>(case, "a.s24")),
                subnet_16: Ipv4Addr::from(bytes::<4>(case, "a.s16")),
                subnet_8: Ipv4Addr::from(bytes::<4>(case, "a.s8")),
                asn,
                country,
                is_hosting_provider: b(case, "a.hosting"),
                is_vpn_provider: b(case, "a.vpn"),
                reputation_score: rep,
            })
        }
    }

    pub fn add_remove(case: &Value) -> Value {
        let mut out = Map::new();
        let a = analysis(case);
        let e0 = build(case);
        out.insert("can_accept".into(), json!(e0.can_accept_unified(&a)));
        let mut e1 = build(case);
        let ok = e1.add_unified(&a).is_ok();
        out.insert("add_ok".into(), json!(ok));
        observe(&e1, case, "add", &mut out);
        e1.remove_unified(&a);
        observe(&e1, case, "addrm", &mut out);
        let mut e3 = build(case);
        e3.remove_unified(&a);
        observe(&e3, case, "rm", &mut out);
        Value::Object(out)
    }

    pub fn misc(case: &Value) -> Value {
        let mut e = IPDiversityEnforcer::new(config(case));
        let empty = e.subnet_64_counts.len() == 0 && e.subnet_48_counts.len() == 0 && e.subnet_32_counts.len() == 0 && e.ipv4_32_counts.len() == 0
            && e.ipv4_24_counts.len() == 0 && e.ipv4_16_counts.len() == 0 && e.asn_counts.len() == 0 && e.country_counts.len() == 0;
        let size0 = e.get_network_size();
        e.set_network_size(u(case, "network_size") as usize);
        let u6 = e.analyze_unified(std::net::IpAddr::V6(Ipv6Addr::from(bytes::<16>(case, "ip6"))));
        let u4 = e.analyze_unified(std::net::IpAddr::V4(Ipv4Addr::from(bytes::<4>(case, "ip4"))));
        json!({"empty": empty, "size0": size0 as u64, "size2": e.get_network_size() as u64, "limit": e.get_per_ip_limit() as u64,
               "is6": matches!(u6, Ok(UnifiedIPAnalysis::IPv6(_))), "is4": matches!(u4, Ok(UnifiedIPAnalysis::IPv4(_)))})
    }

    pub fn analyze(case: &Value) -> Value {
        let e = IPDiversityEnforcer::new(IPDiversityConfig::default());
        let ip6 = Ipv6Addr::from(bytes::<16>(case, "ip6"));
        let ip4 = Ipv4Addr::from(bytes::<4>(case, "ip4"));
        let a6 = e.analyze_ip(ip6).unwrap();
        let a4 = e.analyze_ipv4(ip4).unwrap();
        json!({
            "v6.s64": a6.subnet_64.octets().to_vec(), "v6.s48": a6.subnet_48.octets().to_vec(), "v6.s32": a6.subnet_32.octets().to_vec(),
            "v6.asn_some": a6.asn.is_some(), "v6.country_some": a6.country.is_some(), "v6.hosting": a6.is_hosting_provider, "v6.vpn": a6.is_vpn_provider,
            "v4.ip": a4.ip_addr.octets().to_vec(), "v4.s24": a4.subnet_24.octets().to_vec(), "v4.s16": a4.subnet_16.octets().to_vec(),
            "v4.s8": a4.subnet_8.octets().to_vec(),
        })
    }
}

#[cfg(all(test, verif_replay))]
#[test]
fn verif_replay_entry() {
    let h = std::env::var("VERIF_REPLAY_HARNESS").unwrap_or_default();
    match h.as_str() {
        "c13_prefix_generic" => {
            vp::load_vals_from_env();
            c13_prefix_generic()
        }
        "c13_prefix_v4" => {
            vp::load_vals_from_env();
            c13_prefix_v4()
        }
        _ => {
            let case: serde_json::Value = serde_json::from_str(&std::env::var("VERIF_REPLAY_CASE").unwrap_or_default()).expect("case json");
            let obs = match h.as_str() {
                "add_remove" => driver::add_remove(&case),
                "analyze" => driver::analyze(&case),
                "misc" => driver::misc(&case),
                other => panic!("unknown driver {other}"),
            };
            println!("VERIF-OBS {}", obs);
        }
    }
}
