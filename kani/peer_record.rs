// C09 — native observation driver for engine-M counterexamples on PeerDHTRecord / SignatureCache.
// Abstract identities of the model (key, name, endpoints, signature) are mapped to concrete objects so that equal identities give
// equal objects and different identities different ones; a record "verifies" in the model only if the driver really signs it.
use super::*;

#[path = "/verif/kani/prelude.rs"]
mod vp;

#[cfg(all(test, verif_replay))]
mod driver {
    use super::*;
    use serde_json::{json, Value};
    use std::collections::HashMap as Map;

    fn u(case: &Value, k: &str) -> u64 {
        case.get(k).and_then(|v| v.as_u64()).unwrap_or(0)
    }
    fn b(case: &Value, k: &str) -> bool {
        case.get(k).and_then(|v| v.as_bool()).unwrap_or(false)
    }
    fn bytes32(case: &Value, name: &str) -> [u8; 32] {
        let mut o = [0u8; 32];
        for i in 0..32 {
            o[i] = u(case, &format!("{name}.{i}")) as u8;
        }
        o
    }
    fn endpoint(id: u64) -> PeerEndpoint {
        PeerEndpoint {
            endpoint_id: EndpointId::from_uuid(Uuid::from_u128(id as u128)),
            external_address: "192.168.1.1:8080".parse::<NetworkAddress>().unwrap(),
            nat_type: NatType::FullCone,
            coordinator_nodes: vec![format!("c{id}")],
            device_info: None,
            last_updated: 0,
        }
    }
    fn endpoint_from(case: &Value, p: &str) -> PeerEndpoint {
        let nats = [NatType::NoNat, NatType::FullCone, NatType::RestrictedCone, NatType::PortRestricted, NatType::Symmetric, NatType::Unknown];
        PeerEndpoint {
            endpoint_id: EndpointId::from_uuid(Uuid::from_u128(u(case, &format!("{p}.uuid")) as u128)),
            external_address: format!("192.168.1.1:{}", 1 + (u(case, &format!("{p}.port")) % 65535)).parse::<NetworkAddress>().unwrap(),
            nat_type: nats[(u(case, &format!("{p}.nat")) % 6) as usize],
            coordinator_nodes: (0..(u(case, &format!("{p}.clen")) as usize).min(2))
                .map(|k| {
                    let n = (u(case, &format!("{p}.coord{k}.len")) as usize).min(2);
                    (0..n).map(|j| u(case, &format!("{p}.coord{k}.b{j}")) as u8 as char).collect::<String>()
                })
                .collect(),
            device_info: if b(case, &format!("{p}.dev_some")) { Some(format!("d{}", u(case, &format!("{p}.dev")))) } else { None },
            last_updated: u(case, &format!("{p}.last_updated")),
        }
    }

    struct World {
        keys: Map<u64, (MlDsaPublicKey, MlDsaSecretKey)>,
    }
    impl World {
        fn key(&mut self, id: u64) -> &(MlDsaPublicKey, MlDsaSecretKey) {
            self.keys.entry(id).or_insert_with(|| crate::quantum_crypto::generate_ml_dsa_keypair().unwrap())
        }
    }

    fn record(case: &Value, p: &str, has_name: bool, w: &mut World) -> PeerDHTRecord {
        let pk = w.key(u(case, &format!("{p}.pk"))).0.clone();
        let elen = (u(case, &format!("{p}.elen")) as usize).min(2);
        let mut ends = Vec::new();
        for i in 0..elen {
            ends.push(endpoint_from(case, &format!("{p}.end{i}")));
        }
        // user id: the derived one when the model says so, else the model's bytes
        let model_uid = bytes32(case, &format!("{p}.user_id"));
        let model_derived = bytes32(case, "r1.derived");
        // equal abstract ids must stay equal natively: whoever carries "the id derived from r1's key" in the model gets the real derived id
        let pk1 = w.key(u(case, "r1.pk")).0.clone();
        let uid = if model_uid == model_derived { UserId::from_public_key(&pk1) } else { UserId::from_bytes(model_uid) };
        let name = if has_name {
            let len = 1usize.max(u(case, &format!("{p}.name.len")) as usize).min(255);
            let mut s = format!("{:016x}", u(case, &format!("{p}.name")));
            s.truncate(len.max(16));
            while s.len() < len {
                s.push('n');
            }
            Some(s)
        } else {
            None
        };
        PeerDHTRecord {
            version: u(case, &format!("{p}.version")) as u8,
            user_id: uid,
            public_key: pk,
            sequence_number: u(case, &format!("{p}.seq")),
            name,
            endpoints: ends,
            ttl: u(case, &format!("{p}.ttl")) as u32,
            timestamp: u(case, &format!("{p}.ts")),
            signature: MlDsaSignature(Box::new([0u8; 3309])),
        }
    }

    pub fn pair(case: &Value) -> Value {
        let names: Vec<bool> = case["__params"]["names"].as_array().unwrap().iter().map(|x| x.as_bool().unwrap()).collect();
        let mut w = World { keys: Map::new() };
        let mut r1 = record(case, "r1", names[0], &mut w);
        let mut r2 = record(case, "r2", names[1], &mut w);
        // signatures: equal abstract ids -> the same bytes; a record whose signature the model calls valid is genuinely signed
        let want1 = b(case, "__want.direct1");
        let want2 = b(case, "__want.direct2");
        let sk1 = w.key(u(case, "r1.pk")).1.clone();
        let sk2 = w.key(u(case, "r2.pk")).1.clone();
        if want1 {
            let _ = r1.sign(&sk1);
        }
        if u(case, "r2.sig") == u(case, "r1.sig") {
            r2.signature = r1.signature.clone();
        } else if want2 {
            let _ = r2.sign(&sk2);
        } else {
            let mut sb = [0u8; 3309];
            sb[0] = 1;
            r2.signature = MlDsaSignature(Box::new(sb));
        }
        let direct1 = r1.verify_signature().is_ok();
        let direct2 = r2.verify_signature().is_ok();
        let mut cache = SignatureCache::new((u(case, "cache.max_size") as usize).max(2));
        let cached1 = cache.verify_cached(&r1).is_ok();
        let cached2 = cache.verify_cached(&r2).is_ok();
        let msg_equal = match (r1.create_signable_message(), r2.create_signable_message()) {
            (Ok(a), Ok(b)) => a == b,
            _ => false,
        };
        json!({"direct1": direct1, "direct2": direct2, "cached1": cached1, "cached2": cached2, "msg_equal": msg_equal,
               "derived1": UserId::from_public_key(&r1.public_key).hash.to_vec(), "user_id1": r1.user_id.hash.to_vec()})
    }

    pub fn inputs(case: &Value) -> Value {
        let name = if b(case, "in.has_name") { Some("n".repeat(u(case, "in.name_len") as usize)) } else { None };
        let ends: Vec<PeerEndpoint> = (0..u(case, "in.endpoints")).map(endpoint).collect();
        json!({"ok": PeerDHTRecord::validate_inputs(&name, &ends, u(case, "in.ttl") as u32).is_ok()})
    }
}

#[cfg(all(test, verif_replay))]
#[test]
fn verif_replay_entry() {
    let h = std::env::var("VERIF_REPLAY_HARNESS").unwrap_or_default();
    let case: serde_json::Value = serde_json::from_str(&std::env::var("VERIF_REPLAY_CASE").unwrap_or_default()).expect("case json");
    let obs = match h.as_str() {
        "pair" => driver::pair(&case),
        "inputs" => driver::inputs(&case),
        other => panic!("unknown driver {other}"),
    };
    println!("VERIF-OBS {}", obs);
}
