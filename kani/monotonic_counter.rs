// C12 — Kani harnesses for src/monotonic_counter.rs (compiled in-crate as a child module, so private
// items are reachable).  One inductive step of validate-then-apply from an ARBITRARY counter state
// satisfying the representation invariant
//     I(L):  last_valid_sequence = L < u64::MAX - 1  and every history entry has 1 <= sequence <= L
// (L >= u64::MAX - 1 needs 2^64 - 2 accepted messages from one peer: outside the bound, stated)
// which every reachable state satisfies (empty counter: L = 0, no entries; apply keeps it).
use super::*;

#[path = "/verif/kani/prelude.rs"]
mod vp;

fn sys() -> MonotonicCounterSystem {
    MonotonicCounterSystem {
        counters: Arc::new(RwLock::new(HashMap::new())),
        storage_path: PathBuf::new(),
        sync_interval: Duration::from_secs(30),
        sync_task: None,
        stats: Arc::new(Mutex::new(CounterStats::default())),
    }
}

fn any_counter<const N: usize>(last: u64) -> PeerCounter {
    let mut hist = Vec::with_capacity(N + 2);
    let mut i = 0;
    while i < N {
        let sq: u64 = vp::any();
        vp::assume(sq >= 1 && sq <= last);
        hist.push(SequenceEntry {
            sequence: sq,
            timestamp: vp::any(),
            message_hash: vp::any(),
        });
        i += 1;
    }
    PeerCounter {
        current_sequence: last,
        last_valid_sequence: last,
        sequence_history: hist,
        last_updated: vp::any(),
        replay_attempts: vp::any(),
        sequence_gaps: vp::any(),
    }
}

fn step<const N: usize>() {
    let now: u64 = vp::any();
    vp::assume(now < (1u64 << 40));
    let (now, delta) = vp::set_now_secs(now);
    let s = sys();
    let last: u64 = vp::any();
    vp::assume(last < u64::MAX - 1);
    let mut pc = any_counter::<N>(last);
    let seq: u64 = vp::any();
    let h: [u8; 32] = vp::any();
    let ts: u64 = vp::shift_ts(vp::any(), delta);

    let r = s.validate_sequence_internal(&pc, seq, h, ts);

    let in_window = ts <= now + 60 && ts >= now.saturating_sub(3600);
    // soundness of every verdict (independent of the order in which the code tests things)
    match r {
        SequenceValidationResult::Valid => {
            vp::check(seq == last + 1, "valid_implies_next_in_order");
            vp::check(in_window, "valid_implies_timestamp_in_window");
        }
        SequenceValidationResult::Replay => {
            vp::check(seq <= last, "replay_verdict_only_for_numbers_not_above_last");
        }
        SequenceValidationResult::Gap { expected, received } => {
            vp::check(seq > last + 1, "gap_verdict_only_above_next");
            vp::check(expected == last + 1 && received == seq, "gap_fields");
        }
        SequenceValidationResult::TooOld => {
            vp::check(ts < now.saturating_sub(3600), "too_old_only_before_window");
        }
        SequenceValidationResult::FromFuture => {
            vp::check(ts > now + 60, "from_future_only_after_window");
        }
    }
    // completeness: the next number inside the window is accepted
    if seq == last + 1 && in_window {
        vp::check(r == SequenceValidationResult::Valid, "next_in_window_is_accepted");
    }
    vp::cover(r == SequenceValidationResult::Valid, "reach_valid");
    vp::cover(r == SequenceValidationResult::Replay, "reach_replay");
    vp::cover(matches!(r, SequenceValidationResult::Gap { .. }), "reach_gap");
    vp::cover(r == SequenceValidationResult::TooOld, "reach_too_old");
    vp::cover(r == SequenceValidationResult::FromFuture, "reach_from_future");

    if r == SequenceValidationResult::Valid {
        pc.apply_sequence_update(seq, h, ts);
        vp::check(pc.last_valid_sequence == last + 1, "apply_advances_by_one");
        vp::check(pc.sequence_history.len() == N + 1, "apply_appends_one_entry");
        let mut i = 0;
        while i < N + 1 {
            let e = &pc.sequence_history[i];
            vp::check(e.sequence >= 1 && e.sequence <= pc.last_valid_sequence, "invariant_preserved");
            i += 1;
        }
        // the accepted number is never accepted again, whatever hash / timestamp comes with it
        let h2: [u8; 32] = vp::any();
        let ts2: u64 = vp::shift_ts(vp::any(), delta);
        let r2 = s.validate_sequence_internal(&pc, seq, h2, ts2);
        vp::check(r2 != SequenceValidationResult::Valid, "accepted_number_not_accepted_twice");
        // ... and neither is any number at or below it
        let seq3: u64 = vp::any();
        vp::assume(seq3 <= seq);
        let r3 = s.validate_sequence_internal(&pc, seq3, h2, ts2);
        vp::check(r3 != SequenceValidationResult::Valid, "no_number_at_or_below_last_accepted");
    }
    std::mem::forget(pc);
    std::mem::forget(s);
}

macro_rules! step_harness {
    ($name:ident, $n:expr, $unw:expr) => {
        #[cfg_attr(kani, kani::proof)]
        #[cfg_attr(kani, kani::unwind($unw))]
        #[cfg_attr(kani, kani::stub(super::current_timestamp, vp::stub_ts))]
        #[cfg_attr(kani, kani::stub(std::collections::hash_map::RandomState::new, vp::zero_random_state))]
        pub fn $name() {
            step::<$n>();
        }
    };
}
step_harness!(c12_step_h0, 0, 40);
step_harness!(c12_step_h1, 1, 40);
step_harness!(c12_step_h2, 2, 40);
step_harness!(c12_step_h3, 3, 40);
step_harness!(c12_step_h5, 5, 40);
step_harness!(c12_step_h8, 8, 40);

// fresh counter (what `or_insert_with(PeerCounter::new)` creates) satisfies I(0) and accepts exactly 1
#[cfg_attr(kani, kani::proof)]
#[cfg_attr(kani, kani::unwind(40))]
#[cfg_attr(kani, kani::stub(super::current_timestamp, vp::stub_ts))]
#[cfg_attr(kani, kani::stub(std::collections::hash_map::RandomState::new, vp::zero_random_state))]
pub fn c12_fresh_counter() {
    let now: u64 = vp::any();
    vp::assume(now < (1u64 << 40));
    let (now, delta) = vp::set_now_secs(now);
    let s = sys();
    let pc = PeerCounter::new();
    vp::check(pc.last_valid_sequence == 0 && pc.sequence_history.is_empty(), "fresh_counter_is_I0");
    let seq: u64 = vp::any();
    let h: [u8; 32] = vp::any();
    let ts: u64 = vp::shift_ts(vp::any(), delta);
    let r = s.validate_sequence_internal(&pc, seq, h, ts);
    if r == SequenceValidationResult::Valid {
        vp::check(seq == 1, "first_accepted_number_is_one");
    }
    if seq == 1 && ts <= now + 60 && ts >= now.saturating_sub(3600) {
        vp::check(r == SequenceValidationResult::Valid, "one_is_accepted_first");
    }
    vp::cover(r == SequenceValidationResult::Valid, "reach_valid");
    std::mem::forget(pc);
    std::mem::forget(s);
}

#[cfg(all(test, verif_replay))]
#[test]
fn verif_replay_entry() {
    let hn = std::env::var("VERIF_REPLAY_HARNESS").unwrap_or_default();
    if hn == "validate_sequence" || hn == "cleanup" || hn == "batch" || hn == "persist" || hn == "race_submit" {
        let case: serde_json::Value = serde_json::from_str(&std::env::var("VERIF_REPLAY_CASE").unwrap_or_default()).expect("case json");
        let obs = if hn == "race_submit" { driver::race_submit(&case) } else if hn == "persist" { driver::persist(&case) } else if hn == "cleanup" { driver::cleanup(&case) } else if hn == "batch" { driver::batch(&case) } else { driver::validate_sequence(&case) };
        println!("VERIF-OBS {}", obs);
        return;
    }
    vp::load_vals_from_env();
    match std::env::var("VERIF_REPLAY_HARNESS").unwrap_or_default().as_str() {
        "c12_step_h0" => c12_step_h0(),
        "c12_step_h1" => c12_step_h1(),
        "c12_step_h2" => c12_step_h2(),
        "c12_step_h3" => c12_step_h3(),
        "c12_step_h5" => c12_step_h5(),
        "c12_step_h8" => c12_step_h8(),
        "c12_fresh_counter" => c12_fresh_counter(),
        other => panic!("unknown harness {other}"),
    }
}

// ---------------------------------------------------------------- native observation driver for the async entry points (engine M replays)
#[cfg(all(test, verif_replay))]
mod driver {
    use super::*;
    use serde_json::{json, Map, Value};

    fn u(case: &Value, k: &str) -> u64 {
        case.get(k).and_then(|v| v.as_u64()).unwrap_or(0)
    }
    fn b(case: &Value, k: &str) -> bool {
        case.get(k).and_then(|v| v.as_bool()).unwrap_or(false)
    }
    fn bytes32(case: &Value, name: &str) -> [u8; 32] {
        let mut o = [0u8; 32];
        for i in 0..32 {
            o[i] = u(case, &format!("{name}.{i}")) as u8;
        }
        o
    }
    const HCAP: usize = 2;

    /// stored counter from the pinned leaves of a probed map slot (flatten order of checks/c12_async.py::counter_template)
    fn slot_counter(case: &Value, name: &str) -> Option<PeerCounter> {
        if !b(case, &format!("{name}.present")) {
            return None;
        }
        let v = |i: usize| u(case, &format!("{name}.v{i}"));
        let hlen = (v(2) as usize).min(HCAP);
        let mut hist = Vec::new();
        for e in 0..hlen {
            let base = 3 + e * 34;
            let mut h = [0u8; 32];
            for k in 0..32 {
                h[k] = v(base + 2 + k) as u8;
            }
            hist.push(SequenceEntry { sequence: v(base), timestamp: v(base + 1), message_hash: h });
        }
        let tail = 3 + HCAP * 34;
        Some(PeerCounter { current_sequence: v(0), last_valid_sequence: v(1), sequence_history: hist, last_updated: v(tail), replay_attempts: v(tail + 1), sequence_gaps: v(tail + 2) })
    }
    fn obs_counter(c: Option<&PeerCounter>) -> Value {
        match c {
            None => Value::Null,
            Some(c) => json!({"current": c.current_sequence, "last": c.last_valid_sequence, "updated": c.last_updated, "replay": c.replay_attempts, "gaps": c.sequence_gaps,
                              "history": c.sequence_history.iter().map(|e| json!([e.sequence, e.timestamp, e.message_hash.to_vec()])).collect::<Vec<_>>()}),
        }
    }

    pub fn batch(case: &Value) -> Value {
        let same = case["__params"]["same_user"].as_bool().unwrap_or(true);
        let users = [("other", UserId { hash: bytes32(case, "o") }), ("cand", UserId { hash: bytes32(case, "u") })];
        let mut map = HashMap::new();
        for (label, uid) in &users {
            if let Some(c) = slot_counter(case, &format!("M@{label}")) {
                map.insert(uid.clone(), c);
            }
        }
        let sys = MonotonicCounterSystem {
            counters: Arc::new(RwLock::new(map)), storage_path: PathBuf::new(), sync_interval: Duration::from_secs(30), sync_task: None,
            stats: Arc::new(Mutex::new(CounterStats::default())),
        };
        let mk = |i: usize, uid: &UserId| BatchUpdateRequest { user_id: uid.clone(), sequence: u(case, &format!("q{i}.seq")), message_hash: bytes32(case, &format!("q{i}.hash")), timestamp: u(case, &format!("q{i}.ts")) };
        let reqs = vec![mk(0, &users[1].1), mk(1, if same { &users[1].1 } else { &users[0].1 })];
        let rt = tokio::runtime::Builder::new_current_thread().build().unwrap();
        vp::clock::reset();
        vp::clock::push_real(u(case, "now.s"), 0);
        vp::clock::arm(true);
        let r = rt.block_on(sys.batch_update(reqs));
        vp::clock::arm(false);
        vp::clock::reset();
        let mut out = Map::new();
        out.insert("ok".into(), json!(r.is_ok()));
        let rs = r.unwrap_or_default();
        out.insert("applied".into(), json!(rs.iter().map(|x| x.applied).collect::<Vec<_>>()));
        out.insert("results".into(), json!(rs.iter().map(|x| match x.result { SequenceValidationResult::Valid => "Valid", SequenceValidationResult::Replay => "Replay",
            SequenceValidationResult::TooOld => "TooOld", SequenceValidationResult::Gap { .. } => "Gap", SequenceValidationResult::FromFuture => "FromFuture" }).collect::<Vec<_>>()));
        let m = sys.counters.read().unwrap();
        for (label, uid) in &users {
            out.insert(format!("post@{label}"), obs_counter(m.get(uid)));
        }
        Value::Object(out)
    }

    /// sync_counters to a real file in a fresh temp dir, then a restart through the public constructor
    pub fn persist(case: &Value) -> Value {
        let users = [("other", UserId { hash: bytes32(case, "o") }), ("cand", UserId { hash: bytes32(case, "u") })];
        let mut map = HashMap::new();
        for (label, uid) in &users {
            if let Some(c) = slot_counter(case, &format!("M@{label}")) {
                map.insert(uid.clone(), c);
            }
        }
        let dir = std::env::temp_dir().join(format!("verif-c12-persist-{}", std::process::id()));
        let _ = std::fs::remove_dir_all(&dir);
        let path = dir.join("counters.db");
        // an unwritable location models the environment's write failure
        let target = if b(case, "env.write_ok") { std::fs::create_dir_all(&dir).unwrap(); path.clone() } else { dir.join("missing-subdir").join("counters.db") };
        let counters = Arc::new(RwLock::new(map));
        let stats = Arc::new(Mutex::new(CounterStats::default()));
        let rt = tokio::runtime::Builder::new_current_thread().enable_all().build().unwrap();
        let history = case["__params"]["history"].as_bool().unwrap_or(false);
        let mut sync_ok = if history { true } else { rt.block_on(MonotonicCounterSystem::sync_counters(&counters, &target, &stats)).is_ok() };
        if history {
            // sync; one more submission; sync again -- every wall-clock reading pinned to the model's second
            let sys = MonotonicCounterSystem { counters: counters.clone(), storage_path: target.clone(), sync_interval: Duration::from_secs(30), sync_task: None, stats: stats.clone() };
            vp::clock::reset();
            vp::clock::push_real(u(case, "now.s"), 0);
            vp::clock::arm(true);
            sync_ok = rt.block_on(MonotonicCounterSystem::sync_counters(&counters, &target, &stats)).is_ok();
            let v = rt.block_on(sys.validate_sequence(&UserId { hash: bytes32(case, "u") }, u(case, "seq"), bytes32(case, "hash")));
            let s2 = rt.block_on(MonotonicCounterSystem::sync_counters(&counters, &target, &stats)).is_ok();
            vp::clock::arm(false);
            vp::clock::reset();
            sync_ok = sync_ok && v.is_ok() && s2;
        }
        let mut out = Map::new();
        out.insert("sync_ok".into(), json!(sync_ok));
        {
            let m = counters.read().unwrap();
            for (label, uid) in &users {
                out.insert(format!("mid@{label}"), obs_counter(m.get(uid)));
            }
        }
        match rt.block_on(MonotonicCounterSystem::new(target.clone())) {
            Ok(sys2) => {
                out.insert("load_ok".into(), json!(true));
                let m = sys2.counters.read().unwrap();
                for (label, uid) in &users {
                    out.insert(format!("post@{label}"), obs_counter(m.get(uid)));
                }
            }
            Err(_) => {
                out.insert("load_ok".into(), json!(false));
                for (label, _) in &users {
                    out.insert(format!("post@{label}"), Value::Null);
                }
            }
        }
        let _ = std::fs::remove_dir_all(&dir);
        Value::Object(out)
    }
    /// stress confirmation for the atomicity obligations: eight tasks submit the same (peer, number) at once, number after number; more than one acceptance is a race
    pub fn race_submit(case: &Value) -> Value {
        let batch = case["__driver"].as_str() == Some("batch") || case["__params"].get("same_user").is_some();
        let rt = tokio::runtime::Builder::new_multi_thread().worker_threads(8).enable_all().build().unwrap();
        rt.block_on(async {
            let sys = Arc::new(MonotonicCounterSystem {
                counters: Arc::new(RwLock::new(HashMap::new())), storage_path: PathBuf::new(), sync_interval: Duration::from_secs(30), sync_task: None,
                stats: Arc::new(Mutex::new(CounterStats::default())),
            });
            let uid = UserId { hash: [7u8; 32] };
            let mut worst = 0usize;
            let mut rounds_with_race = 0usize;
            for n in 1..=3000u64 {
                let barrier = Arc::new(tokio::sync::Barrier::new(8));
                let mut hs = Vec::new();
                for t in 0..8u8 {
                    let (sys, uid, b) = (sys.clone(), uid.clone(), barrier.clone());
                    hs.push(tokio::spawn(async move {
                        b.wait().await;
                        if batch {
                            let ts = std::time::SystemTime::now().duration_since(std::time::UNIX_EPOCH).map(|d| d.as_secs()).unwrap_or(0);
                            match sys.batch_update(vec![BatchUpdateRequest { user_id: uid, sequence: n, message_hash: [t; 32], timestamp: ts }]).await {
                                Ok(r) => r.iter().filter(|x| x.applied).count(),
                                Err(_) => 0,
                            }
                        } else {
                            matches!(sys.validate_sequence(&uid, n, [t; 32]).await, Ok(SequenceValidationResult::Valid)) as usize
                        }
                    }));
                }
                let mut acc = 0usize;
                for h in hs {
                    acc += h.await.unwrap_or(0);
                }
                if acc > 1 {
                    rounds_with_race += 1;
                    worst = worst.max(acc);
                }
            }
            json!({"race_observed": worst > 1, "detail": format!("{rounds_with_race} of 3000 numbers were accepted more than once (worst: {worst} times)")})
        })
    }
    pub fn cleanup(case: &Value) -> Value {
        let users = [("other", UserId { hash: bytes32(case, "o") }), ("cand", UserId { hash: bytes32(case, "u") })];
        let mut map = HashMap::new();
        for (label, uid) in &users {
            if let Some(c) = slot_counter(case, &format!("M@{label}")) {
                map.insert(uid.clone(), c);
            }
        }
        let sys = MonotonicCounterSystem {
            counters: Arc::new(RwLock::new(map)), storage_path: PathBuf::new(), sync_interval: Duration::from_secs(30), sync_task: None,
            stats: Arc::new(Mutex::new(CounterStats::default())),
        };
        let rt = tokio::runtime::Builder::new_current_thread().build().unwrap();
        vp::clock::reset();
        vp::clock::push_real(u(case, "now.s"), 0);
        vp::clock::arm(true);
        let r = rt.block_on(sys.cleanup_old_sequences());
        vp::clock::arm(false);
        vp::clock::reset();
        let mut out = Map::new();
        out.insert("ok".into(), json!(r.is_ok()));
        let m = sys.counters.read().unwrap();
        for (label, uid) in &users {
            out.insert(format!("post@{label}"), obs_counter(m.get(uid)));
        }
        Value::Object(out)
    }

    pub fn validate_sequence(case: &Value) -> Value {
        let users = [("other", UserId { hash: bytes32(case, "o") }), ("cand", UserId { hash: bytes32(case, "u") })];
        let mut map = HashMap::new();
        for (label, uid) in &users {
            if let Some(c) = slot_counter(case, &format!("M@{label}")) {
                map.insert(uid.clone(), c);
            }
        }
        let stats = CounterStats {
            total_processed: u(case, "stats.total_processed"), total_replays: u(case, "stats.total_replays"), total_gaps: u(case, "stats.total_gaps"),
            peers_tracked: u(case, "stats.peers_tracked") as usize, persistence_ops: u(case, "stats.persistence_ops"),
            avg_validation_time_us: u(case, "stats.avg_validation_time_us"), cache_hits: u(case, "stats.cache_hits"), cache_misses: u(case, "stats.cache_misses"),
            ..Default::default()
        };
        let sys = MonotonicCounterSystem {
            counters: Arc::new(RwLock::new(map)), storage_path: PathBuf::new(), sync_interval: Duration::from_secs(30), sync_task: None, stats: Arc::new(Mutex::new(stats)),
        };
        let rt = tokio::runtime::Builder::new_current_thread().build().unwrap();
        vp::clock::reset();
        vp::clock::push_real(u(case, "now.s"), 0);
        vp::clock::arm(true);
        let r = rt.block_on(sys.validate_sequence(&users[1].1, u(case, "seq"), bytes32(case, "hash")));
        vp::clock::arm(false);
        vp::clock::reset();
        let mut out = Map::new();
        out.insert("ok".into(), json!(r.is_ok()));
        out.insert("result".into(), match &r {
            Ok(SequenceValidationResult::Valid) => json!("Valid"),
            Ok(SequenceValidationResult::Replay) => json!("Replay"),
            Ok(SequenceValidationResult::TooOld) => json!("TooOld"),
            Ok(SequenceValidationResult::Gap { .. }) => json!("Gap"),
            Ok(SequenceValidationResult::FromFuture) => json!("FromFuture"),
            Err(_) => Value::Null,
        });
        let m = sys.counters.read().unwrap();
        for (label, uid) in &users {
            out.insert(format!("post@{label}"), obs_counter(m.get(uid)));
        }
        Value::Object(out)
    }
}
