// C12 — Kani harnesses for src/monotonic_counter.rs (compiled in-crate as a child module, so private
// items are reachable).  One inductive step of validate-then-apply from an ARBITRARY counter state
// satisfying the representation invariant
//     I(L):  last_valid_sequence = L < u64::MAX - 1  and every history entry has 1 <= sequence <= L
// (L >= u64::MAX - 1 needs 2^64 - 2 accepted messages from one peer: outside the bound, stated)
// which every reachable state satisfies (empty counter: L = 0, no entries; apply keeps it).
use super::*;

#[path = "/verif/kani/prelude.rs"]
mod vp;

fn sys() -> MonotonicCounterSystem {
    MonotonicCounterSystem {
        counters: Arc::new(RwLock::new(HashMap::new())),
        storage_path: PathBuf::new(),
        sync_interval: Duration::from_secs(30),
        sync_task: None,
        stats: Arc::new(Mutex::new(CounterStats::default())),
    }
}

fn any_counter<const N: usize>(last: u64) -> PeerCounter {
    let mut hist = Vec::with_capacity(N + 2);
    let mut i = 0;
    while i < N {
        let sq: u64 = vp::any();
        vp::assume(sq >= 1 && sq <= last);
        hist.push(SequenceEntry {
            sequence: sq,
            timestamp: vp::any(),
            message_hash: vp::any(),
        });
        i += 1;
    }
    PeerCounter {
        current_sequence: last,
        last_valid_sequence: last,
        sequence_history: hist,
        last_updated: vp::any(),
        replay_attempts: vp::any(),
        sequence_gaps: vp::any(),
    }
}

fn step<const N: usize>() {
    let now: u64 = vp::any();
    vp::assume(now < (1u64 << 40));
    let (now, delta) = vp::set_now_secs(now);
    let s = sys();
    let last: u64 = vp::any();
    vp::assume(last < u64::MAX - 1);
    let mut pc = any_counter::<N>(last);
    let seq: u64 = vp::any();
    let h: [u8; 32] = vp::any();
    let ts: u64 = vp::shift_ts(vp::any(), delta);

    let r = s.validate_sequence_internal(&pc, seq, h, ts);

    let in_window = ts <= now + 60 && ts >= now.saturating_sub(3600);
    // soundness of every verdict (independent of the order in which the code tests things)
    match r {
        SequenceValidationResult::Valid => {
            vp::check(seq == last + 1, "valid_implies_next_in_order");
            vp::check(in_window, "valid_implies_timestamp_in_window");
        }
        SequenceValidationResult::Replay => {
            vp::check(seq <= last, "replay_verdict_only_for_numbers_not_above_last");
        }
        SequenceValidationResult::Gap { expected, received } => {
            vp::check(seq > last + 1, "gap_verdict_only_above_next");
            vp::check(expected == last + 1 && received == seq, "gap_fields");
        }
        SequenceValidationResult::TooOld => {
            vp::check(ts < now.saturating_sub(3600), "too_old_only_before_window");
        }
        SequenceValidationResult::FromFuture => {
            vp::check(ts > now + 60, "from_future_only_after_window");
        }
    }
    // completeness: the next number inside the window is accepted
    if seq == last + 1 && in_window {
        vp::check(r == SequenceValidationResult::Valid, "next_in_window_is_accepted");
    }
    vp::cover(r == SequenceValidationResult::Valid, "reach_valid");
    vp::cover(r == SequenceValidationResult::Replay, "reach_replay");
    vp::cover(matches!(r, SequenceValidationResult::Gap { .. }), "reach_gap");
    vp::cover(r == SequenceValidationResult::TooOld, "reach_too_old");
    vp::cover(r == SequenceValidationResult::FromFuture, "reach_from_future");

    if r == SequenceValidationResult::Valid {
        pc.apply_sequence_update(seq, h, ts);
        vp::check(pc.last_valid_sequence == last + 1, "apply_advances_by_one");
        vp::check(pc.sequence_history.len() == N + 1, "apply_appends_one_entry");
        let mut i = 0;
        while i < N + 1 {
            let e = &pc.sequence_history[i];
            vp::check(e.sequence >= 1 && e.sequence <= pc.last_valid_sequence, "invariant_preserved");
            i += 1;
        }
        // the accepted number is never accepted again, whatever hash / timestamp comes with it
        let h2: [u8; 32] = vp::any();
        let ts2: u64 = vp::shift_ts(vp::any(), delta);
        let r2 = s.validate_sequence_internal(&pc, seq, h2, ts2);
        vp::check(r2 != SequenceValidationResult::Valid, "accepted_number_not_accepted_twice");
        // ... and neither is any number at or below it
        let seq3: u64 = vp::any();
        vp::assume(seq3 <= seq);
        let r3 = s.validate_sequence_internal(&pc, seq3, h2, ts2);
        vp::check(r3 != SequenceValidationResult::Valid, "no_number_at_or_below_last_accepted");
    }
    std::mem::forget(pc);
    std::mem::forget(s);
}

macro_rules! step_harness {
    ($name:ident, $n:expr, $unw:expr) => {
        #[cfg_attr(kani, kani::proof)]
        #[cfg_attr(kani, kani::unwind($unw))]
        #[cfg_attr(kani, kani::stub(super::current_timestamp, vp::stub_ts))]
        #[cfg_attr(kani, kani::stub(std::collections::hash_map::RandomState::new, vp::zero_random_state))]
        pub fn $name() {
            step::<$n>();
        }
    };
}
step_harness!(c12_step_h0, 0, 40);
step_harness!(c12_step_h1, 1, 40);
step_harness!(c12_step_h2, 2, 40);
step_harness!(c12_step_h3, 3, 40);
step_harness!(c12_step_h5, 5, 40);
step_harness!(c12_step_h8, 8, 40);

// fresh counter (what `or_insert_with(PeerCounter::new)` creates) satisfies I(0) and accepts exactly 1
#[cfg_attr(kani, kani::proof)]
#[cfg_attr(kani, kani::unwind(40))]
#[cfg_attr(kani, kani::stub(super::current_timestamp, vp::stub_ts))]
#[cfg_attr(kani, kani::stub(std::collections::hash_map::RandomState::new, vp::zero_random_state))]
pub fn c12_fresh_counter() {
    let now: u64 = vp::any();
    vp::assume(now < (1u64 << 40));
    let (now, delta) = vp::set_now_secs(now);
    let s = sys();
    let pc = PeerCounter::new();
    vp::check(pc.last_valid_sequence == 0 && pc.sequence_history.is_empty(), "fresh_counter_is_I0");
    let seq: u64 = vp::any();
    let h: [u8; 32] = vp::any();
    let ts: u64 = vp::shift_ts(vp::any(), delta);
    let r = s.validate_sequence_internal(&pc, seq, h, ts);
    if r == SequenceValidationResult::Valid {
        vp::check(seq == 1, "first_accepted_number_is_one");
    }
    if seq == 1 && ts <= now + 60 && ts >= now.saturating_sub(3600) {
        vp::check(r == SequenceValidationResult::Valid, "one_is_accepted_first");
    }
    vp::cover(r == SequenceValidationResult::Valid, "reach_valid");
    std::mem::forget(pc);
    std::mem::forget(s);
}

#[cfg(all(test, verif_replay))]
#[test]
fn verif_replay_entry() {
    vp::load_vals_from_env();
    match std::env::var("VERIF_REPLAY_HARNESS").unwrap_or_default().as_str() {
        "c12_step_h0" => c12_step_h0(),
        "c12_step_h1" => c12_step_h1(),
        "c12_step_h2" => c12_step_h2(),
        "c12_step_h3" => c12_step_h3(),
        "c12_step_h5" => c12_step_h5(),
        "c12_step_h8" => c12_step_h8(),
        "c12_fresh_counter" => c12_fresh_counter(),
        other => panic!("unknown harness {other}"),
    }
}
