// C05 — native observation driver for parse_protocol_message.
use super::*;

#[path = "/verif/kani/prelude.rs"]
mod vp;

#[cfg(all(test, verif_replay))]
mod driver {
    use super::*;
    use serde_json::{json, Value};

    fn u(case: &Value, k: &str) -> u64 {
        case.get(k).and_then(|v| v.as_u64()).unwrap_or(0)
    }
    fn b(case: &Value, k: &str) -> bool {
        case.get(k).and_then(|v| v.as_bool()).unwrap_or(false)
    }

    pub fn parse_frame(case: &Value) -> Value {
        // abstract string id -> concrete string of the requested length (>= 17) that embeds the id
        fn mk(id: u64, len: u64) -> String {
            let mut s = format!("{:016x}", id);
            while (s.len() as u64) < len {
                s.push('x');
            }
            s
        }
        let protocol = mk(u(case, "msg.protocol"), u(case, "msg.protocol.len"));
        let data = format!("data-{:016x}", u(case, "msg.data")).into_bytes();
        fn short(case: &Value, name: &str) -> String {
            let n = (u(case, &format!("{name}.len")) as usize).min(4);
            (0..n).map(|i| (u(case, &format!("{name}.b{i}")) as u8) as char).collect()
        }
        let from = short(case, "msg.from");
        let source = short(case, "conn.source");
        let bytes = if b(case, "decode.ok") {
            let m = WireMessage { protocol: protocol.clone(), data: data.clone(), from: from.clone(), timestamp: u(case, "msg.timestamp") };
            postcard::to_stdvec(&m).unwrap()
        } else {
            vec![0xff, 0xff, 0xff, 0xff, 0xff, 0xff, 0xff, 0xff, 0xff, 0xff, 0xff, 0x7f]
        };
        vp::clock::reset();
        vp::clock::push_real(u(case, "now.s"), 0);
        vp::clock::arm(true);
        let r = parse_protocol_message(&bytes, &source);
        vp::clock::arm(false);
        vp::clock::reset();
        match r {
            Some(P2PEvent::Message { topic, source: s, data: d }) => json!({
                "some": true, "topic_same": topic == protocol, "source_is_connection": s == source, "source_is_payload_from": s == from, "data_same": d == data,
                "shim": vp::clock::available()}),
            Some(_) => json!({"some": true, "topic_same": false, "source_is_connection": false, "source_is_payload_from": false, "data_same": false}),
            None => json!({"some": false, "shim": vp::clock::available()}),
        }
    }
}

#[cfg(all(test, verif_replay))]
#[test]
fn verif_replay_entry() {
    let case: serde_json::Value = serde_json::from_str(&std::env::var("VERIF_REPLAY_CASE").unwrap_or_default()).expect("case json");
    println!("VERIF-OBS {}", driver::parse_frame(&case));
}
