// C13 — src/bootstrap/manager.rs: native observation driver for BootstrapManager::add_peer (bootstrap-cache admission).
use super::*;

#[cfg(all(test, verif_replay))]
mod driver {
    use super::*;
    use serde_json::{json, Map, Value};

    fn u(case: &Value, k: &str) -> u64 {
        case.get(k).and_then(|v| v.as_u64()).unwrap_or(0)
    }

    pub fn add_peer(case: &Value) -> Value {
        use crate::security::verif_kani_security::driver as sec;
        let rt = tokio::runtime::Builder::new_current_thread().enable_all().build().unwrap();
        rt.block_on(async {
            let tmp = tempfile::TempDir::new().unwrap();
            let cfg = BootstrapConfig {
                cache_dir: tmp.path().to_path_buf(),
                max_peers: 100,
                epsilon: 0.0,
                rate_limit: JoinRateLimiterConfig::default(),
                diversity: IPDiversityConfig::default(),
            };
            let mgr = BootstrapManager::with_config(cfg).await.unwrap();
            *mgr.diversity_enforcer.lock() = sec::build(case);
            let mut ip6 = [0u8; 16];
            for i in 0..16 {
                ip6[i] = u(case, &format!("x.ip6.{i}")) as u8;
            }
            let mut ip4 = [0u8; 4];
            for i in 0..4 {
                ip4[i] = u(case, &format!("x.ip4.{i}")) as u8;
            }
            let ip: IpAddr = if case["__params"]["x_v6"].as_bool().unwrap_or(true) { IpAddr::V6(Ipv6Addr::from(ip6)) } else { IpAddr::V4(std::net::Ipv4Addr::from(ip4)) };
            if !case.get("rate_limiter_ok").and_then(|v| v.as_bool()).unwrap_or(false) {
                // the modelled verdict is a refusal: exhaust this address's join budget first
                for _ in 0..100_000 {
                    if mgr.rate_limiter.check_join_allowed(&ip).is_err() {
                        break;
                    }
                }
            }
            let n = case["__params"]["naddr"].as_u64().unwrap_or(1) as usize;
            let addrs = vec![SocketAddr::new(ip, u(case, "x.port") as u16); n];
            let ok = mgr.add_peer("verif-peer".to_string(), addrs).await.is_ok();
            let mut out = Map::new();
            out.insert("ok".into(), json!(ok));
            sec::observe(&*mgr.diversity_enforcer.lock(), case, "post", &mut out);
            Value::Object(out)
        })
    }
}

#[cfg(all(test, verif_replay))]
#[test]
fn verif_replay_entry() {
    let h = std::env::var("VERIF_REPLAY_HARNESS").unwrap_or_default();
    let case: serde_json::Value = serde_json::from_str(&std::env::var("VERIF_REPLAY_CASE").unwrap_or_default()).expect("case json");
    let obs = match h.as_str() {
        "add_peer" => driver::add_peer(&case),
        other => panic!("unknown driver {other}"),
    };
    println!("VERIF-OBS {}", obs);
}
