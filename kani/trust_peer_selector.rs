// C16 — native observation driver for engine-M counterexamples on TrustAwarePeerSelector.
use super::*;

#[path = "/verif/kani/prelude.rs"]
mod vp;

#[cfg(all(test, verif_replay))]
mod driver {
    use super::*;
    use serde_json::{json, Value};
    use std::collections::HashMap;

    fn u(case: &Value, k: &str) -> u64 {
        case.get(k).and_then(|v| v.as_u64()).unwrap_or(0)
    }
    fn b(case: &Value, k: &str) -> bool {
        case.get(k).and_then(|v| v.as_bool()).unwrap_or(false)
    }
    fn bytes32(case: &Value, name: &str) -> [u8; 32] {
        let mut o = [0u8; 32];
        for i in 0..32 {
            o[i] = u(case, &format!("{name}.{i}")) as u8;
        }
        o
    }

    struct TableTrust(HashMap<[u8; 32], f64>);
    impl TrustProvider for TableTrust {
        fn get_trust(&self, node: &AdaptiveNodeId) -> f64 {
            *self.0.get(&node.hash).unwrap_or(&0.0)
        }
        fn update_trust(&self, _from: &AdaptiveNodeId, _to: &AdaptiveNodeId, _success: bool) {}
        fn get_global_trust(&self) -> HashMap<AdaptiveNodeId, f64> {
            HashMap::new()
        }
        fn remove_node(&self, _node: &AdaptiveNodeId) {}
    }

    pub fn selector_new(case: &Value) -> Value {
        let cfg = TrustSelectionConfig {
            trust_weight: f64::from_bits(u(case, "cfg.trust_weight")),
            min_trust_threshold: f64::from_bits(u(case, "cfg.min_trust_threshold")),
            exclude_untrusted: b(case, "cfg.exclude_untrusted"),
        };
        let sel = TrustAwarePeerSelector::new(Arc::new(TableTrust(HashMap::new())), cfg);
        json!({"q_w": sel.config.trust_weight.to_bits(), "q_thr": sel.config.min_trust_threshold.to_bits(), "q_excl": sel.config.exclude_untrusted,
               "s_w": sel.storage_config.trust_weight.to_bits(), "s_thr": sel.storage_config.min_trust_threshold.to_bits(), "s_excl": sel.storage_config.exclude_untrusted})
    }

    pub fn select(case: &Value) -> Value {
        let m = case["__params"]["m"].as_u64().unwrap_or(1) as usize;
        let storage = case["__params"]["storage"].as_bool().unwrap_or(true);
        let mut table = HashMap::new();
        let mut cands = Vec::new();
        for i in 0..m {
            let id = bytes32(case, &format!("c{i}.id"));
            table.insert(id, f64::from_bits(u(case, &format!("c{i}.trust"))));
            cands.push(NodeInfo {
                id: NodeId::from_bytes(id),
                address: format!("addr{i}"),
                last_seen: std::time::SystemTime::UNIX_EPOCH,
                capacity: crate::dht::core_engine::NodeCapacity { storage_available: i as u64, bandwidth_available: 0, reliability_score: 1.0 },
            });
        }
        let cfg = TrustSelectionConfig {
            trust_weight: f64::from_bits(u(case, "cfg.trust_weight")),
            min_trust_threshold: f64::from_bits(u(case, "cfg.min_trust_threshold")),
            exclude_untrusted: b(case, "cfg.exclude_untrusted"),
        };
        let other = TrustSelectionConfig { trust_weight: 0.3, min_trust_threshold: 0.1, exclude_untrusted: false };
        let provider = Arc::new(TableTrust(table));
        let sel = if storage {
            TrustAwarePeerSelector::with_storage_config(provider, other, cfg)
        } else {
            TrustAwarePeerSelector::with_storage_config(provider, cfg, other)
        };
        let key = DhtKey::from_bytes(bytes32(case, "key"));
        let count = u(case, "count") as usize;
        let res = if storage { sel.select_storage_peers(&key, &cands, count) } else { sel.select_peers(&key, &cands, count) };
        let out: Vec<Value> = res.iter().map(|n| json!({"id": n.id.as_bytes().to_vec(), "tag": n.capacity.storage_available})).collect();
        json!({"result": out})
    }
}

#[cfg(all(test, verif_replay))]
#[test]
fn verif_replay_entry() {
    let case: serde_json::Value = serde_json::from_str(&std::env::var("VERIF_REPLAY_CASE").unwrap_or_default()).expect("case json");
    if std::env::var("VERIF_REPLAY_HARNESS").unwrap_or_default() == "selector_new" {
        println!("VERIF-OBS {}", driver::selector_new(&case));
        return;
    }
    println!("VERIF-OBS {}", driver::select(&case));
}
