// C05 -- src/placement/dht_records.rs: native observation driver for the 512-byte record limit (DhtRecord::deserialize / serialize).
use super::*;

#[cfg(all(test, verif_replay))]
mod driver {
    use super::*;
    use serde_json::{json, Value};

    fn un(case: &Value, k: &str) -> u64 {
        match case.get(k) {
            Some(Value::Bool(b)) => *b as u64,
            Some(v) => v.as_u64().unwrap_or(0),
            None => 0,
        }
    }

    fn sample() -> DhtRecord {
        use std::net::{Ipv4Addr, SocketAddr, SocketAddrV4};
        let node_id = NodeId::from_bytes([1u8; 32]);
        let addr = SocketAddr::V4(SocketAddrV4::new(Ipv4Addr::new(127, 0, 0, 1), 8080));
        let caps = NodeCapabilities::new(1000, 500, 50).expect("caps");
        let node_ad = NodeAd::new(node_id, vec![addr], caps, NatType::None, 12345, OsSignature::current(), [1u8; 16], [2u8; 16]).expect("node ad");
        let key = blake3::hash(b"verif key");
        DhtRecord::new(key.into(), DhtRecordData::NodeAd(node_ad), None)
    }

    /// `data.len` input bytes: a genuine serialised record, padded with zero bytes (or cut) to exactly that length
    pub fn record_decode(case: &Value) -> Value {
        let want = (un(case, "data.len") as usize).min(1 << 22);
        let mut bytes = sample().serialize().expect("sample serialises");
        bytes.resize(want, 0u8);
        let r = DhtRecord::deserialize(&bytes);
        let too_large = matches!(r, Err(P2PError::RecordTooLarge(_)));
        json!({"is_err": r.is_err(), "refused_before_decode": too_large})
    }
}

#[cfg(all(test, verif_replay))]
#[test]
fn verif_replay_entry() {
    let h = std::env::var("VERIF_REPLAY_HARNESS").unwrap_or_default();
    let case: serde_json::Value = serde_json::from_str(&std::env::var("VERIF_REPLAY_CASE").unwrap_or_default()).expect("case json");
    let obs = match h.as_str() {
        "record_decode" => driver::record_decode(&case),
        other => panic!("unknown driver {other}"),
    };
    println!("VERIF-OBS {}", obs);
}
