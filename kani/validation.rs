// C14 — src/validation.rs: native observation driver for RateLimiter::check_ip (per-IP limiter on accepted connections).
use super::*;

#[cfg(all(test, verif_replay))]
mod driver {
    use super::*;
    use crate::rate_limit::verif_kani_rate_limit::driver as rl;
    use serde_json::{json, Map, Value};

    fn u(case: &Value, k: &str) -> u64 {
        case.get(k).and_then(|v| v.as_u64()).unwrap_or(0)
    }

    pub fn check_ip(case: &Value) -> Value {
        let v6 = case["__params"]["v6"].as_bool().unwrap_or(false);
        let cfg = RateLimitConfig {
            window: Duration::from_secs(60),
            max_requests: u(case, "cfg.max") as u32,
            burst_size: u(case, "cfg.burst") as u32,
            adaptive: true,
            cleanup_interval: Duration::from_secs(300),
        };
        let lim = RateLimiter::new(cfg);
        let addr = |name: &str| -> IpAddr {
            if v6 {
                let mut b = [0u8; 16];
                for i in 0..16 {
                    b[i] = u(case, &format!("{name}.{i}")) as u8;
                }
                IpAddr::V6(std::net::Ipv6Addr::from(b))
            } else {
                let mut b = [0u8; 4];
                for i in 0..4 {
                    b[i] = u(case, &format!("{name}.{i}")) as u8;
                }
                IpAddr::V4(std::net::Ipv4Addr::from(b))
            }
        };
        let ip = addr("ip");
        let probes = vec![("cand".to_string(), ip), ("other".to_string(), addr("other"))];
        rl::fill_engine(&*lim.engine, case, "V", &probes);
        rl::freeze_clock_at(case);
        let r = lim.check_ip(&ip);
        rl::thaw();
        let mut out = Map::new();
        out.insert("ok".into(), json!(r.is_ok()));
        rl::obs_engine(&*lim.engine, "V", &probes, &mut out);
        Value::Object(out)
    }
}

#[cfg(all(test, verif_replay))]
#[test]
fn verif_replay_entry() {
    let h = std::env::var("VERIF_REPLAY_HARNESS").unwrap_or_default();
    let case: serde_json::Value = serde_json::from_str(&std::env::var("VERIF_REPLAY_CASE").unwrap_or_default()).expect("case json");
    let obs = match h.as_str() {
        "check_ip" => driver::check_ip(&case),
        other => panic!("unknown driver {other}"),
    };
    println!("VERIF-OBS {}", obs);
}
