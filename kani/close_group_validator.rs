// C15 — native observation driver for engine-M counterexamples on CloseGroupValidator::validate_membership.
use super::*;

#[path = "/verif/kani/prelude.rs"]
mod vp;

#[cfg(all(test, verif_replay))]
mod driver {
    use super::*;
    use serde_json::{json, Value};

    fn u(case: &Value, k: &str) -> u64 {
        case.get(k).and_then(|v| v.as_u64()).unwrap_or(0)
    }
    fn b(case: &Value, k: &str) -> bool {
        case.get(k).and_then(|v| v.as_bool()).unwrap_or(false)
    }
    fn f(case: &Value, k: &str) -> f64 {
        f64::from_bits(u(case, k))
    }
    const GRID: [f64; 4] = [0.1, 0.29, 0.3, 0.9];

    fn responses(case: &Value, flip: Option<usize>) -> Vec<CloseGroupResponse> {
        let n = case["__params"]["N"].as_u64().unwrap_or(0) as usize;
        let grid = !case["__params"]["bft"].as_bool().unwrap_or(false);
        let mut v = Vec::new();
        for i in 0..n {
            let trust = if grid { GRID[(u(case, &format!("w{i}.trust_sel")) & 3) as usize] } else { f(case, &format!("w{i}.trust")) };
            let mut confirms = b(case, &format!("w{i}.confirms"));
            if flip == Some(i) {
                confirms = false;
            }
            let mut id = [0u8; 32];
            id[0] = i as u8;
            v.push(CloseGroupResponse {
                peer_id: DhtNodeId::from_bytes(id),
                confirms_membership: confirms,
                peer_trust_score: if b(case, &format!("w{i}.trust_some")) { Some(trust) } else { None },
                peer_region: if b(case, &format!("w{i}.region_some")) { Some(format!("R{}", u(case, &format!("w{i}.region")))) } else { None },
                response_latency: Duration::new(u(case, &format!("w{i}.lat_s")), (u(case, &format!("w{i}.lat_msp")) as u32) * 1_000_000),
                received_at: Instant::now(),
            });
        }
        v
    }

    fn obs(r: &CloseGroupValidationResult) -> Value {
        let names: Vec<String> = r.failure_reasons.iter().map(|x| format!("{:?}", x)).collect();
        json!({"valid": r.is_valid, "ratio": r.confirmation_ratio.to_bits(), "weighted": r.weighted_confirmation.to_bits(),
               "regions": r.confirming_regions as u64, "used_bft": r.used_bft_consensus, "failures": names})
    }

    pub fn validate_membership(case: &Value) -> Value {
        let mut cfg = CloseGroupValidatorConfig::default();
        cfg.min_peers_to_query = u(case, "cfg.min_peers") as usize;
        cfg.max_peers_to_query = u(case, "cfg.max_peers") as usize;
        cfg.trust_weighted_threshold = f(case, "cfg.tw_threshold");
        cfg.bft_threshold = f(case, "cfg.bft_threshold");
        cfg.min_witness_trust = f(case, "cfg.min_witness_trust");
        cfg.min_regions = u(case, "cfg.min_regions") as usize;
        let v = CloseGroupValidator::new(cfg);
        v.set_attack_mode(case["__params"]["bft"].as_bool().unwrap_or(false));
        let cand = if b(case, "cand.trust_some") { Some(f(case, "cand.trust")) } else { None };
        let id = DhtNodeId::from_bytes([7u8; 32]);
        let a = v.validate_membership(&id, &responses(case, None), cand);
        let flip = u(case, "flip") as usize;
        let bres = v.validate_membership(&id, &responses(case, Some(flip)), cand);
        json!({"A": obs(&a), "B": obs(&bres)})
    }
}

#[cfg(all(test, verif_replay))]
#[test]
fn verif_replay_entry() {
    let h = std::env::var("VERIF_REPLAY_HARNESS").unwrap_or_default();
    let case: serde_json::Value = serde_json::from_str(&std::env::var("VERIF_REPLAY_CASE").unwrap_or_default()).expect("case json");
    let obs = match h.as_str() {
        "validate_membership" => driver::validate_membership(&case),
        other => panic!("unknown driver {other}"),
    };
    println!("VERIF-OBS {}", obs);
}
