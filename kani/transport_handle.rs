// C04 — src/transport_handle.rs: native observation driver for the /rr/ pending-request table (TransportHandle::send_request).
use super::*;

#[cfg(all(test, verif_replay))]
mod driver {
    use super::*;
    use serde_json::{json, Map, Value};

    fn un(case: &Value, k: &str) -> u64 {
        match case.get(k) {
            Some(Value::Bool(b)) => *b as u64,
            Some(v) => v.as_u64().unwrap_or(0),
            None => 0,
        }
    }
    fn s(id: u64) -> String {
        format!("s{id:016x}")
    }
    fn sid(t: &str) -> u64 {
        u64::from_str_radix(t.trim_start_matches('s'), 16).unwrap_or(u64::MAX)
    }

    /// send_request towards a peer that is not connected (the transport send fails) or with the pending table at its cap
    pub fn rr_send(case: &Value) -> Value {
        let n0 = un(case, "R.reqs.count") as usize;
        if un(case, "env.send_ok") == 1 && n0 < MAX_ACTIVE_REQUESTS && un(case, "env.proto_ok") == 1 {
            panic!("unknown driver outcome: a successful transport send cannot be forced natively");
        }
        let rt = tokio::runtime::Builder::new_multi_thread().worker_threads(2).enable_all().build().unwrap();
        rt.block_on(async {
            let node_config = crate::network::NodeConfig::builder().peer_id("verif-local".to_string()).listen_port(0).ipv6(false).build().expect("node config");
            let th = TransportHandle::new(TransportConfig {
                peer_id: "verif-local".to_string(),
                listen_addr: node_config.listen_addr,
                enable_ipv6: node_config.enable_ipv6,
                connection_timeout: node_config.connection_timeout,
                stale_peer_threshold: node_config.stale_peer_threshold,
                max_connections: node_config.max_connections,
                production_config: node_config.production_config.clone(),
                event_channel_capacity: crate::DEFAULT_EVENT_CHANNEL_CAPACITY,
            })
            .await
            .expect("transport");
            let other = s(un(case, "other"));
            let mut keep = Vec::new();
            let mut known: Vec<String> = Vec::new();
            {
                let mut reqs = th.active_requests.write().await;
                if un(case, "R.reqs@other.present") == 1 {
                    let (tx, rx) = tokio::sync::oneshot::channel();
                    keep.push(rx);
                    reqs.insert(other.clone(), PendingRequest { response_tx: tx, expected_peer: s(un(case, "R.reqs@other.v1")) });
                    known.push(other.clone());
                }
                let mut i = 0u64;
                while reqs.len() < n0 {
                    let (tx, rx) = tokio::sync::oneshot::channel();
                    keep.push(rx);
                    let k = format!("filler-{i}");
                    reqs.insert(k.clone(), PendingRequest { response_tx: tx, expected_peer: "filler".into() });
                    known.push(k);
                    i += 1;
                }
            }
            let proto = if un(case, "env.proto_ok") == 1 { "verif" } else { "bad/proto" };
            let res = th.send_request(&s(un(case, "peer")), proto, vec![0u8; 4], Duration::from_secs(un(case, "timeout.s").min(2))).await;
            let ok = res.is_ok();
            let mut out = Map::new();
            out.insert("ok".into(), json!(ok));
            // the transport send was attempted unless the request was refused at the cap or for its protocol name
            let text = res.err().map(|e| e.to_string()).unwrap_or_default();
            out.insert("sent".into(), json!(ok || !(text.contains("Too many active requests") || text.contains("Invalid protocol name"))));
            let reqs = th.active_requests.read().await;
            out.insert("post.count".into(), json!(reqs.len() as u64));
            out.insert("post.reqs@other".into(), match reqs.get(&other) {
                Some(p) => json!([un(case, "R.reqs@other.v0"), sid(&p.expected_peer)]),
                None => Value::Null,
            });
            let leftover = reqs.iter().find(|(k, _)| !known.contains(k));
            out.insert("post.reqs@mid".into(), match leftover {
                Some((_, p)) => json!([0u64, sid(&p.expected_peer)]),
                None => Value::Null,
            });
            Value::Object(out)
        })
    }

    /// C04 (/rr/ replies): one inbound frame from a really connected peer B against a pending table installed in A's receive side
    pub fn rr_reply(case: &Value) -> Value {
        use crate::network::{NodeConfig, P2PNode, RequestResponseEnvelope};
        if un(case, "frame.keepalive") == 1 || un(case, "frame.parsed") == 0 {
            panic!("unknown driver outcome: keepalive / undecodable frames cannot be injected through the public send API");
        }
        let rt = tokio::runtime::Builder::new_multi_thread().worker_threads(4).enable_all().build().unwrap();
        rt.block_on(async {
            let cfg = || NodeConfig {
                peer_id: None,
                listen_addr: "127.0.0.1:0".parse().unwrap(),
                listen_addrs: vec!["127.0.0.1:0".parse().unwrap()],
                bootstrap_peers: vec![],
                bootstrap_peers_str: vec![],
                ..Default::default()
            };
            let a = P2PNode::new(cfg()).await.expect("node a");
            a.start().await.expect("start a");
            let b = P2PNode::new(cfg()).await.expect("node b");
            b.start().await.expect("start b");
            let mut events_a = a.subscribe_events();
            let addr_a = a.listen_addrs().await.first().expect("addr a").to_string();
            let a_id = b.connect_peer(&addr_a).await.expect("connect b->a");
            tokio::time::sleep(Duration::from_millis(300)).await;
            // learn the identity under which A sees B
            b.send_message(&a_id, "verif-hello", b"hi".to_vec()).await.expect("hello");
            let mut b_as_seen_by_a = String::new();
            let deadline = tokio::time::Instant::now() + Duration::from_secs(10);
            while tokio::time::Instant::now() < deadline {
                if let Ok(Ok(P2PEvent::Message { topic, source, .. })) = tokio::time::timeout(Duration::from_millis(200), events_a.recv()).await {
                    if topic == "verif-hello" {
                        b_as_seen_by_a = source;
                        break;
                    }
                }
            }
            assert!(!b_as_seen_by_a.is_empty(), "A never saw B");
            let sender = un(case, "sender");
            let name = |id: u64| if id == sender { b_as_seen_by_a.clone() } else { s(id) };
            let (mid, oth) = (s(un(case, "mid")), s(un(case, "other")));
            let th = a.transport().clone();
            let mut rx_mid = None;
            let mut rx_oth = None;
            {
                let mut reqs = th.active_requests.write().await;
                if un(case, "R.reqs@mid.present") == 1 {
                    let (tx, rx) = tokio::sync::oneshot::channel();
                    rx_mid = Some(rx);
                    reqs.insert(mid.clone(), PendingRequest { response_tx: tx, expected_peer: name(un(case, "R.reqs@mid.v1")) });
                }
                if un(case, "R.reqs@other.present") == 1 {
                    let (tx, rx) = tokio::sync::oneshot::channel();
                    rx_oth = Some(rx);
                    reqs.insert(oth.clone(), PendingRequest { response_tx: tx, expected_peer: name(un(case, "R.reqs@other.v1")) });
                }
            }
            let payload = b"verif-payload".to_vec();
            let topic = if un(case, "frame.topic_is_rr") == 1 { "/rr/verif".to_string() } else { "verif-topic".to_string() };
            let bytes = if un(case, "frame.envelope_ok") == 1 {
                postcard::to_allocvec(&RequestResponseEnvelope { message_id: mid.clone(), is_response: un(case, "frame.is_response") == 1, payload: payload.clone() }).expect("envelope")
            } else {
                vec![0xffu8; 3]
            };
            b.send_message(&a_id, &topic, bytes).await.expect("frame");
            tokio::time::sleep(Duration::from_millis(500)).await;
            b.send_message(&a_id, "verif-sentinel", b"end".to_vec()).await.expect("sentinel");
            let mut surfaced = false;
            let deadline = tokio::time::Instant::now() + Duration::from_secs(10);
            while tokio::time::Instant::now() < deadline {
                if let Ok(Ok(P2PEvent::Message { topic: t, .. })) = tokio::time::timeout(Duration::from_millis(200), events_a.recv()).await {
                    if t == topic {
                        surfaced = true;
                    }
                    if t == "verif-sentinel" {
                        break;
                    }
                }
            }
            let mut payload_ok = true;
            let mut got = |rx: &mut Option<tokio::sync::oneshot::Receiver<Vec<u8>>>| -> bool {
                match rx.as_mut().map(|r| r.try_recv()) {
                    Some(Ok(p)) => {
                        if p != payload {
                            payload_ok = false;
                        }
                        true
                    }
                    _ => false,
                }
            };
            let delivered_mid = got(&mut rx_mid);
            let delivered_other = got(&mut rx_oth);
            let mut out = Map::new();
            out.insert("delivered_mid".into(), json!(delivered_mid));
            out.insert("delivered_other".into(), json!(delivered_other));
            out.insert("payload_ok".into(), json!(payload_ok));
            out.insert("surfaced".into(), json!(surfaced));
            let reqs = th.active_requests.read().await;
            let unname = |t: &str| if t == b_as_seen_by_a { sender } else { sid(t) };
            for (label, key) in [("mid", &mid), ("other", &oth)] {
                // an entry whose receiver is gone (channel closed by a dropped sender) is reported as absent: it can no longer complete
                out.insert(format!("post.reqs@{label}"), match reqs.get(key) {
                    Some(p) => json!([un(case, &format!("R.reqs@{label}.v0")), unname(&p.expected_peer)]),
                    None => Value::Null,
                });
            }
            drop(reqs);
            let _ = a.stop().await;
            let _ = b.stop().await;
            Value::Object(out)
        })
    }
}

#[cfg(all(test, verif_replay))]
#[test]
fn verif_replay_entry() {
    let h = std::env::var("VERIF_REPLAY_HARNESS").unwrap_or_default();
    let case: serde_json::Value = serde_json::from_str(&std::env::var("VERIF_REPLAY_CASE").unwrap_or_default()).expect("case json");
    let obs = match h.as_str() {
        "rr_send" => driver::rr_send(&case),
        "rr_reply" => driver::rr_reply(&case),
        other => panic!("unknown driver {other}"),
    };
    println!("VERIF-OBS {}", obs);
}
