// C04 — src/transport_handle.rs: native observation driver for the /rr/ pending-request table (TransportHandle::send_request).
use super::*;

#[cfg(all(test, verif_replay))]
mod driver {
    use super::*;
    use serde_json::{json, Map, Value};

    fn un(case: &Value, k: &str) -> u64 {
        match case.get(k) {
            Some(Value::Bool(b)) => *b as u64,
            Some(v) => v.as_u64().unwrap_or(0),
            None => 0,
        }
    }
    fn s(id: u64) -> String {
        format!("s{id:016x}")
    }
    fn sid(t: &str) -> u64 {
        u64::from_str_radix(t.trim_start_matches('s'), 16).unwrap_or(u64::MAX)
    }

    /// send_request towards a peer that is not connected (the transport send fails) or with the pending table at its cap
    pub fn rr_send(case: &Value) -> Value {
        let n0 = un(case, "R.reqs.count") as usize;
        if un(case, "env.send_ok") == 1 && n0 < MAX_ACTIVE_REQUESTS && un(case, "env.proto_ok") == 1 {
            panic!("unknown driver outcome: a successful transport send cannot be forced natively");
        }
        let rt = tokio::runtime::Builder::new_multi_thread().worker_threads(2).enable_all().build().unwrap();
        rt.block_on(async {
            let node_config = crate::network::NodeConfig::builder().peer_id("verif-local".to_string()).listen_port(0).ipv6(false).build().expect("node config");
            let th = TransportHandle::new(TransportConfig {
                peer_id: "verif-local".to_string(),
                listen_addr: node_config.listen_addr,
                enable_ipv6: node_config.enable_ipv6,
                connection_timeout: node_config.connection_timeout,
                stale_peer_threshold: node_config.stale_peer_threshold,
                max_connections: node_config.max_connections,
                production_config: node_config.production_config.clone(),
                event_channel_capacity: crate::DEFAULT_EVENT_CHANNEL_CAPACITY,
            })
            .await
            .expect("transport");
            let other = s(un(case, "other"));
            let mut keep = Vec::new();
            let mut known: Vec<String> = Vec::new();
            {
                let mut reqs = th.active_requests.write().await;
                if un(case, "R.reqs@other.present") == 1 {
                    let (tx, rx) = tokio::sync::oneshot::channel();
                    keep.push(rx);
                    reqs.insert(other.clone(), PendingRequest { response_tx: tx, expected_peer: s(un(case, "R.reqs@other.v1")) });
                    known.push(other.clone());
                }
                let mut i = 0u64;
                while reqs.len() < n0 {
                    let (tx, rx) = tokio::sync::oneshot::channel();
                    keep.push(rx);
                    let k = format!("filler-{i}");
                    reqs.insert(k.clone(), PendingRequest { response_tx: tx, expected_peer: "filler".into() });
                    known.push(k);
                    i += 1;
                }
            }
            let proto = if un(case, "env.proto_ok") == 1 { "verif" } else { "bad/proto" };
            let res = th.send_request(&s(un(case, "peer")), proto, vec![0u8; 4], Duration::from_secs(un(case, "timeout.s").min(2))).await;
            let ok = res.is_ok();
            let mut out = Map::new();
            out.insert("ok".into(), json!(ok));
            // the transport send was attempted unless the request was refused at the cap or for its protocol name
            let text = res.err().map(|e| e.to_string()).unwrap_or_default();
            out.insert("sent".into(), json!(ok || !(text.contains("Too many active requests") || text.contains("Invalid protocol name"))));
            let reqs = th.active_requests.read().await;
            out.insert("post.count".into(), json!(reqs.len() as u64));
            out.insert("post.reqs@other".into(), match reqs.get(&other) {
                Some(p) => json!([un(case, "R.reqs@other.v0"), sid(&p.expected_peer)]),
                None => Value::Null,
            });
            let leftover = reqs.iter().find(|(k, _)| !known.contains(k));
            out.insert("post.reqs@mid".into(), match leftover {
                Some((_, p)) => json!([0u64, sid(&p.expected_peer)]),
                None => Value::Null,
            });
            Value::Object(out)
        })
    }
}

#[cfg(all(test, verif_replay))]
#[test]
fn verif_replay_entry() {
    let h = std::env::var("VERIF_REPLAY_HARNESS").unwrap_or_default();
    let case: serde_json::Value = serde_json::from_str(&std::env::var("VERIF_REPLAY_CASE").unwrap_or_default()).expect("case json");
    let obs = match h.as_str() {
        "rr_send" => driver::rr_send(&case),
        other => panic!("unknown driver {other}"),
    };
    println!("VERIF-OBS {}", obs);
}
