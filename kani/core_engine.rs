// C02 — src/dht/core_engine.rs: Kani kernel for the bucket index + native observation drivers for the routing-table kernel.
use super::*;

#[path = "/verif/kani/prelude.rs"]
mod vp;

fn first_diff_bit(a: &[u8; 32], b: &[u8; 32]) -> usize {
    let mut i = 0;
    while i < 256 {
        let x = a[i / 8] ^ b[i / 8];
        if (x >> (7 - (i % 8))) & 1 == 1 {
            return i;
        }
        i += 1;
    }
    255
}

#[cfg_attr(kani, kani::proof)]
#[cfg_attr(kani, kani::unwind(258))]
pub fn c02_bucket_index() {
    let l: [u8; 32] = vp::any();
    let x: [u8; 32] = vp::any();
    let rt = KademliaRoutingTable { buckets: Vec::new(), node_id: NodeId::from_bytes(l), _k_value: 8 };
    let idx = rt.get_bucket_index(&NodeId::from_bytes(x));
    vp::check(idx == first_diff_bit(&l, &x), "bucket_index_is_first_differing_bit");
    let idk = rt.get_bucket_index_for_key(&DhtKey::from_bytes(x));
    vp::check(idk == idx, "key_and_node_index_agree");
    vp::check(idx < 256, "index_in_range");
    std::mem::forget(rt);
}

#[cfg(all(test, verif_replay))]
mod driver {
    use super::*;
    use serde_json::{json, Value};

    fn u(case: &Value, k: &str) -> u64 {
        case.get(k).and_then(|v| v.as_u64()).unwrap_or(0)
    }
    fn raw32(case: &Value, name: &str) -> [u8; 32] {
        let mut o = [0u8; 32];
        for i in 0..32 {
            o[i] = u(case, &format!("{name}.{i}")) as u8;
        }
        o
    }
    /// same masking as checks/c02.py::id_in_bucket: bits before j cleared, bit j set, bits after j kept
    fn id_in_bucket(raw: [u8; 32], j: usize) -> [u8; 32] {
        let mut o = [0u8; 32];
        for byte in 0..32 {
            let (lo, hi) = (byte * 8, byte * 8 + 7);
            if hi < j {
                o[byte] = 0;
            } else if lo > j {
                o[byte] = raw[byte];
            } else {
                let k = j - lo;
                let keep: u8 = ((1u16 << (7 - k)) - 1) as u8;
                o[byte] = (raw[byte] & keep) | (1u8 << (7 - k));
            }
        }
        o
    }
    fn mk(id: [u8; 32], tag: u64) -> NodeInfo {
        NodeInfo {
            id: NodeId::from_bytes(id),
            address: format!("addr{tag}"),
            last_seen: std::time::SystemTime::UNIX_EPOCH,
            capacity: NodeCapacity { storage_available: tag, bandwidth_available: 0, reliability_score: 1.0 },
        }
    }
    fn table(case: &Value) -> KademliaRoutingTable {
        let mut rt = KademliaRoutingTable::new(NodeId::from_bytes([0u8; 32]), 8);
        // layout entries are either a bucket index or [bucket, capacity]
        let bdef = case["__params"]["B"].as_u64().unwrap() as usize;
        let layout: Vec<(usize, usize)> = case["__params"]["layout"].as_array().unwrap().iter().map(|x| match x.as_array() {
            Some(a) => (a[0].as_u64().unwrap() as usize, a[1].as_u64().unwrap() as usize),
            None => (x.as_u64().unwrap() as usize, bdef),
        }).collect();
        let mut tag = 0u64;
        for j in 0..256usize {
            if let Some((_, b)) = layout.iter().find(|(bj, _)| *bj == j) {
                let b = *b;
                let ln = u(case, &format!("len{j}")) as usize;
                for s in 0..b {
                    if s < ln {
                        // direct insertion: arbitrary well-formed table (every such table is reachable by add_node calls)
                        rt.buckets[j].nodes.push(mk(id_in_bucket(raw32(case, &format!("b{j}s{s}")), j), tag));
                    }
                    tag += 1;
                }
            }
        }
        rt
    }

    pub fn closest(case: &Value) -> Value {
        let rt = table(case);
        let key = match case["__params"]["t"].as_u64() {
            Some(t) => id_in_bucket(raw32(case, "key"), t as usize),
            None => [0u8; 32],
        };
        let res = rt.find_closest_nodes(&DhtKey::from_bytes(key), u(case, "count") as usize);
        let out: Vec<Value> = res.iter().map(|n| json!({"id": n.id.as_bytes().to_vec(), "tag": n.capacity.storage_available})).collect();
        json!({"result": out})
    }

    pub fn engine_ops(case: &Value) -> Value {
        let rt = tokio::runtime::Builder::new_current_thread().enable_all().build().unwrap();
        rt.block_on(async {
            let engine = DhtCoreEngine::new_with_validation_mode(NodeId::from_bytes([0u8; 32]), CloseGroupEnforcementMode::LogOnly).unwrap();
            let t = table(case);
            // the failed peer: the `failed_slot`-th potential node of the layout (tags number the slots in layout order)
            let which = u(case, "failed_slot");
            let mut failed: Option<NodeId> = None;
            for bk in t.buckets.iter() {
                for n in bk.get_nodes() {
                    if n.capacity.storage_available == which {
                        failed = Some(n.id.clone());
                    }
                }
            }
            *engine.routing_table.write().await = t;
            let key = match case["__params"]["t"].as_u64() {
                Some(t) => id_in_bucket(raw32(case, "key"), t as usize),
                None => [0u8; 32],
            };
            let key = DhtKey::from_bytes(key);
            let count = u(case, "count") as usize;
            let mut engine = engine;
            let res = if case["__params"]["fail"].as_bool().unwrap_or(false) {
                if let Some(f) = failed {
                    if case["__params"]["readd"].as_bool().unwrap_or(false) {
                        // the peer is announced again under another address before it fails / is evicted
                        let _ = engine.routing_table.write().await.add_node(mk(*f.as_bytes(), 999));
                    }
                    if case["__params"]["evict"].as_bool().unwrap_or(false) {
                        let _ = engine.evict_node(&f, EvictionReason::CloseGroupRejection).await;
                    } else {
                        let _ = engine.handle_node_failure(f).await;
                    }
                }
                engine.find_nodes(&key, count).await.unwrap_or_default()
            } else if case["__params"]["reply"].as_bool().unwrap_or(false) {
                // trust-weighted selection is enabled with the model's configuration; the peers the model marks pre-trusted are pre-trusted
                // (an EigenTrustEngine answers 0.9 for them and 0.0 for everybody else before its first computation)
                let mut trusted: std::collections::HashSet<crate::adaptive::NodeId> = std::collections::HashSet::new();
                for bk in engine.routing_table.read().await.buckets.iter() {
                    for n in bk.get_nodes() {
                        if case.get(&format!("pretrusted.{}", n.capacity.storage_available)).and_then(|v| v.as_bool()).unwrap_or(false) {
                            trusted.insert(crate::adaptive::NodeId { hash: *n.id.as_bytes() });
                        }
                    }
                }
                let cfg = TrustSelectionConfig {
                    trust_weight: 0.3,
                    min_trust_threshold: 0.1,
                    exclude_untrusted: case.get("cfg.exclude_untrusted").and_then(|v| v.as_bool()).unwrap_or(false),
                };
                engine.enable_trust_selection(Arc::new(EigenTrustEngine::new(trusted)), cfg);
                let resp = engine.handle_request(DhtRequestWrapper { id: "r".into(), message: DhtMessage::FindNode { target: key.clone(), count } }).await;
                match resp.response {
                    DhtResponse::FindNodeReply { nodes, .. } => nodes,
                    _ => Vec::new(),
                }
            } else {
                engine.select_query_peers(&key, count).await
            };
            let out: Vec<Value> = res.iter().map(|n| json!({"id": n.id.as_bytes().to_vec(), "tag": n.capacity.storage_available})).collect();
            json!({"result": out})
        })
    }

    /// C05: one DhtCoreEngine::handle_request call on a store holding the probed entries
    /// C03: one DhtCoreEngine::store / retrieve call on an engine whose data store, routing table (layout [[3,1],[7,1]]) and load table are the model's
    pub fn kv_engine(case: &Value) -> Value {
        let rt = tokio::runtime::Builder::new_current_thread().enable_all().build().unwrap();
        rt.block_on(async {
            let mut engine = DhtCoreEngine::new_with_validation_mode(NodeId::from_bytes([0u8; 32]), CloseGroupEnforcementMode::LogOnly).unwrap();
            let mut case2 = case.clone();
            case2["__params"]["layout"] = json!([[3, 1], [7, 1]]);
            case2["__params"]["B"] = json!(1);
            let t = table(&case2);
            {
                let mut lb = engine.load_balancer.write().await;
                let mut tag = 0u64;
                for bk in t.buckets.iter() {
                    for n in bk.get_nodes() {
                        let _ = tag;
                        let lbl = format!("LB.loads@n{}", n.capacity.storage_available);
                        if case.get(&format!("{lbl}.present")).and_then(|v| v.as_bool()).unwrap_or(false) {
                            let f = |i: usize| f64::from_bits(u(case, &format!("{lbl}.v{i}")));
                            lb.node_loads.insert(n.id.clone(), LoadMetric { storage_used_percent: f(0), bandwidth_used_percent: f(1), request_rate: f(2) });
                        }
                        tag += 1;
                    }
                }
            }
            *engine.routing_table.write().await = t;
            let is_store = case["__params"]["op"].as_str() == Some("store");
            let key = if is_store {
                match case["__params"]["t"].as_u64() {
                    Some(t) => id_in_bucket(raw32(case, "key"), t as usize),
                    None => id_in_bucket(raw32(case, "key"), 3),
                }
            } else {
                raw32(case, "key")
            };
            let key = DhtKey::from_bytes(key);
            let other = DhtKey::from_bytes(raw32(case, "other"));
            fn blob(id: u64, len: u64) -> Vec<u8> {
                let mut v = vec![0xabu8; len as usize];
                for (i, b) in id.to_be_bytes().iter().enumerate() {
                    if i < v.len() {
                        v[i] = *b;
                    }
                }
                v
            }
            fn unblob(v: &Vec<u8>) -> Value {
                let mut idb = [0u8; 8];
                for i in 0..8.min(v.len()) {
                    idb[i] = v[i];
                }
                json!({"id": u64::from_be_bytes(idb), "len": v.len() as u64})
            }
            {
                let mut ds = engine.data_store.write().await;
                for (label, k) in [("other", &other), ("cand", &key)] {
                    if case.get(&format!("D.data@{label}.present")).and_then(|v| v.as_bool()).unwrap_or(false) {
                        ds.put(k.clone(), blob(u(case, &format!("D.data@{label}.v0")), u(case, &format!("D.data@{label}.v1")).min(1 << 20)));
                    }
                }
            }
            let mut out = serde_json::Map::new();
            if is_store {
                let r = engine.store(&key, blob(u(case, "value.id"), u(case, "value.len").min(1 << 20))).await;
                out.insert("accepted".into(), json!(r.is_ok()));
            } else {
                let r = engine.retrieve(&key).await;
                out.insert("ok".into(), json!(r.is_ok()));
                out.insert("value".into(), match r {
                    Ok(Some(v)) => unblob(&v),
                    _ => Value::Null,
                });
            }
            let ds = engine.data_store.read().await;
            let mut data = serde_json::Map::new();
            for (label, k) in [("other", &other), ("cand", &key)] {
                data.insert(format!("D.data@{label}"), ds.data.get(k).map(unblob).unwrap_or(Value::Null));
            }
            out.insert("data".into(), Value::Object(data));
            Value::Object(out)
        })
    }

    /// C04: the core engine's own pending-query table (LruCache capped at 10 000): query_node_for_key with a mock transport, handle_response
    pub fn engine_pending(case: &Value) -> Value {
        use std::sync::atomic::{AtomicBool, Ordering};
        struct Mock {
            ok: bool,
            sent: AtomicBool,
            id: String,
        }
        #[async_trait::async_trait]
        impl crate::network::NetworkSender for Mock {
            async fn send_message(&self, _peer_id: &crate::PeerId, _protocol: &str, _data: Vec<u8>) -> crate::Result<()> {
                self.sent.store(true, Ordering::SeqCst);
                if self.ok {
                    Ok(())
                } else {
                    Err(crate::P2PError::Network(crate::error::NetworkError::ProtocolError("mock send failure".into())))
                }
            }
            fn local_peer_id(&self) -> &crate::PeerId {
                &self.id
            }
        }
        let s = |id: u64| format!("s{id:016x}");
        // model booleans arrive as JSON booleans
        let u = |case: &Value, k: &str| -> u64 {
            match case.get(k) {
                Some(Value::Bool(b)) => *b as u64,
                Some(v) => v.as_u64().unwrap_or(0),
                None => 0,
            }
        };
        let is_query = case["__driver"].as_str() == Some("engine_query");
        if is_query && u(case, "env.serialize_ok") == 0 {
            panic!("unknown driver outcome: a serialisation failure cannot be forced natively");
        }
        if is_query && u(case, "env.send_ok") == 1 && u(case, "env.wait_kind") != 2 && (u(case, "E.pending.count") as usize) < MAX_PENDING_DHT_REQUESTS {
            panic!("unknown driver outcome: a reply / closed channel cannot be forced natively (the request id is internal)");
        }
        let rt = tokio::runtime::Builder::new_current_thread().enable_all().build().unwrap();
        rt.block_on(async {
            let engine = DhtCoreEngine::new_with_validation_mode(NodeId::from_bytes([0u8; 32]), CloseGroupEnforcementMode::LogOnly).unwrap();
            let n0 = (u(case, "E.pending.count") as usize).min(20_000);
            let other = s(u(case, "other"));
            let mid = s(u(case, "mid"));
            let mut keep = Vec::new();
            let mut rx_other = None;
            let mut rx_mid = None;
            let mut known: Vec<String> = Vec::new();
            {
                let mut p = engine.pending_requests.write().await;
                if case.get("E.pending@other.present").and_then(|v| v.as_bool()).unwrap_or(false) {
                    let (tx, rx) = oneshot::channel();
                    rx_other = Some(rx);
                    p.put(other.clone(), tx);
                    known.push(other.clone());
                }
                if !is_query && case.get("E.pending@mid.present").and_then(|v| v.as_bool()).unwrap_or(false) {
                    let (tx, rx) = oneshot::channel();
                    rx_mid = Some(rx);
                    p.put(mid.clone(), tx);
                    known.push(mid.clone());
                }
                let mut i = 0u64;
                while p.len() < n0 {
                    let (tx, rx) = oneshot::channel();
                    keep.push(rx);
                    let k = format!("filler-{i}");
                    p.put(k.clone(), tx);
                    known.push(k);
                    i += 1;
                }
            }
            let mut out = serde_json::Map::new();
            if is_query {
                let mock = Arc::new(Mock { ok: u(case, "env.send_ok") == 1, sent: AtomicBool::new(false), id: "mock".into() });
                let node = mk([1u8; 32], 1);
                let r = engine.query_node_for_key(mock.clone(), &node, &DhtKey::from_bytes([0u8; 32])).await;
                out.insert("ok".into(), json!(r.is_ok()));
                out.insert("sent".into(), json!(mock.sent.load(Ordering::SeqCst)));
            } else {
                engine.handle_response(DhtResponseWrapper { id: mid.clone(), response: DhtResponse::LeaveAck { confirmed: true } }).await;
                out.insert("delivered_mid".into(), json!(rx_mid.as_mut().map(|r| r.try_recv().is_ok()).unwrap_or(false)));
                out.insert("delivered_other".into(), json!(rx_other.as_mut().map(|r| r.try_recv().is_ok()).unwrap_or(false)));
            }
            let p = engine.pending_requests.read().await;
            out.insert("post.count".into(), json!(p.len() as u64));
            out.insert("post.pending@other".into(), if p.contains(&other) { json!([u(case, "E.pending@other.v0")]) } else { Value::Null });
            let leftover = if is_query { p.iter().any(|(k, _)| !known.contains(k)) } else { p.contains(&mid) };
            out.insert("post.pending@mid".into(), if leftover { json!([u(case, "E.pending@mid.v0")]) } else { Value::Null });
            Value::Object(out)
        })
    }

    pub fn dispatch(case: &Value) -> Value {
        let rt = tokio::runtime::Builder::new_current_thread().enable_all().build().unwrap();
        rt.block_on(async {
            let engine = DhtCoreEngine::new_with_validation_mode(NodeId::from_bytes([0u8; 32]), CloseGroupEnforcementMode::LogOnly).unwrap();
            // 64 known peers (8 in each of the 8 farthest buckets): the length of a lookup reply then shows how many were asked for
            {
                let mut rt = KademliaRoutingTable::new(NodeId::from_bytes([0u8; 32]), 8);
                let mut tag = 0u64;
                for j in 0..8usize {
                    for s in 0..8u8 {
                        let mut raw = [0u8; 32];
                        raw[31] = s;
                        raw[1] = s.wrapping_mul(37);
                        rt.buckets[j].nodes.push(mk(id_in_bucket(raw, j), tag));
                        tag += 1;
                    }
                }
                *engine.routing_table.write().await = rt;
            }
            let key = DhtKey::from_bytes(raw32(case, "key"));
            let other = DhtKey::from_bytes(raw32(case, "other"));
            // a blob (id, len) is materialised as `len` bytes whose first 8 bytes are the id
            fn blob(id: u64, len: u64) -> Vec<u8> {
                let mut v = vec![0xabu8; len as usize];
                for (i, b) in id.to_be_bytes().iter().enumerate() {
                    if i < v.len() {
                        v[i] = *b;
                    }
                }
                v
            }
            fn unblob(v: &Vec<u8>) -> Value {
                let mut idb = [0u8; 8];
                for i in 0..8.min(v.len()) {
                    idb[i] = v[i];
                }
                json!({"id": u64::from_be_bytes(idb), "len": v.len() as u64})
            }
            {
                let mut ds = engine.data_store.write().await;
                for (label, k) in [("other", &other), ("cand", &key)] {
                    if case.get(&format!("D.data@{label}.present")).and_then(|v| v.as_bool()).unwrap_or(false) {
                        ds.put(k.clone(), blob(u(case, &format!("D.data@{label}.v0")), u(case, &format!("D.data@{label}.v1")).min(1 << 20)));
                    }
                }
            }
            let msg = match case["__params"]["kind"].as_str().unwrap_or("store") {
                "store" => DhtMessage::Store { key: key.clone(), value: blob(u(case, "value.id"), u(case, "value.len").min(1 << 20)), ttl: Duration::from_secs(60) },
                "find_node" => DhtMessage::FindNode { target: key.clone(), count: u(case, "count") as usize },
                _ => DhtMessage::FindValue { key: key.clone() },
            };
            let resp = engine.handle_request(DhtRequestWrapper { id: "r".into(), message: msg }).await;
            let (name, nodes) = match &resp.response {
                DhtResponse::Error { .. } => ("Error", 0),
                DhtResponse::StoreAck { .. } => ("StoreAck", 0),
                DhtResponse::FindNodeReply { nodes, .. } => ("FindNodeReply", nodes.len()),
                DhtResponse::FindValueReply { nodes, .. } => ("FindValueReply", nodes.len()),
                _ => ("Other", 0),
            };
            let ds = engine.data_store.read().await;
            let mut data = serde_json::Map::new();
            for (label, k) in [("other", &other), ("cand", &key)] {
                data.insert(format!("D.data@{label}"), ds.data.get(k).map(unblob).unwrap_or(Value::Null));
            }
            json!({"resp": name, "nodes": nodes, "data": data})
        })
    }

    /// C13 (engine level): DhtCoreEngine::add_node(x) from an arbitrary enforcer / geographic enforcer / table, then eviction or failure of x
    pub fn admission(case: &Value) -> Value {
        use crate::security::verif_kani_security::driver as sec;
        let rt = tokio::runtime::Builder::new_current_thread().enable_all().build().unwrap();
        rt.block_on(async {
            let mode = if case.get("validator_ok").and_then(|v| v.as_bool()).unwrap_or(false) { CloseGroupEnforcementMode::LogOnly } else { CloseGroupEnforcementMode::Strict };
            let mut engine = DhtCoreEngine::new_with_validation_mode(NodeId::from_bytes([0u8; 32]), mode).unwrap();
            let mut t = table(case);
            let cap = u(case, "bucket_cap") as usize;
            for bk in t.buckets.iter_mut() {
                bk.max_size = cap;
            }
            *engine.routing_table.write().await = t;
            *engine.ip_diversity_enforcer.write().await = sec::build(case);
            {
                let mut g = engine.geographic_diversity_enforcer.write().await;
                g.max_per_region = u(case, "G.max") as usize;
                g.region_counts.clear();
                let regions = [GeographicRegion::NorthAmerica, GeographicRegion::Europe, GeographicRegion::AsiaPacific, GeographicRegion::SouthAmerica,
                               GeographicRegion::Africa, GeographicRegion::Oceania, GeographicRegion::Unknown];
                for (i, r) in regions.iter().enumerate() {
                    if case.get(&format!("G.regions@r{i}.present")).and_then(|v| v.as_bool()).unwrap_or(false) {
                        g.region_counts.insert(*r, u(case, &format!("G.regions@r{i}.v0")) as usize);
                    }
                }
            }
            let x = match case["__params"]["xb"].as_u64() {
                Some(j) => id_in_bucket(raw32(case, "x"), j as usize),
                None => [0u8; 32],
            };
            let v6 = case["__params"]["v6"].as_bool().unwrap_or(true);
            let mut ip6 = [0u8; 16];
            for i in 0..16 {
                ip6[i] = u(case, &format!("x.ip6.{i}")) as u8;
            }
            let mut ip4 = [0u8; 4];
            for i in 0..4 {
                ip4[i] = u(case, &format!("x.ip4.{i}")) as u8;
            }
            let ip: std::net::IpAddr = if v6 { std::net::IpAddr::V6(std::net::Ipv6Addr::from(ip6)) } else { std::net::IpAddr::V4(std::net::Ipv4Addr::from(ip4)) };
            let address = match u(case, "x.addr_kind") {
                0 => std::net::SocketAddr::new(ip, u(case, "x.port") as u16).to_string(),
                1 => ip.to_string(),
                _ => "addr999".to_string(),
            };
            let mut node = mk(x, 999);
            node.address = address;
            let xid = NodeId::from_bytes(x);
            let mut out = serde_json::Map::new();
            let ok = engine.add_node(node).await.is_ok();
            out.insert("add_ok".into(), json!(ok));
            sec::observe(&*engine.ip_diversity_enforcer.read().await, case, "add", &mut out);
            let listed = |t: &KademliaRoutingTable| t.buckets.iter().any(|b| b.get_nodes().iter().any(|n| n.id == xid));
            out.insert("listed_after_add".into(), json!(listed(&*engine.routing_table.read().await)));
            if ok {
                if case["__params"]["op"].as_str() == Some("evict") {
                    let _ = engine.evict_node(&xid, EvictionReason::CloseGroupRejection).await;
                } else {
                    let _ = engine.handle_node_failure(xid.clone()).await;
                }
            }
            sec::observe(&*engine.ip_diversity_enforcer.read().await, case, "after", &mut out);
            out.insert("listed_after_op".into(), json!(listed(&*engine.routing_table.read().await)));
            Value::Object(out)
        })
    }

    // ---- DiversitySlots <-> flat leaves, in the order of checks/c13_engine.py::slots_template (values.flatten)
    fn un(case: &Value, k: &str) -> u64 {
        match case.get(k) {
            Some(Value::Bool(b)) => *b as u64,
            Some(v) => v.as_u64().unwrap_or(0),
            None => 0,
        }
    }
    const REGIONS: [GeographicRegion; 7] = [GeographicRegion::NorthAmerica, GeographicRegion::Europe, GeographicRegion::AsiaPacific, GeographicRegion::SouthAmerica,
                                            GeographicRegion::Africa, GeographicRegion::Oceania, GeographicRegion::Unknown];
    fn read_slots(case: &Value, label: &str) -> Option<DiversitySlots> {
        use crate::security::{IPAnalysis, IPv4Analysis, UnifiedIPAnalysis};
        if un(case, &format!("S.slots@{label}.present")) == 0 {
            return None;
        }
        let l = |i: usize| un(case, &format!("S.slots@{label}.v{i}"));
        let bytes4 = |o: usize| std::net::Ipv4Addr::new(l(o) as u8, l(o + 1) as u8, l(o + 2) as u8, l(o + 3) as u8);
        let bytes16 = |o: usize| {
            let mut b = [0u8; 16];
            for i in 0..16 {
                b[i] = l(o + i) as u8;
            }
            std::net::Ipv6Addr::from(b)
        };
        let country = |idx: usize| if l(idx) == 1 { Some(crate::security::verif_kani_security::driver::country_of(l(idx + 1))) } else { None };
        let asn = |idx: usize| if l(idx) == 1 { Some(l(idx + 1) as u32) } else { None };
        let ip = if l(0) == 1 {
            Some(if l(1) == 0 {
                UnifiedIPAnalysis::IPv4(IPv4Analysis { ip_addr: bytes4(2), subnet_24: bytes4(6), subnet_16: bytes4(10), subnet_8: bytes4(14), asn: asn(18), country: country(20),
                                                       is_hosting_provider: l(22) != 0, is_vpn_provider: l(23) != 0, reputation_score: f64::from_bits(l(24)) })
            } else {
                UnifiedIPAnalysis::IPv6(IPAnalysis { subnet_64: bytes16(25), subnet_48: bytes16(41), subnet_32: bytes16(57), asn: asn(73), country: country(75),
                                                     is_hosting_provider: l(77) != 0, is_vpn_provider: l(78) != 0, reputation_score: f64::from_bits(l(79)) })
            })
        } else {
            None
        };
        let region = if l(80) == 1 { Some(REGIONS[(l(81) as usize).min(6)]) } else { None };
        Some(DiversitySlots { ip, region })
    }
    fn flat_slots(s: Option<&DiversitySlots>) -> Value {
        use crate::security::UnifiedIPAnalysis;
        let s = match s {
            Some(s) => s,
            None => return Value::Null,
        };
        let mut v: Vec<Value> = vec![json!(0u64); 82];
        let cid = |c: &Option<String>| c.as_ref().map(|t| u64::from_str_radix(t.trim_start_matches('C'), 16).unwrap_or(0)).unwrap_or(0);
        if let Some(a) = &s.ip {
            v[0] = json!(1u64);
            match a {
                UnifiedIPAnalysis::IPv4(a) => {
                    v[1] = json!(0u64);
                    for (o, ad) in [(2usize, a.ip_addr), (6, a.subnet_24), (10, a.subnet_16), (14, a.subnet_8)] {
                        for (i, b) in ad.octets().iter().enumerate() {
                            v[o + i] = json!(*b as u64);
                        }
                    }
                    v[18] = json!(a.asn.is_some() as u64);
                    v[19] = json!(a.asn.unwrap_or(0) as u64);
                    v[20] = json!(a.country.is_some() as u64);
                    v[21] = json!(cid(&a.country));
                    v[22] = json!(a.is_hosting_provider);
                    v[23] = json!(a.is_vpn_provider);
                    v[24] = json!(a.reputation_score.to_bits());
                }
                UnifiedIPAnalysis::IPv6(a) => {
                    v[1] = json!(1u64);
                    for (o, ad) in [(25usize, a.subnet_64), (41, a.subnet_48), (57, a.subnet_32)] {
                        for (i, b) in ad.octets().iter().enumerate() {
                            v[o + i] = json!(*b as u64);
                        }
                    }
                    v[73] = json!(a.asn.is_some() as u64);
                    v[74] = json!(a.asn.unwrap_or(0) as u64);
                    v[75] = json!(a.country.is_some() as u64);
                    v[76] = json!(cid(&a.country));
                    v[77] = json!(a.is_hosting_provider);
                    v[78] = json!(a.is_vpn_provider);
                    v[79] = json!(a.reputation_score.to_bits());
                }
            }
        }
        // bool leaves of the inactive variant are observed as false
        for i in [22usize, 23, 77, 78] {
            if !v[i].is_boolean() {
                v[i] = json!(false);
            }
        }
        if let Some(r) = s.region {
            v[80] = json!(1u64);
            v[81] = json!(REGIONS.iter().position(|x| *x == r).unwrap_or(6) as u64);
        }
        Value::Array(v)
    }

    /// C13 (engine level, one step): add_node / evict_node / handle_node_failure of a peer that may be listed and may hold an arbitrary slot record
    pub fn admission_step(case: &Value) -> Value {
        use crate::security::verif_kani_security::driver as sec;
        let rt = tokio::runtime::Builder::new_current_thread().enable_all().build().unwrap();
        rt.block_on(async {
            let mode = if case.get("validator_ok").and_then(|v| v.as_bool()).unwrap_or(false) { CloseGroupEnforcementMode::LogOnly } else { CloseGroupEnforcementMode::Strict };
            let mut engine = DhtCoreEngine::new_with_validation_mode(NodeId::from_bytes([0u8; 32]), mode).unwrap();
            let mut t = table(case);
            let cap = u(case, "bucket_cap") as usize;
            for bk in t.buckets.iter_mut() {
                bk.max_size = cap;
            }
            *engine.routing_table.write().await = t;
            *engine.ip_diversity_enforcer.write().await = sec::build(case);
            {
                let mut g = engine.geographic_diversity_enforcer.write().await;
                g.max_per_region = u(case, "G.max") as usize;
                g.region_counts.clear();
                for (i, r) in REGIONS.iter().enumerate() {
                    if un(case, &format!("G.regions@r{i}.present")) != 0 {
                        g.region_counts.insert(*r, u(case, &format!("G.regions@r{i}.v0")) as usize);
                    }
                }
            }
            let x = id_in_bucket(raw32(case, "x"), case["__params"]["xb"].as_u64().unwrap_or(3) as usize);
            let xid = NodeId::from_bytes(x);
            let oid = NodeId::from_bytes(raw32(case, "o"));
            {
                let mut sl = engine.diversity_slots.write().await;
                if let Some(r) = read_slots(case, "other") {
                    sl.insert(oid.clone(), r);
                }
                if let Some(r) = read_slots(case, "x") {
                    sl.insert(xid.clone(), r);
                }
            }
            let v6 = case["__params"]["v6"].as_bool().unwrap_or(true);
            let mut ip6 = [0u8; 16];
            for i in 0..16 {
                ip6[i] = u(case, &format!("x.ip6.{i}")) as u8;
            }
            let mut ip4 = [0u8; 4];
            for i in 0..4 {
                ip4[i] = u(case, &format!("x.ip4.{i}")) as u8;
            }
            let ip: std::net::IpAddr = if v6 { std::net::IpAddr::V6(std::net::Ipv6Addr::from(ip6)) } else { std::net::IpAddr::V4(std::net::Ipv4Addr::from(ip4)) };
            let address = match u(case, "x.addr_kind") {
                0 => std::net::SocketAddr::new(ip, u(case, "x.port") as u16).to_string(),
                1 => ip.to_string(),
                _ => "addr999".to_string(),
            };
            let mut out = serde_json::Map::new();
            let ok = match case["__params"]["op"].as_str() {
                Some("add") => {
                    let mut node = mk(x, 999);
                    node.address = address;
                    engine.add_node(node).await.is_ok()
                }
                Some("evict") => engine.evict_node(&xid, EvictionReason::CloseGroupRejection).await.is_ok(),
                Some("evict_sec") => {
                    use crate::dht::routing_maintenance::close_group_validator::CloseGroupFailure as F;
                    let all = [F::NotInCloseGroup, F::EvictedFromCloseGroup, F::InsufficientConfirmation, F::LowTrustScore, F::InsufficientGeographicDiversity, F::SuspectedCollusion, F::AttackModeTriggered];
                    engine.evict_node_for_security(&xid, all[(u(case, "failure_reason") as usize) % all.len()].clone()).await.is_ok()
                }
                _ => engine.handle_node_failure(xid.clone()).await.is_ok(),
            };
            out.insert("ok".into(), json!(ok));
            sec::observe(&*engine.ip_diversity_enforcer.read().await, case, "post", &mut out);
            {
                let sl = engine.diversity_slots.read().await;
                out.insert("post.slots@x".into(), flat_slots(sl.get(&xid)));
                out.insert("post.slots@other".into(), flat_slots(sl.get(&oid)));
            }
            let listed = engine.routing_table.read().await.buckets.iter().any(|b| b.get_nodes().iter().any(|n| n.id == xid));
            out.insert("listed".into(), json!(listed));
            Value::Object(out)
        })
    }

    pub fn mutation(case: &Value) -> Value {
        let mut rt = table(case);
        let symcap = case["__params"]["symcap"].as_bool().unwrap_or(false);
        if symcap {
            // symbolic bucket capacity and arbitrary last-seen times (tags number the layout's slots in order)
            let cap = u(case, "bucket_cap") as usize;
            for (j, bk) in rt.buckets.iter_mut().enumerate() {
                bk.max_size = cap;
                for (sl, n) in bk.nodes.iter_mut().enumerate() {
                    n.last_seen = std::time::SystemTime::UNIX_EPOCH + Duration::from_secs(u(case, &format!("b{j}s{sl}.seen")));
                }
            }
        }
        let x = match case["__params"]["xb"].as_u64() {
            Some(j) => id_in_bucket(raw32(case, "x"), j as usize),
            None => [0u8; 32],
        };
        let mut ok = true;
        if case["__params"]["op"].as_str() == Some("add") {
            let mut xn = mk(x, 999);
            if symcap {
                xn.last_seen = std::time::SystemTime::UNIX_EPOCH + Duration::from_secs(u(case, "x.seen"));
                vp::clock::reset();
                vp::clock::push_real(u(case, "now.s"), 0);
                vp::clock::arm(true);
            }
            ok = rt.add_node(xn).is_ok();
            if symcap {
                vp::clock::arm(false);
                vp::clock::reset();
            }
        } else {
            rt.remove_node(&NodeId::from_bytes(x));
        }
        let mut t = Vec::new();
        for (j, bk) in rt.buckets.iter().enumerate() {
            for n in bk.get_nodes() {
                t.push(json!({"bucket": j, "id": n.id.as_bytes().to_vec()}));
            }
        }
        json!({"ok": ok, "table": t})
    }
}

#[cfg(all(test, verif_replay))]
#[test]
fn verif_replay_entry() {
    let h = std::env::var("VERIF_REPLAY_HARNESS").unwrap_or_default();
    if h == "c02_bucket_index" {
        vp::load_vals_from_env();
        return c02_bucket_index();
    }
    let case: serde_json::Value = serde_json::from_str(&std::env::var("VERIF_REPLAY_CASE").unwrap_or_default()).expect("case json");
    let obs = match h.as_str() {
        "closest" => driver::closest(&case),
        "mutation" => driver::mutation(&case),
        "engine_ops" => driver::engine_ops(&case),
        "dispatch" => driver::dispatch(&case),
        "engine_query" | "engine_response" => driver::engine_pending(&case),
        "kv_engine_store" | "kv_engine_retrieve" => driver::kv_engine(&case),
        "admission" => driver::admission(&case),
        "admission_step" => driver::admission_step(&case),
        other => panic!("unknown driver {other}"),
    };
    println!("VERIF-OBS {}", obs);
}
